#!/bin/bash
# Cold build of the harness (offline). Run once after a fresh restore; every check rebuilds incrementally.
set -eu
cd "$(dirname "$0")"
export CARGO_NET_OFFLINE=true
cargo build --manifest-path harness/Cargo.toml --workspace 2>&1 | tail -3
