#!/usr/bin/env python3
"""Regenerates MANIFEST.json from the table below (kept as code so that it stays valid and consistent)."""
import json, subprocess
ALL = [json.loads(l)['id'] for l in open('/verif/properties.jsonl')]
hooks_commits = subprocess.run(['git','-C','/repo','log','--format=%h %s'],capture_output=True,text=True).stdout.splitlines()
hook_commits = [l.split()[0] for l in hooks_commits if l.split(' ',1)[1].startswith('verif hook')]
CHECKS = {
 "C02": dict(engine="rolesprop", cat="exploration", design="§5 C02",
   technique="property-based testing: small-scope exhaustive enumeration + proptest generation of abstract timeout certificates against the statement's safety oracle; differential against the stand-alone re-proposal rules",
   text="Decision function get_implied_block judged on every timeout certificate of a bounded scope (committees <= 5/6 validators, weights <= 3, every B, Q, S and role-constrained report combination) and on random larger ones; a violation is a concrete certificate that would let a certified block be displaced.",
   note="Assumes correct replicas report only what the protocol lets them hold (monitored on real replicas by the simulator checks); signatures are not part of this decision function. Exhaustive only within the stated small scope."),
 "C04": dict(engine="rolesprop", cat="exploration", design="§5 C04",
   technique="property-based testing with a construction-ground-truth oracle (the generator knows which signatures it aggregated); exhaustive signer subsets for 12 weight vectors; stateful add() sequences against a set model",
   text="verify()/add() of every certificate-carrying type compared in both directions (accept iff genuinely backed) on generated committees, signer sets at/below the quorum and 31 kinds of single corruption.",
   note="Trusts BLS aggregate equality (different signature multiset => different aggregate) and the harness' u128 quorum arithmetic."),
 "C07": dict(engine="rolesprop", cat="exploration", design="§5 C07",
   technique="exhaustive enumeration of two ranges of total weights plus boundary windows and proptest-generated u64, against u128 reference arithmetic",
   text="All stated inequalities checked for every n in [1,2^22] and the top 2^20 of u64 (quick), around every 2^k/3*2^k/5*2^k, on random u64, and overflowing weight lists must be rejected.",
   note="The middle of the u64 range is sampled; the functions are piecewise linear in n mod 5 but no proof is claimed."),
 "C09": dict(engine="rolesprop", cat="exploration", design="§5 C09",
   technique="property-based testing: round-trip and metamorphic re-serialisation (harness-owned schema-aware wire rewriter: field permutation, packed/unpacked re-chunking, varint padding) over generated values of every roles/std wire type",
   text="Round-trip, determinism, canonical fixed point and normalisation of alternative valid serialisations for 63 value generators, equal-but-differently-built values, and a synthetic all-scalar schema for packed/unpacked.",
   note="Network-crate wire types are pub(crate); they are added through the network hook. Singular-field repetition, unknown fields, maps and implicit presence are documented as unsupported and not generated."),
 "C11": dict(engine="rolesprop", cat="exploration", design="§5 C11",
   technique="property-based testing of Schedule::view_leader over generated schedules and views (metamorphic: input order, encode/decode, same-turn views; invariants: eligible-only, round-robin permutation and period; statistical share bound for weighted mode)",
   text="No panic, eligible member, order/encoding independence, frequency semantics including 0, rotation and proportional share, on 24k generated (schedule, views) cases per quick run.",
   note="Weighted share is a 6.5-sigma bound over 4096 turns (deterministic per case). Exact hash/rotation order is not asserted because the property does not state it."),
}
checks=[]
for pid in ALL:
    if pid not in CHECKS: continue
    c=CHECKS[pid]
    checks.append({
      "property_id": pid,
      "quick_cmd": f"./check {pid} quick",
      "thorough_cmd": f"./check {pid} thorough",
      "evidence_file": f"/verif/evidence/{pid}.json",
      "replay_cmd_template": f"./check {pid} --replay {{path}}",
      "engine": c["engine"],
      "level_claimed": {"category": c["cat"], "text": c["text"], "design_ref": c["design"]},
      "level_note": c["note"],
      "technique": c["technique"],
    })
m={"version":1,"setup_cmd":"./setup.sh",
 "hooks":{"guard":"cargo feature `verif` (crates zksync_consensus_bft and zksync_consensus_network)",
          "enable":"the harness crates depend on the repository crates by path with features=[\"verif\"]; cargo rebuilds them from /repo's working tree on every check",
          "baseline_off_cmd":"cd /repo/node && cargo nextest run --workspace --no-fail-fast --test-threads 8 --offline",
          "source_commits":hook_commits,"add_only":True},
 "engines":[
   {"name":"rolesprop","path":"harness/rolesprop","serves_properties":["C02","C04","C07","C09","C11"],"kind_free_text":"proptest + hand-written enumerators over pure functions of the roles/protobuf crates"},
 ],
 "checks":checks,
 "notes":"Driver: ./check <Cxx> quick|thorough|--replay <file>. Exit 0 held / 1 VIOLATION / 2 inconclusive. Known findings: known_findings.json. Sensitivity protocol: mutants/.",
 "not_applicable":[{"property_id":p,"reason":"check under construction in this session (designed in DESIGN.md §5, not yet registered); no property is considered out of reach of the technique"} for p in ALL if p not in CHECKS]}
json.dump(m,open('/verif/MANIFEST.json','w'),indent=1)
print("checks:",[c['property_id'] for c in checks])
