#!/usr/bin/env python3
"""Regenerates MANIFEST.json from the table below (kept as code so that it stays valid and consistent)."""
import json, subprocess
ALL = [json.loads(l)['id'] for l in open('/verif/properties.jsonl')]
hooks_commits = subprocess.run(['git','-C','/repo','log','--format=%h %s'],capture_output=True,text=True).stdout.splitlines()
hook_commits = [l.split()[0] for l in hooks_commits if 'verif hook' in l]
CHECKS = {
 "C10": dict(engine="netprop", cat="exploration", design="§5 C10",
   technique="property-based testing / structured fuzzing in layers: valid encodings of all 56 wire types mutated by a schema-aware extremiser; generated frames, noise garbage, raw multiplexer frames and malformed RPC sub-streams against the real code on a deterministic runtime, with per-case panic capture",
   text="Every layer that parses peer-controlled bytes (decoders, length-prefixed frames, noise, multiplexer, RPC) is driven with generated hostile input; a panic, a hang at end-of-input, a read beyond the size limit or a wedged connection is a violation with a replayable input.",
   note="A caught panic stands for a process abort (the repository builds with panic=abort). Overflow-check panics are dev-profile only and are labelled so. Consensus-handler and live-node layers are added by the simulator / live parts."),
 "C13": dict(engine="netprop", cat="exploration", design="§5 C13",
   technique="property-based testing of the real noise stream over a harness-owned scripted transport (fragmentation, Pending, back-pressure) with a prefix / flush / EOF oracle and single-point ciphertext tampering",
   text="Write programs x transport scripts x tampers; clean runs are judged at quiescence (no deadlock, flushed bytes arrived, only a prefix of what was written, EOF exactly after shutdown, well-formed frames), tampered runs must deliver only a correct prefix and then fail or end.",
   note="ChaCha20-Poly1305 / snow are trusted; the check is about the stream layer around them."),
 "C14": dict(engine="netprop", cat="exploration", design="§5 C14",
   technique="stateful property-based testing: generated multi-session workloads on two real multiplexers over a scripted pipe with self-identifying payloads (isolation / order / completeness / limits / deadlock oracle at quiescence), plus a raw non-cooperative peer for the flow-control bound",
   text="Cross-talk, loss, reordering, early or missing end-of-stream, exceeded stream limits, deadlocks of cooperative programs and unbounded buffering under a flood are all observable violations.",
   note="Completeness is asserted only for programs whose readers run concurrently with their writers (head-of-line blocking is documented). Zero-length DATA frames hold no memory and are outside the byte bound."),
 "C15": dict(engine="netprop", cat="exploration", design="§5 C15",
   technique="stateful property-based testing on a manual clock: acquire/cancel/release/advance programs against the real limiter (window bound, FIFO, held <= burst, starvation-freedom, metamorphic removal of instantly-abandoned waits); generated client workloads against the real rpc::Service",
   text="Grant events of the limiter and request-start events of the real RPC service are checked against burst + T/r + 1 for every window, and concurrent handlers / sub-streams against the in-flight limit.",
   note="Time is the manual clock; a grant is the return of acquire / the server's OPEN frame."),
 "C18": dict(engine="netprop", cat="exploration", design="§5 C18",
   technique="model-based property testing: generated announcement batches against a reference map with whole-batch atomicity plus model-free invariants; metamorphic convergence of two delivery orders",
   text="After every batch the real address book equals the model, holds only members' verifying announcements, replaces only by strictly newer ones, is unchanged by refused batches; two orderings of the same honest announcements converge.",
   note="BLS unforgeability is trusted."),
 "C19": dict(engine="netprop", cat="exploration", design="§5 C19",
   technique="stateful property-based testing of the real fetch queue on a deterministic runtime with a quiescence barrier after every operation and a set model (conservation, single holder, lowest-first, announced-only, lost-wake-up detection)",
   text="Requests, peer announcements, accepts, successes, failures, disconnects and cancellations in generated orders; each step is judged against the model, including deterministic detection of lost wake-ups.",
   note="Concurrent requests for one block number are documented as unsupported and not generated. The fetcher / peer path of a live node is a separate (socket-based) part."),

 "C02": dict(engine="rolesprop", cat="exploration", design="§5 C02",
   technique="property-based testing: small-scope exhaustive enumeration + proptest generation of abstract timeout certificates against the statement's safety oracle; differential against the stand-alone re-proposal rules",
   text="Decision function get_implied_block judged on every timeout certificate of a bounded scope (committees <= 5/6 validators, weights <= 3, every B, Q, S and role-constrained report combination) and on random larger ones; a violation is a concrete certificate that would let a certified block be displaced.",
   note="Assumes correct replicas report only what the protocol lets them hold (monitored on real replicas by the simulator checks); signatures are not part of this decision function. Exhaustive only within the stated small scope."),
 "C04": dict(engine="rolesprop", cat="exploration", design="§5 C04",
   technique="property-based testing with a construction-ground-truth oracle (the generator knows which signatures it aggregated); exhaustive signer subsets for 12 weight vectors; stateful add() sequences against a set model",
   text="verify()/add() of every certificate-carrying type compared in both directions (accept iff genuinely backed) on generated committees, signer sets at/below the quorum and 31 kinds of single corruption.",
   note="Trusts BLS aggregate equality (different signature multiset => different aggregate) and the harness' u128 quorum arithmetic."),
 "C07": dict(engine="rolesprop", cat="exploration", design="§5 C07",
   technique="exhaustive enumeration of two ranges of total weights plus boundary windows and proptest-generated u64, against u128 reference arithmetic",
   text="All stated inequalities checked for every n in [1,2^22] and the top 2^20 of u64 (quick), around every 2^k/3*2^k/5*2^k, on random u64, and overflowing weight lists must be rejected.",
   note="The middle of the u64 range is sampled; the functions are piecewise linear in n mod 5 but no proof is claimed."),
 "C09": dict(engine="rolesprop", cat="exploration", design="§5 C09",
   technique="property-based testing: round-trip and metamorphic re-serialisation (harness-owned schema-aware wire rewriter: field permutation, packed/unpacked re-chunking, varint padding) over generated values of every roles/std wire type",
   text="Round-trip, determinism, canonical fixed point and normalisation of alternative valid serialisations for 63 value generators, equal-but-differently-built values, and a synthetic all-scalar schema for packed/unpacked.",
   note="Network-crate wire types are pub(crate); they are added through the network hook. Singular-field repetition, unknown fields, maps and implicit presence are documented as unsupported and not generated."),
 "C11": dict(engine="rolesprop", cat="exploration", design="§5 C11",
   technique="property-based testing of Schedule::view_leader over generated schedules and views (metamorphic: input order, encode/decode, same-turn views; invariants: eligible-only, round-robin permutation and period; statistical share bound for weighted mode)",
   text="No panic, eligible member, order/encoding independence, frequency semantics including 0, rotation and proportional share, on 24k generated (schedule, views) cases per quick run.",
   note="Weighted share is a 6.5-sigma bound over 4096 turns (deterministic per case). Exact hash/rotation order is not asserted because the property does not state it."),
}
checks=[]
for pid in ALL:
    if pid not in CHECKS: continue
    c=CHECKS[pid]
    checks.append({
      "property_id": pid,
      "quick_cmd": f"./check {pid} quick",
      "thorough_cmd": f"./check {pid} thorough",
      "evidence_file": f"/verif/evidence/{pid}.json",
      "replay_cmd_template": f"./check {pid} --replay {{path}}",
      "engine": c["engine"],
      "level_claimed": {"category": c["cat"], "text": c["text"], "design_ref": c["design"]},
      "level_note": c["note"],
      "technique": c["technique"],
    })
m={"version":1,"setup_cmd":"./setup.sh",
 "hooks":{"guard":"cargo feature `verif` (crates zksync_consensus_bft and zksync_consensus_network)",
          "enable":"the harness crates depend on the repository crates by path with features=[\"verif\"]; cargo rebuilds them from /repo's working tree on every check",
          "baseline_off_cmd":"cd /repo/node && cargo nextest run --workspace --no-fail-fast --test-threads 8 --offline",
          "source_commits":hook_commits,"add_only":True},
 "engines":[
   {"name":"rolesprop","path":"harness/rolesprop","serves_properties":["C02","C04","C07","C09","C11"],"kind_free_text":"proptest + hand-written enumerators over pure functions of the roles/protobuf crates"},
   {"name":"netprop","path":"harness/netprop","serves_properties":["C10","C13","C14","C15","C18","C19"],"kind_free_text":"proptest-generated programs driving the real network-crate components (through the verif hook) on a deterministic single-thread tokio runtime with paused time, manual clock and a scripted in-memory transport"},
 ],
 "checks":checks,
 "notes":"Driver: ./check <Cxx> quick|thorough|--replay <file>. Exit 0 held / 1 VIOLATION / 2 inconclusive. Known findings: known_findings.json. Sensitivity protocol: mutants/.",
 "not_applicable":[{"property_id":p,"reason":"check under construction in this session (designed in DESIGN.md §5, not yet registered); no property is considered out of reach of the technique"} for p in ALL if p not in CHECKS]}
json.dump(m,open('/verif/MANIFEST.json','w'),indent=1)
print("checks:",[c['property_id'] for c in checks])
