//! One libFuzzer target for every (property, part) registered by the harness engines: the input
//! bytes are the raw choice stream of the part's generator (little-endian u16s), the oracle is the
//! part's own check.  VERIF_FUZZ_TARGET=Cxx/part selects the part.  A violation writes a replay
//! file in the same format as the proptest campaigns (so `./check Cxx --replay` reproduces it
//! without libFuzzer), prints the VIOLATION line and aborts so that libFuzzer keeps the input.
#![no_main]
use common::{FuzzEntry, Stats};
use libfuzzer_sys::fuzz_target;
use std::sync::{Mutex, OnceLock};

struct Target {
    entry: FuzzEntry,
    env: common::Env,
    /// Accumulated statistics, dumped every 256 executions to VERIF_FUZZ_STATS (the campaign script
    /// reads the last dump: a conservative count).
    stats: Mutex<Stats>,
    stats_file: Option<String>,
}

fn target() -> &'static Target {
    static T: OnceLock<Target> = OnceLock::new();
    T.get_or_init(|| {
        let want = std::env::var("VERIF_FUZZ_TARGET").expect("VERIF_FUZZ_TARGET=Cxx/part");
        let (prop, part) = want.split_once('/').expect("VERIF_FUZZ_TARGET=Cxx/part");
        let mut all = rolesprop::fuzz_registry();
        all.extend(netprop::fuzz_registry());
        all.extend(concprop::fuzz_registry());
        let entry = all
            .into_iter()
            .find(|e| e.property == prop && e.part == part)
            .unwrap_or_else(|| panic!("no fuzzable part {want}"));
        let env = common::Env::for_fuzz(prop);
        // libfuzzer-sys installs a hook that aborts on any panic; the checks catch panics of the
        // code under test per case and judge them, so the harness hook replaces it.
        common::install_panic_hook();
        Target { entry, env, stats: Mutex::new(Stats::new(2)), stats_file: std::env::var("VERIF_FUZZ_STATS").ok().map(|f| format!("{f}.{}", std::process::id())) }
    })
}

fuzz_target!(|data: &[u8]| {
    let t = target();
    let raw = common::corpus_choices(data, t.entry.max_choices);
    let mut st = Stats::new(1);
    st.evaluations = 1;
    let res = (t.entry.run)(raw, &mut st);
    {
        let mut all = t.stats.lock().unwrap();
        if let Err((reason, _)) = &res {
            if t.env.is_known(reason) {
                st.excluded_known += 1;
            }
        }
        all.merge(st);
        if all.evaluations % 256 == 0 {
            if let Some(f) = &t.stats_file {
                let _ = std::fs::write(f, all.summary().to_string());
            }
        }
    }
    if let Err((reason, _)) = res {
        if t.env.is_known(&reason) || reason.contains("INFRA:") {
            return;
        }
        let (_, reason, case) = common::shrink_choices(&t.env, &t.entry, common::corpus_choices(data, t.entry.max_choices), 3000);
        let path = t.env.write_replay(&common::Failure {
            part: t.entry.part.to_string(),
            reason: reason.clone(),
            case,
        });
        println!("failure in part {} (libFuzzer): {}", t.entry.part, reason);
        println!("VIOLATION property={} replay={}", t.entry.property, path.display());
        std::process::abort();
    }
});
