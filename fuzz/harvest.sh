#!/bin/bash
# Merges the scratch corpus of finished campaigns into the committed seed corpus (coverage-minimised by libFuzzer's -merge),
# keeping at most MAX files per part (smallest first). usage: fuzz/harvest.sh [Cxx-part ...]
set -u
cd "$(dirname "$0")"
MAX=${MAX:-250}
export VERIF_ROOT="$(cd .. && pwd)"
bin="$PWD/target/x86_64-unknown-linux-gnu/release/bridge"
parts="$*"; [ -z "$parts" ] && parts=$(ls corpus-run | grep -v '\.' )
for pp in $parts; do
  [ -d "corpus-run/$pp/corpus" ] || continue
  prop=${pp%%-*}; part=${pp#*-}
  mkdir -p "corpus/$pp" "/tmp/harvest-$pp"
  VERIF_FUZZ_TARGET="$prop/$part" "$bin" -merge=1 "/tmp/harvest-$pp" "corpus/$pp" "corpus-run/$pp/corpus" > "corpus-run/$pp.merge.log" 2>&1
  rm -rf "corpus/$pp"; mkdir -p "corpus/$pp"
  ls -S -r "/tmp/harvest-$pp" | head -n "$MAX" | while read f; do cp "/tmp/harvest-$pp/$f" "corpus/$pp/$f"; done
  echo "$pp: $(ls corpus/$pp | wc -l) files, $(du -sk corpus/$pp | cut -f1) kB"
  rm -rf "/tmp/harvest-$pp"
done
