#!/bin/bash
# One libFuzzer campaign over a harness part: fuzz/run.sh <Cxx> <part> <runs per job> [max_len] [jobs]
# Rebuilds the bridge from /repo's working tree, runs <jobs> libFuzzer processes (sharing one scratch corpus,
# seeded from the committed corpus fuzz/corpus/<Cxx>-<part>/) and prints one FUZZSTATS JSON line.
# exit 0 = no violation, 1 = VIOLATION printed (replay file written by the bridge), 2 = inconclusive.
set -u
cd "$(dirname "$0")"
FUZZ="$PWD"
prop="$1"; part="$2"; runs="$3"; maxlen="${4:-800}"; jobs="${5:-4}"
export VERIF_ROOT="$(cd .. && pwd)" CARGO_NET_OFFLINE=true RUSTFLAGS="--cfg tokio_unstable"
seed="${VERIF_SEED:-1}"; [ "$seed" = "0" ] && seed=1
mkdir -p "$VERIF_ROOT/replays"
if ! cargo +nightly fuzz build --fuzz-dir . bridge > "$VERIF_ROOT/replays/.fuzz-build-$prop.log" 2>&1; then
  tail -30 "$VERIF_ROOT/replays/.fuzz-build-$prop.log" >&2; echo "INCONCLUSIVE: fuzz bridge build failed" >&2; exit 2
fi
work="$FUZZ/corpus-run/$prop-$part"; rm -rf "$work"; mkdir -p "$work/corpus" "$FUZZ/artifacts"
seeds="$FUZZ/corpus/$prop-$part"; mkdir -p "$seeds"
bin="$FUZZ/target/x86_64-unknown-linux-gnu/release/bridge"
cd "$work"
VERIF_FUZZ_TARGET="$prop/$part" VERIF_FUZZ_STATS="$work/stats" "$bin" "$work/corpus" "$seeds" -runs="$runs" -seed="$seed" -max_len="$maxlen" -len_control=0 \
   -jobs="$jobs" -workers="$jobs" -artifact_prefix="$FUZZ/artifacts/$prop-$part-" -print_final_stats=1 -rss_limit_mb=6144 -timeout=300 > "$work/main.log" 2>&1
code=$?
cat "$work"/fuzz-*.log 2>/dev/null | grep -E '^(failure|VIOLATION)' | sort -u
python3 - "$prop" "$part" "$work" "$code" "$seed" "$jobs" <<'PY'
import json,re,sys,glob
prop,part,work,code,seed,jobs=sys.argv[1:7]
execd=0; cov=0; ft=0; newu=0
for f in glob.glob(work+'/fuzz-*.log'):
    txt=open(f,errors='replace').read()
    m=re.search(r'stat::number_of_executed_units:\s+(\d+)',txt); execd+=int(m.group(1)) if m else 0
    m=re.search(r'stat::new_units_added:\s+(\d+)',txt); newu+=int(m.group(1)) if m else 0
    for m in re.finditer(r'cov: (\d+) ft: (\d+)',txt): cov=max(cov,int(m.group(1))); ft=max(ft,int(m.group(2)))
hs=[]
for f in glob.glob(work+'/stats.*'):
    try: hs.append(json.load(open(f)))
    except Exception: pass
classes={}
for h in hs:
    for k,v in h.get('classes',{}).items(): classes[k]=classes.get(k,0)+v
import os
out={"part":part,"engine":"libFuzzer (cargo-fuzz bridge: bytes = the choice stream of the part's generator; oracle = the part's check)",
     "libfuzzer_seed":int(seed),"jobs":int(jobs),"executed_units":execd,"new_units_added":newu,"cov_edges":cov,"features":ft,
     "corpus_units":len(os.listdir(work+'/corpus')),
     "harness_evaluations_counted":sum(h.get('evaluations',0) for h in hs),
     "distinct_nontrivial_lower_bound":max([h.get('distinct_nontrivial',0) for h in hs] or [0]),
     "classes":classes,"excluded_known":sum(h.get('excluded_known',0) for h in hs),
     "sample":(hs[0].get('samples') or [None])[0] if hs else None,"exit_code":int(code)}
print("FUZZSTATS "+json.dumps(out))
PY
if cat "$work"/fuzz-*.log 2>/dev/null | grep -q '^VIOLATION'; then exit 1; fi
if [ $code -ne 0 ]; then tail -5 "$work"/fuzz-0.log >&2; echo "INCONCLUSIVE: libFuzzer ended with status $code without a harness verdict" >&2; exit 2; fi
exit 0
