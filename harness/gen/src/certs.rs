//! Spec-level certificates: a serializable description of *which signatures were aggregated* and
//! *what the certificate claims*, from which both the real value and the construction ground truth
//! ("is this certificate genuinely backed?") are derived independently of the verification code.
use std::{cell::RefCell, collections::HashMap};

use bit_vec::BitVec;
use serde::{Deserialize, Serialize};
use zksync_consensus_utils::enum_util::Variant;
use zksync_consensus_roles::validator::{
    self,
    v2::{
        BlockHeader, CommitQC, ReplicaCommit, ReplicaTimeout, Signers, TimeoutQC, View,
    },
    BlockNumber, EpochNumber, Payload, ViewNumber,
};

use crate::{val_keys, Committee, CommitteeSpec};

/// Which chain / epoch a message claims.
#[derive(Clone, Copy, Debug, Serialize, Deserialize, PartialEq, Eq, Hash, PartialOrd, Ord)]
pub enum Chain {
    /// The verifier's genesis and epoch.
    Ours,
    /// Another genesis (same schedule, other fork number).
    Foreign,
    /// Our genesis, another epoch.
    OtherEpoch,
}

/// Payload with the given id.
pub fn payload(id: u8) -> Payload {
    Payload(vec![id; 1 + (id as usize % 3)])
}

/// View on the given chain.
pub fn view(c: &Committee, chain: Chain, number: u64) -> View {
    match chain {
        Chain::Ours => c.view(number),
        Chain::Foreign => View {
            genesis: c.foreign_genesis().hash(),
            epoch: c.epoch,
            number: ViewNumber(number),
        },
        Chain::OtherEpoch => View {
            genesis: c.gh(),
            epoch: EpochNumber(c.epoch.0 + 1),
            number: ViewNumber(number),
        },
    }
}

/// A commit vote.
#[derive(Clone, Copy, Debug, Serialize, Deserialize, PartialEq, Eq, Hash, PartialOrd, Ord)]
pub struct VoteSpec {
    /// View number.
    pub view: u64,
    /// Block number.
    pub number: u64,
    /// Payload id.
    pub payload: u8,
    /// Chain.
    pub chain: Chain,
}

impl VoteSpec {
    /// Real message.
    pub fn build(&self, c: &Committee) -> ReplicaCommit {
        ReplicaCommit {
            view: view(c, self.chain, self.view),
            proposal: BlockHeader {
                number: BlockNumber(self.number),
                payload: payload(self.payload).hash(),
            },
        }
    }
}

thread_local! {
    static SIG_CACHE: RefCell<HashMap<(usize, validator::MsgHash), validator::Signature>> = RefCell::new(HashMap::new());
}

/// Signs `msg` with pool key `key` (cached per thread).
pub fn sign<V: Variant<validator::Msg> + Clone>(
    key: usize,
    msg: &V,
) -> validator::Signature {
    let h = msg.clone().insert().hash();
    SIG_CACHE.with(|c| {
        let mut c = c.borrow_mut();
        if c.len() > 50_000 {
            c.clear();
        }
        c.entry((key, h))
            .or_insert_with(|| val_keys()[key].sign_hash(&h))
            .clone()
    })
}

fn bitvec(b: &[bool]) -> Signers {
    let mut v = BitVec::from_elem(b.len(), false);
    for (i, x) in b.iter().enumerate() {
        v.set(i, *x);
    }
    Signers(v)
}

/// Weight of a bitmap under the committee spec (u128; `None` if the length is wrong).
pub fn weight(spec: &CommitteeSpec, bitmap: &[bool]) -> Option<u128> {
    (bitmap.len() == spec.n()).then(|| {
        bitmap
            .iter()
            .zip(&spec.weights)
            .filter(|(b, _)| **b)
            .map(|(_, w)| *w as u128)
            .sum()
    })
}

/// Quorum weight computed independently (u128).
pub fn quorum(spec: &CommitteeSpec) -> u128 {
    let n: u128 = spec.weights.iter().map(|w| *w as u128).sum();
    n - (n - 1) / 5
}

/// Sub-quorum weight computed independently (u128).
pub fn subquorum(spec: &CommitteeSpec) -> u128 {
    let n: u128 = spec.weights.iter().map(|w| *w as u128).sum();
    n - 3 * ((n - 1) / 5)
}

/// Commit certificate description.
#[derive(Clone, Debug, Serialize, Deserialize, PartialEq, Eq, Hash)]
pub struct CommitQcSpec {
    /// The claimed vote.
    pub vote: VoteSpec,
    /// The claimed signer bitmap (its length may differ from the committee size).
    pub bitmap: Vec<bool>,
    /// The signatures actually aggregated: (pool key index, message signed).
    pub sigs: Vec<(usize, VoteSpec)>,
}

impl CommitQcSpec {
    /// Honestly built certificate signed by exactly `signers`.
    pub fn honest(spec: &CommitteeSpec, vote: VoteSpec, signers: &[bool]) -> Self {
        Self {
            vote,
            bitmap: signers.to_vec(),
            sigs: signers
                .iter()
                .enumerate()
                .filter(|(_, b)| **b)
                .map(|(i, _)| (spec.key_offset + i, vote))
                .collect(),
        }
    }

    /// The real value.
    pub fn build(&self, c: &Committee) -> CommitQC {
        let mut agg = validator::AggregateSignature::default();
        for (k, v) in &self.sigs {
            agg.add(&sign(*k, &v.build(c)));
        }
        CommitQC {
            message: self.vote.build(c),
            signers: bitvec(&self.bitmap),
            signature: agg,
        }
    }

    /// Construction ground truth.
    pub fn valid(&self, spec: &CommitteeSpec) -> bool {
        if self.vote.chain != Chain::Ours {
            return false;
        }
        let Some(w) = weight(spec, &self.bitmap) else {
            return false;
        };
        if w < quorum(spec) {
            return false;
        }
        let mut claimed: Vec<(usize, VoteSpec)> = self
            .bitmap
            .iter()
            .enumerate()
            .filter(|(_, b)| **b)
            .map(|(i, _)| (spec.key_offset + i, self.vote))
            .collect();
        let mut got = self.sigs.clone();
        claimed.sort();
        got.sort();
        claimed == got
    }
}

/// Timeout vote description.
#[derive(Clone, Debug, Serialize, Deserialize, PartialEq, Eq, Hash)]
pub struct TimeoutMsgSpec {
    /// View number.
    pub view: u64,
    /// Chain.
    pub chain: Chain,
    /// High vote.
    pub high_vote: Option<VoteSpec>,
    /// High certificate.
    pub high_qc: Option<CommitQcSpec>,
}

impl TimeoutMsgSpec {
    /// Real message.
    pub fn build(&self, c: &Committee) -> ReplicaTimeout {
        ReplicaTimeout {
            view: view(c, self.chain, self.view),
            high_vote: self.high_vote.map(|v| v.build(c)),
            high_qc: self.high_qc.as_ref().map(|q| q.build(c)),
        }
    }
    /// Ground truth for `ReplicaTimeout::verify`.
    pub fn valid(&self, spec: &CommitteeSpec) -> bool {
        self.chain == Chain::Ours
            && self.high_vote.map_or(true, |v| v.chain == Chain::Ours)
            && self.high_qc.as_ref().map_or(true, |q| q.valid(spec))
    }
}

/// Timeout certificate description.
#[derive(Clone, Debug, Serialize, Deserialize, PartialEq, Eq, Hash)]
pub struct TimeoutQcSpec {
    /// View number of the certificate.
    pub view: u64,
    /// Chain of the certificate.
    pub chain: Chain,
    /// Groups: (message, claimed signer bitmap).
    pub groups: Vec<(TimeoutMsgSpec, Vec<bool>)>,
    /// Signatures actually aggregated: (pool key index, index of the group whose message was signed).
    pub sigs: Vec<(usize, TSigOver)>,
}

/// What a timeout signature was made over.
#[derive(Clone, Debug, Serialize, Deserialize, PartialEq, Eq, Hash)]
pub enum TSigOver {
    /// The message of group `i`.
    Group(usize),
    /// Some other message.
    Other(TimeoutMsgSpec),
}

impl TimeoutQcSpec {
    /// Honest certificate: `assign[i]` = group of validator `i` (or none).
    pub fn honest(
        spec: &CommitteeSpec,
        view: u64,
        msgs: Vec<TimeoutMsgSpec>,
        assign: &[Option<usize>],
    ) -> Self {
        let n = spec.n();
        let mut groups: Vec<(TimeoutMsgSpec, Vec<bool>)> =
            msgs.into_iter().map(|m| (m, vec![false; n])).collect();
        let mut sigs = vec![];
        for (i, a) in assign.iter().enumerate() {
            if let Some(g) = a {
                groups[*g].1[i] = true;
                sigs.push((spec.key_offset + i, TSigOver::Group(*g)));
            }
        }
        // groups nobody signed do not exist in an honest certificate
        let mut remap = vec![None; groups.len()];
        let mut kept = vec![];
        for (gi, g) in groups.into_iter().enumerate() {
            if g.1.iter().any(|b| *b) {
                remap[gi] = Some(kept.len());
                kept.push(g);
            }
        }
        for s in &mut sigs {
            if let TSigOver::Group(g) = &mut s.1 {
                *g = remap[*g].unwrap();
            }
        }
        Self {
            view,
            chain: Chain::Ours,
            groups: kept,
            sigs,
        }
    }

    /// Real value. `None` if two groups build to the same message (not representable).
    pub fn build(&self, c: &Committee) -> Option<TimeoutQC> {
        let msgs: Vec<ReplicaTimeout> = self.groups.iter().map(|g| g.0.build(c)).collect();
        let mut map = std::collections::BTreeMap::new();
        for (m, g) in msgs.iter().zip(&self.groups) {
            if map.insert(m.clone(), bitvec(&g.1)).is_some() {
                return None;
            }
        }
        let mut agg = validator::AggregateSignature::default();
        for (k, over) in &self.sigs {
            let sig = match over {
                TSigOver::Group(g) => sign(*k, &msgs[*g]),
                TSigOver::Other(m) => sign(*k, &m.build(c)),
            };
            agg.add(&sig);
        }
        Some(TimeoutQC {
            view: view(c, self.chain, self.view),
            map,
            signature: agg,
        })
    }

    /// Construction ground truth (needs the built messages to compare signatures by content).
    pub fn valid(&self, spec: &CommitteeSpec, c: &Committee) -> bool {
        if self.chain != Chain::Ours {
            return false;
        }
        let n = spec.n();
        let mut seen = vec![false; n];
        let mut total: u128 = 0;
        let mut claimed: Vec<(usize, ReplicaTimeout)> = vec![];
        for (m, bitmap) in &self.groups {
            if m.view != self.view || m.chain != self.chain {
                return false;
            }
            if bitmap.len() != n || !bitmap.iter().any(|b| *b) {
                return false;
            }
            if !m.valid(spec) {
                return false;
            }
            let built = m.build(c);
            for (i, b) in bitmap.iter().enumerate() {
                if *b {
                    if seen[i] {
                        return false;
                    }
                    seen[i] = true;
                    total += spec.weights[i] as u128;
                    claimed.push((spec.key_offset + i, built.clone()));
                }
            }
        }
        if total < quorum(spec) {
            return false;
        }
        let mut got: Vec<(usize, ReplicaTimeout)> = self
            .sigs
            .iter()
            .map(|(k, over)| {
                (
                    *k,
                    match over {
                        TSigOver::Group(g) => self.groups[*g].0.build(c),
                        TSigOver::Other(m) => m.build(c),
                    },
                )
            })
            .collect();
        claimed.sort();
        got.sort();
        claimed == got
    }
}
