//! Value generators for every roles/std wire type: crafted boundary values (the traps named in
//! DESIGN.md C09) and a byte-level table (valid encoding, descriptor, round-trip decoder) used by the
//! decoder-robustness checks of C10.
use bit_vec::BitVec;
use common::Choices;
use prost_reflect::ReflectMessage;
use rand::{rngs::StdRng, Rng, SeedableRng};
use zksync_concurrency::{limiter, time};
use zksync_consensus_roles::{node, validator, validator::v2};
use zksync_protobuf::{decode, encode, ProtoFmt};

pub fn rng_of(ch: &mut Choices) -> StdRng {
    StdRng::seed_from_u64(ch.u64())
}


pub fn g_bitvec(ch: &mut Choices) -> (BitVec, bool) {
    let len = ch.pick(&[0usize, 1, 7, 8, 9, 15, 16, 17, 63, 64, 65, 100, 1000]);
    let mut v = match ch.below(4) {
        0 => BitVec::from_elem(len, false),
        1 => BitVec::from_elem(len, true),
        2 => {
            // from bytes with garbage beyond `len`, then truncated
            let bytes: Vec<u8> = (0..len.div_ceil(8) + ch.below(3)).map(|_| ch.raw() as u8).collect();
            let mut v = BitVec::from_bytes(&bytes);
            v.truncate(len);
            v
        }
        _ => {
            let mut v = BitVec::new();
            for _ in 0..len {
                v.push(ch.bool());
            }
            v
        }
    };
    if len > 0 && ch.bool() {
        let i = ch.below(len);
        v.set(i, ch.bool());
    }
    (v, len % 8 != 0)
}

pub fn g_duration(ch: &mut Choices) -> (time::Duration, bool) {
    let secs = match ch.below(8) {
        0 => 0,
        1 => ch.range(0, 10) as i64,
        2 => -(ch.range(0, 10) as i64),
        3 => i64::MAX - ch.range(0, 2) as i64,
        4 => i64::MIN + 1 + ch.range(0, 2) as i64,
        5 => ch.u64() as i64 >> ch.below(40),
        6 => 1_000_000_000 * ch.range(0, 9) as i64,
        _ => -(1i64 << ch.below(62)),
    };
    let nanos = match ch.below(6) {
        0 => 0,
        1 => 1,
        2 => 999_999_999,
        3 => ch.range(0, 999_999_999) as i32,
        4 => 500_000_000,
        _ => ch.range(0, 1000) as i32,
    };
    // Compose without overflowing: sign of nanos follows seconds.
    let d = if secs >= 0 {
        if secs == i64::MAX { time::Duration::new(secs, nanos) } else { time::Duration::new(secs, nanos) }
    } else {
        time::Duration::new(secs, -nanos)
    };
    // The statement quantifies over durations whose second count is above i64::MIN.
    let d = if d.whole_seconds() == i64::MIN { time::Duration::new(i64::MIN + 1, -nanos) } else { d };
    (d, d.is_negative() || d.subsec_nanoseconds() != 0)
}

pub fn g_utc(ch: &mut Choices) -> (time::Utc, bool) {
    let (d, s) = g_duration(ch);
    (time::UNIX_EPOCH + d, s)
}

pub fn g_addr(ch: &mut Choices) -> (std::net::SocketAddr, bool) {
    use std::net::*;
    let port = ch.pick(&[0u16, 1, 80, 3054, 65535, 32768]);
    let b = |ch: &mut Choices| ch.pick(&[0u8, 1, 127, 128, 255, 10, 192]);
    let ip = match ch.below(5) {
        0 => IpAddr::V4(Ipv4Addr::new(b(ch), b(ch), b(ch), b(ch))),
        1 => IpAddr::V6(Ipv4Addr::new(b(ch), b(ch), b(ch), b(ch)).to_ipv6_mapped()),
        2 => IpAddr::V6(Ipv6Addr::UNSPECIFIED),
        3 => IpAddr::V6(Ipv6Addr::LOCALHOST),
        _ => {
            let o: [u8; 16] = std::array::from_fn(|_| ch.raw() as u8);
            IpAddr::V6(Ipv6Addr::from(o))
        }
    };
    (SocketAddr::new(ip, port), matches!(ip, IpAddr::V6(v) if v.to_ipv4_mapped().is_some()))
}

pub fn g_rate(ch: &mut Choices) -> (limiter::Rate, bool) {
    let (d, s) = g_duration(ch);
    (limiter::Rate { burst: ch.pick(&[0usize, 1, 10, usize::MAX, 1 << 40]), refresh: d }, s)
}

pub fn u64x(ch: &mut Choices) -> u64 {
    match ch.below(6) {
        0 => 0,
        1 => 1,
        2 => u64::MAX,
        3 => u64::MAX - 1,
        4 => 1u64 << ch.below(64),
        _ => ch.u64(),
    }
}

pub fn g_view(ch: &mut Choices) -> v2::View {
    v2::View {
        genesis: rng_of(ch).gen(),
        epoch: validator::EpochNumber(u64x(ch)),
        number: validator::ViewNumber(u64x(ch)),
    }
}

pub fn g_header(ch: &mut Choices) -> v2::BlockHeader {
    v2::BlockHeader {
        number: validator::BlockNumber(u64x(ch)),
        payload: validator::Payload(vec![ch.raw() as u8; ch.below(3)]).hash(),
    }
}

pub fn g_commit(ch: &mut Choices) -> v2::ReplicaCommit {
    v2::ReplicaCommit { view: g_view(ch), proposal: g_header(ch) }
}

/// Real signatures (decoding validates group membership).
pub fn sig_pool() -> &'static [validator::Signature] {
    static P: std::sync::OnceLock<Vec<validator::Signature>> = std::sync::OnceLock::new();
    P.get_or_init(|| {
        let m = validator::Payload(vec![1, 2, 3]);
        (0..16)
            .map(|i| crate::val_keys()[i].sign_hash(&validator::Msg::SessionId(node::SessionId(vec![i as u8; 3 + i])).hash()))
            .chain(std::iter::once(crate::val_keys()[0].sign_hash(&validator::Msg::SessionId(node::SessionId(m.0.clone())).hash())))
            .collect()
    })
}

pub fn g_agg(ch: &mut Choices) -> validator::AggregateSignature {
    let k = ch.below(4);
    let mut a = validator::AggregateSignature::default();
    for _ in 0..k {
        a.add(&ch.pick(sig_pool()));
    }
    a
}

pub fn g_commit_qc(ch: &mut Choices) -> (v2::CommitQC, bool) {
    let (bv, s) = g_bitvec(ch);
    (v2::CommitQC { message: g_commit(ch), signers: v2::Signers(bv), signature: g_agg(ch) }, s)
}

pub fn g_timeout(ch: &mut Choices) -> (v2::ReplicaTimeout, bool) {
    let mut s = false;
    let high_qc = ch.bool().then(|| {
        let (q, sp) = g_commit_qc(ch);
        s |= sp;
        q
    });
    (v2::ReplicaTimeout { view: g_view(ch), high_vote: ch.bool().then(|| g_commit(ch)), high_qc }, s)
}

pub fn g_timeout_qc(ch: &mut Choices) -> (v2::TimeoutQC, bool) {
    let (groups, view, signature, s) = g_timeout_qc_parts(ch);
    // every insertion order of the same groups gives the same value; pick one
    let order = ch.perm(groups.len());
    let mut map = std::collections::BTreeMap::new();
    for i in order {
        map.insert(groups[i].0.clone(), groups[i].1.clone());
    }
    (v2::TimeoutQC { view, map, signature }, s)
}

/// The parts of a timeout certificate: vote groups with pairwise different votes (by `==`), view, signature.
pub fn g_timeout_qc_parts(ch: &mut Choices) -> (Vec<(v2::ReplicaTimeout, v2::Signers)>, v2::View, validator::AggregateSignature, bool) {
    let k = ch.below(5);
    let mut groups = vec![];
    let mut s = false;
    for _ in 0..k {
        let (m, sp) = g_timeout(ch);
        let (bv, sp2) = g_bitvec(ch);
        s |= sp | sp2;
        groups.push((m, v2::Signers(bv)));
    }
    // twins: a group whose vote differs from another group's vote in exactly one leaf (the map's ordering has to
    // tell them apart, whichever leaf it is)
    if !groups.is_empty() && ch.chance(1, 2) {
        let mut m: v2::ReplicaTimeout = ch.pick(&groups).0;
        if m.high_qc.is_none() && ch.chance(2, 3) {
            m.high_qc = Some(g_commit_qc(ch).0);
            m.high_vote.get_or_insert_with(|| g_commit(ch));
        }
        let mut t = m.clone();
        match ch.below(8) {
            0 => t.view.number = validator::ViewNumber(t.view.number.0.wrapping_add(1)),
            1 => t.view.epoch = validator::EpochNumber(t.view.epoch.0.wrapping_add(1)),
            2 => match t.high_vote.as_mut() {
                Some(v) => v.proposal.number = validator::BlockNumber(v.proposal.number.0.wrapping_add(1)),
                None => t.high_vote = Some(g_commit(ch)),
            },
            3 => match t.high_vote.as_mut() {
                Some(v) => v.proposal.payload = validator::Payload(vec![9, 9, 9, ch.raw() as u8]).hash(),
                None => t.high_vote = Some(g_commit(ch)),
            },
            4 => match t.high_qc.as_mut() {
                Some(q) => q.message.view.number = validator::ViewNumber(q.message.view.number.0.wrapping_add(1)),
                None => t.high_qc = Some(g_commit_qc(ch).0),
            },
            5 => match t.high_qc.as_mut() {
                Some(q) => {
                    // another aggregate for the same message and signers
                    let mut a = q.signature.clone();
                    a.add(&ch.pick(sig_pool()));
                    q.signature = a;
                }
                None => t.high_qc = Some(g_commit_qc(ch).0),
            },
            6 => match t.high_qc.as_mut() {
                Some(q) => {
                    let n = q.signers.0.len();
                    if n == 0 {
                        q.signers.0.push(true);
                    } else {
                        let i = ch.below(n);
                        let b = q.signers.0[i];
                        q.signers.0.set(i, !b);
                    }
                }
                None => t.high_qc = Some(g_commit_qc(ch).0),
            },
            _ => match t.high_qc.as_mut() {
                Some(q) => q.message.proposal.payload = validator::Payload(vec![7, 7, ch.raw() as u8]).hash(),
                None => t.high_qc = Some(g_commit_qc(ch).0),
            },
        }
        if t != m {
            groups.push((m, v2::Signers(g_bitvec(ch).0)));
            groups.push((t, v2::Signers(g_bitvec(ch).0)));
            s = true;
        }
    }
    let mut uniq: Vec<(v2::ReplicaTimeout, v2::Signers)> = vec![];
    for g in groups {
        if !uniq.iter().any(|u| u.0 == g.0) {
            uniq.push(g);
        }
    }
    let special = s || uniq.len() >= 2;
    (uniq, g_view(ch), g_agg(ch), special)
}

pub fn g_just(ch: &mut Choices) -> (v2::ProposalJustification, bool) {
    if ch.bool() {
        let (q, s) = g_commit_qc(ch);
        (v2::ProposalJustification::Commit(q), s)
    } else {
        let (q, s) = g_timeout_qc(ch);
        (v2::ProposalJustification::Timeout(q), s)
    }
}

pub fn g_payload(ch: &mut Choices) -> validator::Payload {
    let len = ch.pick(&[0usize, 1, 2, 127, 128, 129, 300, 20000]);
    validator::Payload((0..len).map(|i| (i as u8) ^ (ch.raw() as u8 & 1)).collect())
}

pub fn g_proposal(ch: &mut Choices) -> (v2::LeaderProposal, bool) {
    let (j, s) = g_just(ch);
    // `Some(empty payload)` and `None` are different values and must stay different
    let proposal_payload = match ch.below(3) {
        0 => None,
        1 => Some(validator::Payload(vec![])),
        _ => Some(g_payload(ch)),
    };
    let special = matches!(&proposal_payload, Some(p) if p.0.is_empty());
    (v2::LeaderProposal { proposal_payload, justification: j }, s || special)
}

pub fn g_chonky(ch: &mut Choices) -> (v2::ChonkyMsg, bool) {
    match ch.below(4) {
        0 => {
            let (p, s) = g_proposal(ch);
            (v2::ChonkyMsg::LeaderProposal(p), s)
        }
        1 => (v2::ChonkyMsg::ReplicaCommit(g_commit(ch)), false),
        2 => {
            let (j, s) = g_just(ch);
            (v2::ChonkyMsg::ReplicaNewView(v2::ReplicaNewView { justification: j }), s)
        }
        _ => {
            let (t, s) = g_timeout(ch);
            (v2::ChonkyMsg::ReplicaTimeout(t), s)
        }
    }
}

pub fn g_net_address(ch: &mut Choices) -> (validator::NetAddress, bool) {
    let (addr, s1) = g_addr(ch);
    let (timestamp, s2) = g_utc(ch);
    (validator::NetAddress { addr, version: u64x(ch), timestamp }, s1 || s2)
}

pub fn g_msg(ch: &mut Choices) -> (validator::Msg, bool) {
    match ch.below(3) {
        0 => {
            let (m, s) = g_chonky(ch);
            (validator::Msg::Consensus(validator::ConsensusMsg::V2(m)), s)
        }
        1 => (validator::Msg::SessionId(node::SessionId(vec![ch.raw() as u8; ch.below(40)])), false),
        _ => {
            let (a, s) = g_net_address(ch);
            (validator::Msg::NetAddress(a), s)
        }
    }
}

pub fn g_signed(ch: &mut Choices) -> (validator::Signed<validator::ConsensusMsg>, bool) {
    let (msg, s) = g_chonky(ch);
    let msg = validator::ConsensusMsg::V2(msg);
    (validator::Signed { msg, key: crate::val_keys()[ch.below(crate::POOL)].public(), sig: ch.pick(sig_pool()) }, s)
}

pub fn g_signed_addr(ch: &mut Choices) -> (validator::Signed<validator::NetAddress>, bool) {
    let (msg, s) = g_net_address(ch);
    (validator::Signed { msg, key: crate::val_keys()[ch.below(crate::POOL)].public(), sig: ch.pick(sig_pool()) }, s)
}

pub fn g_schedule(ch: &mut Choices) -> (validator::Schedule, bool) {
    let n = 1 + ch.below(12);
    let ids = ch.perm(crate::POOL);
    let mut infos: Vec<_> = (0..n)
        .map(|i| validator::ValidatorInfo {
            key: crate::val_keys()[ids[i]].public(),
            weight: match ch.below(3) {
                0 => 1,
                1 => 1 + ch.below(100) as u64,
                _ => 1u64 << ch.below(59),
            },
            leader: ch.bool(),
        })
        .collect();
    infos[0].leader = true;
    let sel = validator::LeaderSelection {
        frequency: u64x(ch),
        mode: if ch.bool() { validator::LeaderSelectionMode::Weighted } else { validator::LeaderSelectionMode::RoundRobin },
    };
    (validator::Schedule::new(infos, sel).unwrap(), n >= 2)
}

pub fn g_genesis_raw(ch: &mut Choices) -> (validator::GenesisRaw, bool) {
    let sched = ch.chance(3, 4).then(|| g_schedule(ch));
    let s = sched.as_ref().is_some_and(|x| x.1);
    (
        validator::GenesisRaw {
            chain_id: validator::ChainId(u64x(ch)),
            fork_number: validator::ForkNumber(u64x(ch)),
            protocol_version: validator::ProtocolVersion::CURRENT,
            first_block: validator::BlockNumber(u64x(ch)),
            validators_schedule: sched.map(|x| x.0),
        },
        s,
    )
}

pub fn g_state(ch: &mut Choices) -> (validator::ReplicaState, bool) {
    let mut s = false;
    let high_commit_qc = ch.bool().then(|| {
        let (q, sp) = g_commit_qc(ch);
        s |= sp;
        q
    });
    let high_timeout_qc = ch.bool().then(|| {
        let (q, sp) = g_timeout_qc(ch);
        s |= sp;
        q
    });
    let np = ch.below(4);
    // the replica caches several payloads per block number (a view timed out, the next leader proposed another block):
    // neighbouring entries often share their number
    let mut proposals: Vec<validator::Proposal> = vec![];
    for _ in 0..np {
        let number = match proposals.last() {
            Some(p) if ch.chance(1, 3) => p.number,
            _ => validator::BlockNumber(u64x(ch)),
        };
        proposals.push(validator::Proposal { number, payload: g_payload(ch) });
    }
    (
        validator::ReplicaState::V2(v2::ChonkyV2State {
            epoch: validator::EpochNumber(u64x(ch)),
            view_number: validator::ViewNumber(u64x(ch)),
            phase: ch.pick(&[v2::Phase::Prepare, v2::Phase::Commit, v2::Phase::Timeout]),
            high_vote: ch.bool().then(|| g_commit(ch)),
            high_commit_qc,
            high_timeout_qc,
            proposals,
        }),
        s || np >= 2,
    )
}

pub fn g_block(ch: &mut Choices) -> (validator::Block, bool) {
    if ch.bool() {
        let (q, s) = g_commit_qc(ch);
        (validator::Block::FinalV2(v2::FinalBlock { payload: g_payload(ch), justification: q }), s)
    } else {
        (
            validator::Block::PreGenesis(validator::PreGenesisBlock {
                number: validator::BlockNumber(u64x(ch)),
                payload: g_payload(ch),
                justification: validator::Justification(vec![7; ch.below(5)]),
            }),
            false,
        )
    }
}


// ---------------------------------------------------------------------------------------------
// byte-level table

/// One wire type at byte level.
pub struct TypeEntry {
    /// Name.
    pub name: &'static str,
    /// Generates a valid encoding.
    pub sample: fn(&mut Choices) -> Vec<u8>,
    /// Descriptor of the message.
    pub desc: fn() -> prost_reflect::MessageDescriptor,
    /// decode -> encode -> decode, checking that the two decoded values are equal; returns the re-encoding.
    pub roundtrip: fn(&[u8]) -> Result<Vec<u8>, String>,
}

fn roundtrip<T: ProtoFmt + PartialEq + std::fmt::Debug>(bytes: &[u8]) -> Result<Vec<u8>, String> {
    let x: T = decode(bytes).map_err(|e| format!("{e:#}"))?;
    let e = encode(&x);
    let y: T = decode(&e).map_err(|err| format!("ACCEPTED-THEN-INCONSISTENT: encode(decode(bytes)) does not decode: {err:#}"))?;
    if x != y {
        return Err(format!("ACCEPTED-THEN-INCONSISTENT: decode(encode(x)) != x for x = {x:?}"));
    }
    Ok(e)
}

fn desc<T: ProtoFmt>() -> prost_reflect::MessageDescriptor {
    <T::Proto as Default>::default().descriptor()
}

macro_rules! entry {
    ($name:expr, $t:ty, rand) => {
        TypeEntry {
            name: $name,
            sample: |ch| {
                let x: $t = rng_of(ch).gen();
                encode(&x)
            },
            desc: desc::<$t>,
            roundtrip: roundtrip::<$t>,
        }
    };
    ($name:expr, $t:ty, $f:expr) => {
        TypeEntry {
            name: $name,
            sample: |ch| {
                let x: $t = $f(ch);
                encode(&x)
            },
            desc: desc::<$t>,
            roundtrip: roundtrip::<$t>,
        }
    };
}

/// All roles/std wire types.
pub fn types() -> Vec<TypeEntry> {
    vec![
        entry!("std.SocketAddr", std::net::SocketAddr, |ch: &mut Choices| g_addr(ch).0),
        entry!("std.Timestamp", time::Utc, |ch: &mut Choices| g_utc(ch).0),
        entry!("std.Duration", time::Duration, |ch: &mut Choices| g_duration(ch).0),
        entry!("std.BitVector", BitVec, |ch: &mut Choices| g_bitvec(ch).0),
        entry!("std.RateLimit", limiter::Rate, |ch: &mut Choices| g_rate(ch).0),
        entry!("validator.PublicKey", validator::PublicKey, rand),
        entry!("validator.Signature", validator::Signature, rand),
        entry!("validator.AggregateSignature", validator::AggregateSignature, g_agg),
        entry!("validator.PayloadHash", validator::PayloadHash, rand),
        entry!("validator.GenesisHash", validator::GenesisHash, rand),
        entry!("validator.MsgHash", validator::MsgHash, rand),
        entry!("validator.BlockHeaderV2", v2::BlockHeader, g_header),
        entry!("validator.ViewV2", v2::View, g_view),
        entry!("validator.Signers", v2::Signers, rand),
        entry!("validator.PhaseV2", v2::Phase, |ch: &mut Choices| ch.pick(&[v2::Phase::Prepare, v2::Phase::Commit, v2::Phase::Timeout])),
        entry!("validator.ReplicaCommitV2", v2::ReplicaCommit, g_commit),
        entry!("validator.CommitQCV2", v2::CommitQC, |ch: &mut Choices| g_commit_qc(ch).0),
        entry!("validator.ReplicaTimeoutV2", v2::ReplicaTimeout, |ch: &mut Choices| g_timeout(ch).0),
        entry!("validator.TimeoutQCV2", v2::TimeoutQC, |ch: &mut Choices| g_timeout_qc(ch).0),
        entry!("validator.ProposalJustificationV2", v2::ProposalJustification, |ch: &mut Choices| g_just(ch).0),
        entry!("validator.LeaderProposalV2", v2::LeaderProposal, |ch: &mut Choices| g_proposal(ch).0),
        entry!("validator.ReplicaNewViewV2", v2::ReplicaNewView, rand),
        entry!("validator.ChonkyMsgV2", v2::ChonkyMsg, |ch: &mut Choices| g_chonky(ch).0),
        entry!("validator.ConsensusMsg", validator::ConsensusMsg, rand),
        entry!("validator.Msg", validator::Msg, |ch: &mut Choices| g_msg(ch).0),
        entry!("validator.Signed<ConsensusMsg>", validator::Signed<validator::ConsensusMsg>, |ch: &mut Choices| g_signed(ch).0),
        entry!("validator.Signed<NetAddress>", validator::Signed<validator::NetAddress>, |ch: &mut Choices| g_signed_addr(ch).0),
        entry!("validator.FinalBlockV2", v2::FinalBlock, rand),
        entry!("validator.PreGenesisBlock", validator::PreGenesisBlock, rand),
        entry!("validator.Block", validator::Block, |ch: &mut Choices| g_block(ch).0),
        entry!("validator.Proposal", validator::Proposal, rand),
        entry!("validator.ReplicaState", validator::ReplicaState, |ch: &mut Choices| g_state(ch).0),
        entry!("validator.NetAddress", validator::NetAddress, |ch: &mut Choices| g_net_address(ch).0),
        entry!("validator.Genesis(Raw)", validator::GenesisRaw, |ch: &mut Choices| g_genesis_raw(ch).0),
        entry!("validator.Genesis", validator::Genesis, rand),
        entry!("validator.ValidatorSchedule", validator::Schedule, |ch: &mut Choices| g_schedule(ch).0),
        entry!("validator.ValidatorInfo", validator::ValidatorInfo, rand),
        entry!("validator.LeaderSelection", validator::LeaderSelection, rand),
        entry!("validator.LeaderSelectionMode", validator::LeaderSelectionMode, rand),
        entry!("node.PublicKey", node::PublicKey, rand),
        entry!("node.Signature", node::Signature, rand),
        entry!("node.Signed<SessionId>", node::Signed<node::SessionId>, rand),
    ]
}
