//! Schema-aware protobuf wire parser / rewriter, independent of the code under test
//! (no quick_protobuf, no `read_fields`): used to produce alternative valid serialisations of a
//! message (C09) and to mutate valid encodings structurally (C10).
use common::Choices;
use prost_reflect::{Kind, MessageDescriptor};

/// A decoded value.
#[derive(Clone, Debug, PartialEq)]
pub enum Val {
    /// VARINT wire type.
    Varint(u64),
    /// I64 wire type.
    I64(u64),
    /// I32 wire type.
    I32(u32),
    /// LEN wire type holding bytes / string.
    Bytes(Vec<u8>),
    /// LEN wire type holding a sub-message.
    Msg(Vec<Field>, MessageDescriptor),
}

/// One field occurrence (packed repeated scalars are flattened into one `Field` per element).
#[derive(Clone, Debug, PartialEq)]
pub struct Field {
    /// Field number.
    pub num: u32,
    /// Value.
    pub val: Val,
}

fn read_varint(buf: &[u8], pos: &mut usize) -> Result<u64, String> {
    let mut x: u64 = 0;
    for i in 0..10 {
        let b = *buf.get(*pos).ok_or("truncated varint")?;
        *pos += 1;
        x |= ((b & 0x7f) as u64) << (7 * i);
        if b & 0x80 == 0 {
            return Ok(x);
        }
    }
    Err("varint too long".into())
}

fn is_scalar(kind: &Kind) -> bool {
    !matches!(kind, Kind::String | Kind::Bytes | Kind::Message(_))
}

fn scalar_wire(kind: &Kind) -> u32 {
    match kind {
        Kind::Fixed64 | Kind::Sfixed64 | Kind::Double => 1,
        Kind::Fixed32 | Kind::Sfixed32 | Kind::Float => 5,
        _ => 0,
    }
}

fn read_scalar(buf: &[u8], pos: &mut usize, wire: u32) -> Result<Val, String> {
    Ok(match wire {
        0 => Val::Varint(read_varint(buf, pos)?),
        1 => {
            let b = buf.get(*pos..*pos + 8).ok_or("truncated i64")?;
            *pos += 8;
            Val::I64(u64::from_le_bytes(b.try_into().unwrap()))
        }
        5 => {
            let b = buf.get(*pos..*pos + 4).ok_or("truncated i32")?;
            *pos += 4;
            Val::I32(u32::from_le_bytes(b.try_into().unwrap()))
        }
        w => return Err(format!("unsupported wire type {w}")),
    })
}

/// Parses `buf` as a message of type `desc`.
pub fn parse(buf: &[u8], desc: &MessageDescriptor) -> Result<Vec<Field>, String> {
    let mut pos = 0;
    let mut out = vec![];
    while pos < buf.len() {
        let tag = read_varint(buf, &mut pos)?;
        let num = (tag >> 3) as u32;
        let wire = (tag & 7) as u32;
        let fd = desc.get_field(num).ok_or_else(|| format!("unknown field {num} in {}", desc.name()))?;
        let kind = fd.kind();
        if wire == 2 {
            let len = read_varint(buf, &mut pos)? as usize;
            let body = buf.get(pos..pos + len).ok_or("truncated LEN")?;
            pos += len;
            match &kind {
                Kind::Message(d) => out.push(Field { num, val: Val::Msg(parse(body, d)?, d.clone()) }),
                Kind::String | Kind::Bytes => out.push(Field { num, val: Val::Bytes(body.to_vec()) }),
                k => {
                    let w = scalar_wire(k);
                    let mut p = 0;
                    while p < body.len() {
                        out.push(Field { num, val: read_scalar(body, &mut p, w)? });
                    }
                }
            }
        } else {
            if !is_scalar(&kind) || scalar_wire(&kind) != wire {
                return Err(format!("field {num}: wire type {wire} does not match the schema"));
            }
            out.push(Field { num, val: read_scalar(buf, &mut pos, wire)? });
        }
    }
    Ok(out)
}

/// Emission style.
#[derive(Clone, Copy, Debug, Default)]
pub struct Style {
    /// Permute fields (keeping the relative order of occurrences of the same field).
    pub permute: bool,
    /// Re-chunk repeated scalars into arbitrary packed / unpacked pieces.
    pub repack: bool,
    /// Pad some varints (tags, lengths, values) with redundant continuation bytes.
    pub pad_varints: bool,
}

fn put_varint(out: &mut Vec<u8>, mut x: u64, pad: usize, max_len: usize) {
    let start = out.len();
    loop {
        let b = (x & 0x7f) as u8;
        x >>= 7;
        if x == 0 {
            out.push(b);
            break;
        }
        out.push(b | 0x80);
    }
    let len = out.len() - start;
    let pad = pad.min(max_len.saturating_sub(len));
    if pad > 0 {
        let last = out.len() - 1;
        out[last] |= 0x80;
        for _ in 0..pad - 1 {
            out.push(0x80);
        }
        out.push(0x00);
    }
}

fn pad(ch: &mut Choices, style: &Style) -> usize {
    if style.pad_varints && ch.chance(1, 4) {
        1 + ch.below(2)
    } else {
        0
    }
}

fn put_scalar(out: &mut Vec<u8>, v: &Val, ch: &mut Choices, style: &Style) {
    match v {
        Val::Varint(x) => {
            let p = pad(ch, style);
            put_varint(out, *x, p, 10)
        }
        Val::I64(x) => out.extend_from_slice(&x.to_le_bytes()),
        Val::I32(x) => out.extend_from_slice(&x.to_le_bytes()),
        _ => unreachable!(),
    }
}

fn wire_of(v: &Val) -> u64 {
    match v {
        Val::Varint(_) => 0,
        Val::I64(_) => 1,
        Val::I32(_) => 5,
        _ => 2,
    }
}

/// Serialises `fields` (parsed under `desc`) in the given style; random decisions come from `ch`.
/// With the default style this is a plain in-order serialisation with unpacked scalars.
pub fn emit(fields: &[Field], desc: &MessageDescriptor, ch: &mut Choices, style: &Style) -> Vec<u8> {
    // 1. items: either one field occurrence, or a chunk of a repeated scalar field
    enum Item<'a> {
        One(&'a Field),
        Packed(u32, Vec<&'a Val>),
    }
    let mut items: Vec<(u32, Item)> = vec![];
    let mut i = 0;
    while i < fields.len() {
        let f = &fields[i];
        // mutated trees may contain fields the schema does not know
        let scalar_list = desc.get_field(f.num).is_some_and(|fd| fd.is_list() && is_scalar(&fd.kind()))
            && matches!(f.val, Val::Varint(_) | Val::I64(_) | Val::I32(_));
        if scalar_list && style.repack {
            // all consecutive and later occurrences are handled as they come; chunk greedily
            let mut j = i;
            let mut chunk = vec![];
            let want = 1 + ch.below(4);
            while j < fields.len() && fields[j].num == f.num && chunk.len() < want {
                chunk.push(&fields[j].val);
                j += 1;
            }
            if chunk.len() == 1 && ch.bool() {
                items.push((f.num, Item::One(f)));
            } else {
                items.push((f.num, Item::Packed(f.num, chunk)));
            }
            i = j;
        } else {
            items.push((f.num, Item::One(f)));
            i += 1;
        }
    }
    // 2. order: random interleaving that keeps the relative order per field number
    let n = items.len();
    let mut order: Vec<usize> = (0..n).collect();
    if style.permute && n > 1 {
        let perm = ch.perm(n);
        // positions (in output order) assigned to each field number, refilled in original order
        let mut by_num: std::collections::BTreeMap<u32, Vec<usize>> = Default::default();
        for (out_pos, &src) in perm.iter().enumerate() {
            by_num.entry(items[src].0).or_default().push(out_pos);
        }
        let mut next: std::collections::BTreeMap<u32, usize> = Default::default();
        let mut slots = vec![0usize; n];
        for (src, it) in items.iter().enumerate() {
            let k = next.entry(it.0).or_default();
            slots[by_num[&it.0][*k]] = src;
            *k += 1;
        }
        order = slots;
    }
    // 3. emit
    let mut out = vec![];
    for src in order {
        match &items[src].1 {
            Item::One(f) => {
                let p = pad(ch, style);
                put_varint(&mut out, ((f.num as u64) << 3) | wire_of(&f.val), p, 5);
                match &f.val {
                    Val::Bytes(b) => {
                        let p = pad(ch, style);
                        put_varint(&mut out, b.len() as u64, p, 5);
                        out.extend_from_slice(b);
                    }
                    Val::Msg(fs, d) => {
                        let body = emit(fs, d, ch, style);
                        let p = pad(ch, style);
                        put_varint(&mut out, body.len() as u64, p, 5);
                        out.extend_from_slice(&body);
                    }
                    v => put_scalar(&mut out, v, ch, style),
                }
            }
            Item::Packed(num, vals) => {
                let mut body = vec![];
                for v in vals {
                    put_scalar(&mut body, v, ch, style);
                }
                let p = pad(ch, style);
                put_varint(&mut out, ((*num as u64) << 3) | 2, p, 5);
                let p = pad(ch, style);
                put_varint(&mut out, body.len() as u64, p, 5);
                out.extend_from_slice(&body);
            }
        }
    }
    out
}

/// Structural statistics of a parsed message: (max nesting depth, max entries in one repeated field).
pub fn shape(fields: &[Field]) -> (usize, usize) {
    let mut depth = 1;
    let mut counts: std::collections::BTreeMap<u32, usize> = Default::default();
    for f in fields {
        *counts.entry(f.num).or_default() += 1;
        if let Val::Msg(fs, _) = &f.val {
            let (d, r) = shape(fs);
            depth = depth.max(1 + d);
            let e = counts.entry(u32::MAX).or_default();
            *e = (*e).max(r);
        }
    }
    let nested_rep = counts.remove(&u32::MAX).unwrap_or(0);
    (depth, counts.values().copied().max().unwrap_or(0).max(nested_rep))
}
