//! Shared generators: a deterministic pool of validator / node keys and committee specifications.
pub mod certs;
pub mod mutate;
pub mod values;
pub mod wire;

use std::sync::OnceLock;

use proptest::prelude::*;
use rand::{rngs::StdRng, Rng, SeedableRng};
use serde::{Deserialize, Serialize};
use zksync_consensus_roles::{node, validator};

/// Size of the validator key pool.
pub const POOL: usize = 24;

/// Validator secret keys, sorted by public key (so any sub-list `pool[a..b]` is already in
/// schedule order: validator `i` of a schedule built from it is `pool[a+i]`).
pub fn val_keys() -> &'static [validator::SecretKey] {
    static KEYS: OnceLock<Vec<validator::SecretKey>> = OnceLock::new();
    KEYS.get_or_init(|| {
        let mut rng = StdRng::seed_from_u64(0x6b657973);
        let mut v: Vec<validator::SecretKey> = (0..POOL).map(|_| rng.gen()).collect();
        v.sort_by_key(|k| k.public());
        v
    })
}

/// Node (ed25519) secret keys.
pub fn node_keys() -> &'static [node::SecretKey] {
    static KEYS: OnceLock<Vec<node::SecretKey>> = OnceLock::new();
    KEYS.get_or_init(|| {
        let mut rng = StdRng::seed_from_u64(0x6e6f6465);
        (0..POOL).map(|_| rng.gen()).collect()
    })
}

/// Serializable committee description. Validator `i` uses pool key `key_offset + i`.
#[derive(Clone, Debug, Serialize, Deserialize, PartialEq, Eq, Hash)]
pub struct CommitteeSpec {
    /// Weights (all > 0), one per validator.
    pub weights: Vec<u64>,
    /// Leader eligibility; at least one true.
    pub leaders: Vec<bool>,
    /// Weighted (true) or round-robin selection.
    pub weighted: bool,
    /// Rotation frequency.
    pub frequency: u64,
    /// Offset into the key pool.
    pub key_offset: usize,
    /// First block of the fork.
    pub first_block: u64,
}

/// A built committee.
#[derive(Clone, Debug)]
pub struct Committee {
    /// Secret keys in schedule order.
    pub keys: Vec<validator::SecretKey>,
    /// The schedule.
    pub schedule: validator::Schedule,
    /// Genesis containing the schedule.
    pub genesis: validator::Genesis,
    /// Epoch.
    pub epoch: validator::EpochNumber,
}

impl CommitteeSpec {
    /// All weights 1, everybody leader, round robin with frequency 1.
    pub fn uniform(n: usize) -> Self {
        Self {
            weights: vec![1; n],
            leaders: vec![true; n],
            weighted: false,
            frequency: 1,
            key_offset: 0,
            first_block: 0,
        }
    }

    /// Number of validators.
    pub fn n(&self) -> usize {
        self.weights.len()
    }

    /// Validator infos in schedule order.
    pub fn infos(&self) -> Vec<validator::ValidatorInfo> {
        let keys = val_keys();
        (0..self.n())
            .map(|i| validator::ValidatorInfo {
                key: keys[self.key_offset + i].public(),
                weight: self.weights[i],
                leader: self.leaders[i],
            })
            .collect()
    }

    /// Leader selection parameters.
    pub fn selection(&self) -> validator::LeaderSelection {
        validator::LeaderSelection {
            frequency: self.frequency,
            mode: if self.weighted {
                validator::LeaderSelectionMode::Weighted
            } else {
                validator::LeaderSelectionMode::RoundRobin
            },
        }
    }

    /// Builds the committee (panics if the spec is not a valid schedule).
    pub fn build(&self) -> Committee {
        let schedule = validator::Schedule::new(self.infos(), self.selection()).unwrap();
        let keys = val_keys()[self.key_offset..self.key_offset + self.n()].to_vec();
        let genesis = validator::GenesisRaw {
            chain_id: validator::ChainId(1337),
            fork_number: validator::ForkNumber(0),
            protocol_version: validator::ProtocolVersion::CURRENT,
            first_block: validator::BlockNumber(self.first_block),
            validators_schedule: Some(schedule.clone()),
        }
        .with_hash();
        Committee {
            keys,
            schedule,
            genesis,
            epoch: validator::EpochNumber(0),
        }
    }

    /// Total weight.
    pub fn total(&self) -> u64 {
        self.weights.iter().sum()
    }
}

impl Committee {
    /// Genesis hash.
    pub fn gh(&self) -> validator::GenesisHash {
        self.genesis.hash()
    }
    /// A view of this chain/epoch.
    pub fn view(&self, n: u64) -> validator::v2::View {
        validator::v2::View {
            genesis: self.gh(),
            epoch: self.epoch,
            number: validator::ViewNumber(n),
        }
    }
    /// A different chain (other fork number) with the same schedule.
    pub fn foreign_genesis(&self) -> validator::Genesis {
        let mut raw = (*self.genesis).clone();
        raw.fork_number = validator::ForkNumber(raw.fork_number.0 + 1);
        raw.with_hash()
    }
}

/// Weight vectors of length `n`: all ones, one heavy, small random, boundary-placing.
pub fn weights(n: usize) -> BoxedStrategy<Vec<u64>> {
    prop_oneof![
        3 => Just(vec![1u64; n]),
        2 => (0..n, 2u64..12).prop_map(move |(i, w)| {
            let mut v = vec![1u64; n];
            v[i] = w;
            v
        }),
        4 => proptest::collection::vec(1u64..5, n),
        2 => proptest::collection::vec(1u64..40, n),
        1 => proptest::collection::vec(1u64..1000, n),
    ]
    .boxed()
}

/// Committee specs with `n` in the given range.
pub fn committee(nmin: usize, nmax: usize) -> BoxedStrategy<CommitteeSpec> {
    (nmin..=nmax)
        .prop_flat_map(|n| {
            (
                weights(n),
                proptest::collection::vec(proptest::bool::weighted(0.75), n),
                0..n,
                any::<bool>(),
                prop_oneof![4 => Just(1u64), 1 => 2u64..4],
                0..=(POOL - n),
            )
        })
        .prop_map(|(weights, mut leaders, force, weighted, frequency, key_offset)| {
            leaders[force] = true;
            CommitteeSpec {
                weights,
                leaders,
                weighted,
                frequency,
                key_offset,
                first_block: 0,
            }
        })
        .boxed()
}
