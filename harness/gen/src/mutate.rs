//! Structured extremiser: takes a valid encoding, walks its protobuf tree and applies a few
//! mutations that a byte-level fuzzer reaches only with luck (extreme scalars, lengths off by one,
//! dropped / duplicated / unknown fields, truncation).
use common::Choices;
use prost_reflect::MessageDescriptor;

use crate::wire::{self, Field, Style, Val};

/// Extreme 64-bit patterns (as raw varint values).
pub const EXTREMES: &[u64] = &[
    0,
    1,
    2,
    127,
    128,
    255,
    256,
    65535,
    65536,
    999_999_999,
    1_000_000_000,
    1_000_000_001,
    (1 << 31) - 1,
    1 << 31,
    (1 << 32) - 1,
    1 << 32,
    (1 << 63) - 1,
    1 << 63,
    u64::MAX,
    u64::MAX - 1,
    i64::MIN as u64 + 1,
    (-1_000_000_000i64) as u64,
    (i32::MIN as i64) as u64,
    (-1i64) as u64 - 999_999_999,
];

/// The values that sit on arithmetic boundaries.
pub const TOPS: &[u64] = &[
    (1 << 63) - 1,
    1 << 63,
    u64::MAX,
    (1 << 31) - 1,
    1_000_000_000,
    (-1_000_000_000i64) as u64,
    (1 << 63) - 2,
    0,
];

fn count_nodes(fs: &[Field]) -> usize {
    fs.iter().map(|f| 1 + if let Val::Msg(x, _) = &f.val { count_nodes(x) } else { 0 }).sum()
}

/// Applies `f` to the `n`-th node (pre-order). Returns whether it was found.
fn with_node(fs: &mut Vec<Field>, n: &mut usize, f: &mut dyn FnMut(&mut Vec<Field>, usize)) -> bool {
    let mut i = 0;
    while i < fs.len() {
        if *n == 0 {
            f(fs, i);
            return true;
        }
        *n -= 1;
        if let Val::Msg(x, _) = &mut fs[i].val {
            if with_node(x, n, f) {
                return true;
            }
        }
        i += 1;
    }
    false
}

/// One structural mutation of the tree. Returns its label.
pub fn mutate_tree(ch: &mut Choices, tree: &mut Vec<Field>) -> &'static str {
    let total = count_nodes(tree);
    if total == 0 {
        tree.push(Field { num: 1 + ch.below(4) as u32, val: Val::Varint(ch.pick(EXTREMES)) });
        return "add_field_to_empty";
    }
    let mut target = ch.below(total);
    let kind = ch.below(12);
    let tops: Vec<u64> = (0..8).map(|_| ch.pick(TOPS)).collect();
    let extreme = ch.pick(EXTREMES);
    let small = ch.below(3) as u64;
    let byte = ch.raw() as u8;
    let sel = ch.raw();
    let mut label = "none";
    with_node(tree, &mut target, &mut |fs, i| {
        label = match kind {
            0..=3 => match &mut fs[i].val {
                Val::Varint(x) => {
                    *x = extreme;
                    "scalar_extreme"
                }
                Val::I64(x) => {
                    *x = extreme;
                    "scalar_extreme"
                }
                Val::I32(x) => {
                    *x = extreme as u32;
                    "scalar_extreme"
                }
                Val::Bytes(b) => {
                    match small {
                        0 => {
                            b.pop();
                        }
                        1 => b.push(byte),
                        _ => {
                            if !b.is_empty() {
                                let k = common::pick_index(sel, b.len());
                                b[k] ^= 1 << (byte % 8);
                            }
                        }
                    }
                    "bytes_length_or_bit"
                }
                Val::Msg(x, _) => {
                    x.clear();
                    "submessage_emptied"
                }
            },
            4 => {
                fs.remove(i);
                "field_dropped"
            }
            5 => {
                let f = fs[i].clone();
                fs.insert(i, f);
                "field_duplicated"
            }
            6 => {
                fs[i].val = match small {
                    0 => Val::Varint(extreme),
                    1 => Val::Bytes(vec![byte; (sel % 40) as usize]),
                    _ => Val::I64(extreme),
                };
                "wire_type_changed"
            }
            7 => {
                fs.push(Field { num: 1 + (sel % 20) as u32, val: Val::Varint(extreme) });
                "field_added"
            }
            8 => {
                if let Val::Bytes(b) = &mut fs[i].val {
                    *b = vec![byte; if small == 0 { 0 } else { 70_000 }];
                    "bytes_empty_or_huge"
                } else {
                    fs[i].num = 1 + (sel % 20) as u32;
                    "field_renumbered"
                }
            }
            10 | 11 => {
                // correlated extremes: every scalar sibling of the chosen node gets a top value
                for (k, f) in fs.iter_mut().enumerate() {
                    match &mut f.val {
                        Val::Varint(x) | Val::I64(x) => *x = tops[k % tops.len()],
                        Val::I32(x) => *x = tops[k % tops.len()] as u32,
                        _ => {}
                    }
                }
                "all_sibling_scalars_extreme"
            }
            _ => {
                // the same field of a sibling: swap two fields' values
                let j = common::pick_index(sel, fs.len());
                let (a, b) = (fs[i].val.clone(), fs[j].val.clone());
                fs[i].val = b;
                fs[j].val = a;
                "values_swapped"
            }
        };
    });
    label
}

/// Mutates a valid encoding `bytes` of type `desc`: 1-2 tree mutations, then optionally one raw mutation.
/// Returns the mutated bytes and labels.
pub fn extremise(ch: &mut Choices, bytes: &[u8], desc: &MessageDescriptor) -> (Vec<u8>, Vec<&'static str>) {
    let mut labels = vec![];
    let Ok(mut tree) = wire::parse(bytes, desc) else {
        return (bytes.to_vec(), vec!["unparsed"]);
    };
    let n = ch.weighted(&[(1, 0usize), (5, 1), (2, 2)]);
    for _ in 0..n {
        labels.push(mutate_tree(ch, &mut tree));
    }
    let style = Style { permute: ch.chance(1, 4), repack: false, pad_varints: ch.chance(1, 8) };
    let mut out = wire::emit(&tree, desc, ch, &style);
    match ch.weighted(&[(6, 0), (2, 1), (1, 2), (1, 3)]) {
        0 => {}
        1 => {
            if !out.is_empty() {
                let k = ch.below(out.len());
                out.truncate(k);
                labels.push("raw_truncated");
            }
        }
        2 => {
            if !out.is_empty() {
                let k = ch.below(out.len());
                out[k] = ch.pick(&[0u8, 1, 0x7f, 0x80, 0xff]);
                labels.push("raw_byte_set");
            }
        }
        _ => {
            let k = ch.below(out.len() + 1);
            let ins: Vec<u8> = (0..1 + ch.below(4)).map(|_| ch.raw() as u8).collect();
            out.splice(k..k, ins);
            labels.push("raw_bytes_inserted");
        }
    }
    if labels.is_empty() {
        labels.push("valid");
    }
    (out, labels)
}
