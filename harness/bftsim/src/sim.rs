//! The ChonkyBFT simulator: real replicas (through the bft `verif` hook), real `EngineManager`s over
//! `SimEngine`, one manual clock per node, a pool of every message ever emitted or crafted, and a
//! step-by-step driver on the deterministic runtime. Loss, duplication, reordering, replay and
//! partitions are all just choices of which pool message is delivered to whom.
use std::{
    collections::{BTreeMap, BTreeSet},
    future::Future,
    pin::Pin,
    sync::Arc,
};

use common::det;
use gen::{Committee, CommitteeSpec};
use zksync_concurrency::time;
use zksync_consensus_bft::{
    verif::{Outcome, Replica, Snapshot},
    Config,
};
use zksync_consensus_engine::EngineManager;
use zksync_consensus_roles::validator::{self, v2, Block, BlockNumber, ConsensusMsg, Signed};

use crate::engine::{CrashPoint, SimEngine};

pub type Msg = Signed<ConsensusMsg>;

#[derive(Debug, Clone, Copy, PartialEq, Eq, PartialOrd, Ord, Hash)]
pub enum Kind {
    Proposal,
    Commit,
    Timeout,
    NewView,
}

pub fn kind_of(m: &Msg) -> Kind {
    let ConsensusMsg::V2(x) = &m.msg;
    match x {
        v2::ChonkyMsg::LeaderProposal(_) => Kind::Proposal,
        v2::ChonkyMsg::ReplicaCommit(_) => Kind::Commit,
        v2::ChonkyMsg::ReplicaTimeout(_) => Kind::Timeout,
        v2::ChonkyMsg::ReplicaNewView(_) => Kind::NewView,
    }
}

pub fn view_of(m: &Msg) -> u64 {
    // ConsensusMsg::view_number() overflows for certificate view u64::MAX (known finding F6): compute without +1 overflow
    let ConsensusMsg::V2(x) = &m.msg;
    match x {
        v2::ChonkyMsg::LeaderProposal(p) => just_view(&p.justification),
        v2::ChonkyMsg::ReplicaCommit(c) => c.view.number.0,
        v2::ChonkyMsg::ReplicaTimeout(t) => t.view.number.0,
        v2::ChonkyMsg::ReplicaNewView(n) => just_view(&n.justification),
    }
}

pub fn just_view(j: &v2::ProposalJustification) -> u64 {
    match j {
        v2::ProposalJustification::Commit(q) => q.view().number.0.wrapping_add(1),
        v2::ProposalJustification::Timeout(q) => q.view.number.0.wrapping_add(1),
    }
}

#[derive(Debug, Clone)]
pub struct PoolMsg {
    pub msg: Msg,
    /// Validator index of the signer (by key), if a committee member.
    pub from: Option<usize>,
    /// Crafted by the adversary (else emitted by a correct replica).
    pub crafted: bool,
    /// Step at which it entered the pool.
    pub at: usize,
}

#[derive(Debug, Clone)]
pub enum Input {
    Msg(usize),
    Timer,
    Propose,
}

#[derive(Debug, Clone)]
pub enum StepOut {
    Handled(Outcome),
    Timer(Result<(), String>),
    Proposed(Result<Option<usize>, String>),
}

#[derive(Debug, Clone)]
pub struct StepRecord {
    pub seq: usize,
    pub node: usize,
    pub incarnation: u32,
    pub input: Input,
    pub out: StepOut,
    pub before: Snapshot,
    pub after: Snapshot,
    /// Pool indices of the messages emitted during the step.
    pub emitted: Vec<usize>,
    /// Number of applied durable state writes before / after the step.
    pub writes_before: usize,
    pub writes_after: usize,
}

/// A replica step runs as its own task so that a panic inside a handler is contained (and reported)
/// instead of unwinding through the runtime.
type Busy = tokio::task::JoinHandle<(Replica, StepOut)>;
type StepFut = Pin<Box<dyn Send + Future<Output = (Replica, StepOut)>>>;

pub struct Running {
    pub life: det::Life,
    pub mgr: Arc<EngineManager>,
    pub runner: tokio::task::JoinHandle<anyhow::Result<()>>,
    pub replica: Option<Replica>,
}

pub struct Node {
    pub idx: usize,
    pub engine: SimEngine,
    pub run: Option<Running>,
    busy: Option<(Busy, Input, Snapshot, usize)>,
    pub incarnation: u32,
    pub delivered: BTreeSet<usize>,
    /// Messages delivered to the current incarnation (for the justification monitor).
    pub delivered_this_incarnation: Vec<usize>,
}

impl Node {
    pub fn is_up(&self) -> bool {
        self.run.is_some()
    }
    pub fn is_busy(&self) -> bool {
        self.busy.is_some()
    }
    /// What the node is doing, for diagnostics.
    pub fn status(&self) -> String {
        match (&self.run, &self.busy) {
            (None, _) => "down".into(),
            (Some(_), Some((_, input, before, _))) => format!("busy with {input:?} since view {} {:?}", before.view.0, before.phase),
            (Some(r), None) => match r.replica.as_ref() {
                Some(x) => format!("idle in view {} {:?}", x.snapshot().view.0, x.snapshot().phase),
                None => "up without replica".into(),
            },
        }
    }
    pub fn snapshot(&self) -> Option<Snapshot> {
        self.run.as_ref()?.replica.as_ref().map(|r| r.snapshot())
    }
    /// Height: next block number not yet stored durably.
    pub fn durable_next(&self) -> u64 {
        self.engine.durable_next()
    }
}

#[derive(Debug, Clone)]
pub struct SimCfg {
    pub spec: CommitteeSpec,
    pub byz: Vec<bool>,
    pub view_timeout_ms: i64,
    pub max_payload: usize,
}

pub struct World {
    /// Diagnostics only: how much of the pool the trace has printed.
    pub trace_pool_seen: std::cell::Cell<usize>,
    pub cfg: SimCfg,
    pub committee: Committee,
    pub nodes: Vec<Option<Node>>,
    pub pool: Vec<PoolMsg>,
    pub steps: Vec<StepRecord>,
    pub seq: usize,
    /// Violations detected by the driver itself (panics, internal errors outside crash injection).
    pub driver_errors: Vec<String>,
    /// Reference-model oracle (C05), run at the moment each step finishes.
    pub model: Option<crate::model::ModelBank>,
    pub index: BTreeMap<validator::PublicKey, usize>,
}

impl World {
    pub async fn new(cfg: SimCfg) -> Result<Self, String> {
        let committee = cfg.spec.build();
        let index = committee.schedule.keys().enumerate().map(|(i, k)| (k.clone(), i)).collect();
        let mut w = World { trace_pool_seen: Default::default(), committee, nodes: vec![], pool: vec![], steps: vec![], seq: 0, driver_errors: vec![], model: None, index, cfg };
        for i in 0..w.cfg.spec.n() {
            if w.cfg.byz[i] {
                w.nodes.push(None);
                continue;
            }
            let engine = SimEngine::new(w.committee.genesis.clone(), w.cfg.spec.first_block);
            engine.st.lock().unwrap().tag = i as u8;
            w.nodes.push(Some(Node { idx: i, engine, run: None, busy: None, incarnation: 0, delivered: BTreeSet::new(), delivered_this_incarnation: vec![] }));
        }
        for i in 0..w.nodes.len() {
            if w.nodes[i].is_some() {
                w.boot(i).await?;
            }
        }
        Ok(w)
    }

    pub fn correct(&self) -> Vec<usize> {
        (0..self.nodes.len()).filter(|i| self.nodes[*i].is_some()).collect()
    }

    pub fn byz_ids(&self) -> Vec<usize> {
        (0..self.nodes.len()).filter(|i| self.cfg.byz[*i]).collect()
    }

    pub fn node(&self, i: usize) -> &Node {
        self.nodes[i].as_ref().unwrap()
    }

    fn node_mut(&mut self, i: usize) -> &mut Node {
        self.nodes[i].as_mut().unwrap()
    }

    pub fn weight_of(&self, ids: impl IntoIterator<Item = usize>) -> u64 {
        ids.into_iter().map(|i| self.cfg.spec.weights[i]).sum()
    }

    pub fn quorum(&self) -> u64 {
        self.committee.schedule.quorum_threshold()
    }

    pub fn leader(&self, view: u64) -> usize {
        self.index[&self.committee.schedule.view_leader(validator::ViewNumber(view))]
    }

    /// Adds a message to the pool (deduplicated) and returns its index.
    pub fn add_to_pool(&mut self, msg: Msg, crafted: bool) -> usize {
        if let Some(i) = self.pool.iter().position(|p| p.msg == msg) {
            return i;
        }
        let from = self.index.get(&msg.key).copied();
        self.pool.push(PoolMsg { msg, from, crafted, at: self.seq });
        self.pool.len() - 1
    }

    /// (Re)starts node `i` from its durable state, like a process start.
    pub async fn boot(&mut self, i: usize) -> Result<(), String> {
        let (view_timeout, max_payload) = (self.cfg.view_timeout_ms, self.cfg.max_payload);
        let key = self.committee.keys[i].clone();
        let epoch = self.committee.epoch;
        let node = self.node_mut(i);
        let life = det::Life::new();
        let (mgr, runner) = EngineManager::new(&life.ctx, Box::new(node.engine.clone()), time::Duration::seconds(60))
            .await
            .map_err(|e| format!("EngineManager::new: {e:?}"))?;
        let rctx = life.child();
        let runner = tokio::spawn(async move { runner.run(&rctx).await });
        let cfg = Config::new(key, max_payload, time::Duration::milliseconds(view_timeout), mgr.clone(), epoch).map_err(|e| format!("Config::new: {e:#}"))?;
        let replica = Replica::start(&life.child(), cfg).await.map_err(|e| format!("Replica::start: {e:?}"))?;
        node.run = Some(Running { life, mgr, runner, replica: Some(replica) });
        node.delivered_this_incarnation.clear();
        det::barrier().await;
        // the run() loop times out at once in view 0 to bootstrap the first justification
        if self.node(i).snapshot().is_some_and(|s| s.view.0 == 0) {
            self.timer(i).await;
        }
        Ok(())
    }

    /// Polls the pending steps of all nodes until the system is quiescent.
    pub async fn progress(&mut self) {
        loop {
            let mut progressed = false;
            for i in 0..self.nodes.len() {
                let Some(node) = self.nodes[i].as_mut() else { continue };
                let Some((fut, _, _, _)) = node.busy.as_mut() else { continue };
                if let Some(joined) = det::until_quiescent(fut).await {
                    let (_, input, before, writes_before) = node.busy.take().unwrap();
                    match joined {
                        Ok((replica, out)) => {
                            node.run.as_mut().unwrap().replica = Some(replica);
                            self.finish_step(i, input, out, before, writes_before);
                        }
                        Err(e) => self.step_panicked(i, &input, e),
                    }
                    progressed = true;
                }
            }
            if !progressed {
                break;
            }
        }
        det::barrier().await;
    }

    fn writes(&self, i: usize) -> usize {
        self.node(i).engine.st.lock().unwrap().set_state_log.iter().filter(|w| w.2).count()
    }

    fn finish_step(&mut self, i: usize, input: Input, out: StepOut, before: Snapshot, writes_before: usize) {
        let emitted_msgs = self.node_mut(i).run.as_mut().unwrap().replica.as_mut().unwrap().drain_outbound();
        let mut emitted = vec![];
        for m in emitted_msgs {
            let before = self.pool.len();
            let idx = self.add_to_pool(m, false);
            if idx < before {
                // a re-broadcast of an identical message (timers re-send timeout and new-view messages):
                // the network carries it again, so it is deliverable again to everybody
                for n in self.nodes.iter_mut().flatten() {
                    n.delivered.remove(&idx);
                }
            }
            emitted.push(idx);
        }
        let mut out = out;
        if let StepOut::Proposed(Ok(Some(_))) = &out {
            // the proposal is "emitted" by being returned; it was put into the pool by `propose`
        }
        let after = self.node(i).snapshot().unwrap();
        let crashed = self.node(i).engine.st.lock().unwrap().crashed;
        let internal = match &out {
            StepOut::Handled(Outcome::Internal(e)) => Some(e.clone()),
            StepOut::Timer(Err(e)) => Some(e.clone()),
            _ => None,
        };
        if let StepOut::Proposed(Err(_)) = &mut out {}
        let rec = StepRecord {
            seq: self.seq,
            node: i,
            incarnation: self.node(i).incarnation,
            input,
            out,
            before,
            after,
            emitted,
            writes_before,
            writes_after: self.writes(i),
        };
        self.steps.push(rec);
        self.seq += 1;
        // (the proposal of a propose step is attached by `propose()`, which then runs the model check itself)
        if !matches!(self.steps.last().unwrap().input, Input::Propose) {
            self.check_model(self.steps.len() - 1);
        }
        if let Some(e) = internal {
            // an internal error ends the real run() loop: the process is down until restarted
            if !crashed {
                self.driver_errors.push(format!("node {i}: internal error outside an injected crash: {e}"));
            }
            self.node_mut(i).run.as_mut().unwrap().replica = None;
        }
    }

    fn check_model(&mut self, step: usize) {
        if let Some(mut bank) = self.model.take() {
            if let Err(e) = bank.check(self, &self.steps[step]) {
                self.driver_errors.push(format!("SPEC: {e}"));
            }
            self.model = Some(bank);
        }
    }

    fn step_panicked(&mut self, i: usize, input: &Input, e: tokio::task::JoinError) {
        let what = if e.is_panic() { common::take_last_panic().unwrap_or_else(|| "panic".into()) } else { format!("{e}") };
        let msg = match input {
            Input::Msg(m) => format!("{:?} from validator {:?}", kind_of(&self.pool[*m].msg), self.pool[*m].from),
            other => format!("{other:?}"),
        };
        self.driver_errors.push(format!("node {i} PANICKED while handling {msg}: {what}"));
        // the process of a real node is gone (panic = abort)
        self.node_mut(i).run.as_mut().unwrap().replica = None;
    }

    async fn start_step(&mut self, i: usize, input: Input, fut_of: impl FnOnce(Replica, zksync_concurrency::ctx::Ctx) -> StepFut) {
        let writes_before = self.writes(i);
        let node = self.node_mut(i);
        let Some(run) = node.run.as_mut() else { return };
        if node.busy.is_some() {
            return;
        }
        let Some(replica) = run.replica.take() else { return };
        let before = replica.snapshot();
        let ctx = run.life.child();
        let mut fut = tokio::spawn(fut_of(replica, ctx));
        match det::until_quiescent(&mut fut).await {
            Some(Ok((replica, out))) => {
                self.node_mut(i).run.as_mut().unwrap().replica = Some(replica);
                self.finish_step(i, input, out, before, writes_before);
            }
            Some(Err(e)) => self.step_panicked(i, &input, e),
            None => self.node_mut(i).busy = Some((fut, input, before, writes_before)),
        }
    }

    /// Delivers pool message `m` to node `i`. `reencode`: pass it through encode/decode first.
    pub async fn deliver(&mut self, i: usize, m: usize, reencode: bool) {
        if self.nodes[i].is_none() || m >= self.pool.len() {
            return;
        }
        let mut msg = self.pool[m].msg.clone();
        if reencode {
            msg = zksync_protobuf::decode(&zksync_protobuf::encode(&msg)).expect("re-decoding a pool message");
        }
        let node = self.node_mut(i);
        if !node.is_up() || node.is_busy() || node.run.as_ref().unwrap().replica.is_none() {
            return;
        }
        node.delivered.insert(m);
        node.delivered_this_incarnation.push(m);
        self.start_step(i, Input::Msg(m), move |mut r, ctx| {
            Box::pin(async move {
                let out = r.handle(&ctx, msg).await;
                (r, StepOut::Handled(out))
            })
        })
        .await;
    }

    /// Pool message `m` is lost on its way to node `i`.
    pub fn lose(&mut self, i: usize, m: usize) {
        if self.nodes[i].is_some() && m < self.pool.len() {
            self.node_mut(i).delivered.insert(m);
        }
    }

    /// The view timer of node `i` fires: its clock jumps to the deadline first.
    pub async fn timer(&mut self, i: usize) {
        let Some(node) = self.nodes[i].as_ref() else { return };
        let Some(run) = node.run.as_ref() else { return };
        let Some(r) = run.replica.as_ref() else { return };
        if let time::Deadline::Finite(t) = r.view_deadline() {
            if t > run.life.clock.now() {
                run.life.clock.advance_until(t);
            }
        }
        self.start_step(i, Input::Timer, move |mut r, ctx| {
            Box::pin(async move {
                let out = r.fire_timeout(&ctx).await;
                (r, StepOut::Timer(out))
            })
        })
        .await;
    }

    /// What the proposer task of node `i` would do now. Returns the pool index of the proposal.
    pub async fn propose(&mut self, i: usize) -> Option<usize> {
        if self.nodes[i].is_none() {
            return None;
        }
        let before_len = self.steps.len();
        // the proposal is collected through a side slot because the step result is recorded generically
        let slot: Arc<std::sync::Mutex<Option<Msg>>> = Arc::default();
        let s2 = slot.clone();
        self.start_step(i, Input::Propose, move |mut r, ctx| {
            Box::pin(async move {
                let out = r.propose(&ctx).await;
                let rec = match out {
                    Ok(Some(m)) => {
                        *s2.lock().unwrap() = Some(m);
                        Ok(Some(usize::MAX))
                    }
                    Ok(None) => Ok(None),
                    Err(e) => Err(e),
                };
                (r, StepOut::Proposed(rec))
            })
        })
        .await;
        let m = slot.lock().unwrap().take();
        let idx = m.map(|m| self.add_to_pool(m, false));
        if let (Some(idx), Some(rec)) = (idx, self.steps.get_mut(before_len)) {
            if let StepOut::Proposed(Ok(Some(x))) = &mut rec.out {
                *x = idx;
            }
            rec.emitted.push(idx);
        }
        if self.steps.len() > before_len && matches!(self.steps[before_len].input, Input::Propose) {
            self.check_model(before_len);
        }
        idx
    }

    /// Block sync: node `to` receives every durable block of node `from` that it does not have yet.
    pub async fn sync(&mut self, from: usize, to: usize) -> usize {
        if self.nodes[from].is_none() || self.nodes[to].is_none() || from == to {
            return 0;
        }
        let blocks: Vec<Block> = self.node(from).engine.st.lock().unwrap().blocks.values().cloned().collect();
        let mut n = 0;
        for b in blocks {
            let Some(run) = self.node(to).run.as_ref() else { break };
            let next = run.mgr.queued().next();
            if b.number() != next {
                continue;
            }
            let ctx = run.life.child();
            let mgr = run.mgr.clone();
            let mut fut = Box::pin(async move { mgr.queue_block(&ctx, b).await });
            match det::until_quiescent(&mut fut).await {
                Some(Ok(())) => n += 1,
                Some(Err(e)) => {
                    self.driver_errors.push(format!("block sync {from}->{to}: a block stored by a correct node was refused: {e:?}"));
                    break;
                }
                None => break,
            }
        }
        self.progress().await;
        n
    }

    /// Offers an adversary-made block to node `to`; returns whether it was accepted.
    pub async fn offer_block(&mut self, to: usize, b: Block) -> Option<bool> {
        let run = self.nodes[to].as_ref()?.run.as_ref()?;
        let (ctx, mgr) = (run.life.child(), run.mgr.clone());
        let mut fut = Box::pin(async move { mgr.queue_block(&ctx, b).await });
        let r = det::until_quiescent(&mut fut).await.map(|r| r.is_ok());
        self.progress().await;
        r
    }

    pub async fn advance(&mut self, i: usize, ms: i64) {
        if let Some(run) = self.nodes[i].as_ref().and_then(|n| n.run.as_ref()) {
            run.life.clock.advance(time::Duration::milliseconds(ms));
        }
        self.progress().await;
    }

    /// Arms a crash inside the next durable state write number `call` of node `i`.
    pub fn arm_crash(&mut self, i: usize, point: CrashPoint) {
        if let Some(n) = self.nodes[i].as_ref() {
            n.engine.st.lock().unwrap().crash = Some(point);
        }
    }

    /// Kills node `i` now: everything not durable is lost.
    pub async fn crash(&mut self, i: usize) {
        let Some(node) = self.nodes[i].as_mut() else { return };
        let Some(run) = node.run.take() else { return };
        node.engine.st.lock().unwrap().crashed = true;
        let Running { life, runner, replica, mgr } = run;
        life.clock.advance(time::Duration::days(365 * 3000));
        if let Some((mut fut, input, before, wb)) = node.busy.take() {
            // the pending step ends with a cancellation error; whatever it emitted before counts as sent
            if let Some(Ok((mut r, out))) = det::until_quiescent(&mut fut).await {
                let msgs = r.drain_outbound();
                let mut emitted = vec![];
                for m in msgs {
                    emitted.push(self.add_to_pool(m, false));
                }
                let after = r.snapshot();
                let wa = self.writes(i);
                let inc = self.node(i).incarnation;
                self.steps.push(StepRecord { seq: self.seq, node: i, incarnation: inc, input, out, before, after, emitted, writes_before: wb, writes_after: wa });
                self.seq += 1;
            } else {
                self.driver_errors.push(format!("node {i}: a replica step did not end after its context was cancelled"));
            }
        } else if let Some(mut r) = replica {
            let msgs = r.drain_outbound();
            for m in msgs {
                self.add_to_pool(m, false);
            }
        }
        drop(mgr);
        life.end(vec![runner]).await;
    }

    pub async fn restart(&mut self, i: usize) -> Result<(), String> {
        if self.nodes[i].is_none() {
            return Ok(());
        }
        if self.node(i).is_up() {
            self.crash(i).await;
        }
        let node = self.node_mut(i);
        node.engine.restart();
        node.incarnation += 1;
        let inc = node.incarnation;
        node.engine.st.lock().unwrap().tag = (i as u8) | ((inc as u8) << 4);
        self.boot(i).await
    }

    /// Whether node `i` can take a step now.
    pub fn ready(&self, i: usize) -> bool {
        self.nodes[i].as_ref().is_some_and(|n| n.is_up() && !n.is_busy() && n.run.as_ref().unwrap().replica.is_some())
    }

    /// A node whose replica ended with an internal error (injected crash) is down: make that explicit.
    pub async fn reap(&mut self) {
        for i in 0..self.nodes.len() {
            let dead = self.nodes[i].as_ref().is_some_and(|n| n.is_up() && !n.is_busy() && n.run.as_ref().unwrap().replica.is_none());
            if dead {
                self.crash(i).await;
            }
        }
    }

    pub async fn shutdown(mut self) {
        for i in 0..self.nodes.len() {
            if self.nodes[i].is_some() {
                self.crash(i).await;
            }
        }
    }

    /// Blocks committed by node `i`: number -> payload, as handed to its execution layer over all incarnations.
    pub fn committed(&self, i: usize) -> BTreeMap<u64, validator::Payload> {
        let st = self.node(i).engine.st.lock().unwrap();
        let mut m = BTreeMap::new();
        for s in &st.submissions {
            m.entry(s.number).or_insert_with(|| s.payload.clone());
        }
        m
    }

    pub fn first_block(&self) -> BlockNumber {
        BlockNumber(self.cfg.spec.first_block)
    }
}
