//! Black-box run-loop world: every correct validator is a real `bft::Config::run` instance (the real
//! `StateMachine::run` loop with its view timer and view-0 bootstrap, the real proposer task, the real
//! `create_input_channel()`), over a real `EngineManager` and a `SimEngine`. The harness is the
//! network: it drains every node's outbound channel at quiescence and decides, per generated
//! schedule, which copies arrive (partitions, periodic loss, held-back and reordered backlogs), when
//! time passes (all clocks, or one clock only = drift), when a node is killed (at a quiescent point or
//! inside its k-th next durable write) and restarted from its durable state, and when persistence
//! stalls. After the generated prefix the network heals and a fixed rule runs: reliable delivery,
//! block fetching from the most advanced node, clocks ticking.
//!
//! Three oracles are evaluated on the same runs (each registered under its own property):
//! * progress (C06): every node that is up commits a new block within a bounded virtual time after the heal;
//! * agreement (C01): no two nodes ever hand different payloads for one block number to storage;
//! * vote discipline (C03): over everything a key ever emitted (all incarnations) no two different commit
//!   votes per view, no commit vote at or below an earlier timeout vote, vote views monotone, and every
//!   vote taken from the outbound channel is already recorded by the node's durable replica state.
use std::collections::{BTreeMap, VecDeque};

use common::{det, Choices, Stats};
use gen::{Committee, CommitteeSpec};
use serde::{Deserialize, Serialize};
use zksync_concurrency::{ctx, oneshot, sync::prunable_mpsc, time};
use zksync_consensus_bft::{self as bft, Config};
use zksync_consensus_engine::EngineManager;
use zksync_consensus_roles::validator::{self, v2, ConsensusMsg};

use crate::{
    engine::{CrashPoint, SimEngine},
    sim::{kind_of, view_of, Kind, Msg},
};

pub const VIEW_TIMEOUT_MS: i64 = 2000;

#[derive(Debug, Clone, Serialize, Deserialize, PartialEq, Hash)]
pub enum LoopOp {
    /// All clocks advance by `ms`.
    Tick { ms: u32 },
    /// Only one node's clock advances (clock drift).
    Skew { node: u16, ms: u32 },
    /// Connectivity: a message travels from i to j iff `groups[i] == groups[j]` (a node always hears itself).
    Partition { groups: Vec<u8> },
    /// Periodic loss: of the next 16 copies of the selected kinds put on the wire, those whose bit is set are lost.
    Lose { mask: u16, kinds: u8 },
    /// Copies addressed to `node` are held back from now on ...
    Hold { node: u16 },
    /// ... and arrive now (optionally newest first).
    Release { node: u16, reverse: bool },
    /// The process is killed at a quiescent point.
    Crash { node: u16 },
    /// The process dies inside its `after`-th next durable write of the replica state (applied or lost).
    CrashInWrite { node: u16, after: u8, applied: bool },
    Restart { node: u16 },
    /// Storage accepts blocks but does not make them durable until `Unstall`.
    Stall { node: u16 },
    Unstall { node: u16 },
    /// Every node that is up fetches the blocks it misses from the most advanced node.
    Fetch,
    /// The network delivers an old copy again: the `msg`-th message ever put on the wire reaches node `to` once more
    /// (duplication, replay of stale views).
    Replay { msg: u16, to: u16 },
}

#[derive(Debug, Clone, Serialize, Deserialize, PartialEq, Hash)]
pub struct LoopCase {
    pub weights: Vec<u64>,
    pub leaders: Vec<bool>,
    pub weighted: bool,
    pub frequency: u64,
    /// Validators that never run (crashed for good / silent Byzantine); their weight is at most f.
    pub down: Vec<bool>,
    /// Byzantine by omission and duplication (their weight, together with `down`, is at most f): they run as real
    /// replicas, but once the network has healed nobody receives their proposals, and the network keeps
    /// re-delivering the newest new-view message of each of them to everybody, several times per view timeout.
    #[serde(default)]
    pub mute: Vec<bool>,
    pub ops: Vec<LoopOp>,
    /// Granularity of the clock in the healed phase (ms).
    pub heal_tick_ms: u32,
    /// Per node clock offset applied at heal time (ms): timers are out of phase.
    pub heal_skew_ms: Vec<u32>,
}

pub fn gen_case(ch: &mut Choices, quick: bool) -> LoopCase {
    let n = ch.pick(&[4usize, 1, 2, 3, 3, 4, 5, 6, 6, 7]);
    let mut weights: Vec<u64> = match ch.below(3) {
        0 | 1 => vec![1; n],
        _ => (0..n).map(|_| 1 + ch.below(3) as u64).collect(),
    };
    let mut leaders: Vec<bool> = (0..n).map(|_| !ch.chance(1, 5)).collect();
    let total: u64 = weights.iter().sum();
    let f = (total - 1) / 5;
    let mut down = vec![false; n];
    let mut mute = vec![false; n];
    // the faulty budget goes to silent validators, to mute ones (Byzantine by omission and duplication), or stays unused
    let mode = if f > 0 { ch.below(3) } else { 3 };
    if mode <= 1 {
        let mut left = f;
        for i in ch.perm(n) {
            if weights[i] <= left && ch.chance(3, 4) {
                if mode == 0 {
                    down[i] = true;
                } else {
                    mute[i] = true;
                    leaders[i] = true;
                }
                left -= weights[i];
            }
        }
    } else if f == 0 && n >= 6 {
        weights = vec![1; n];
    }
    // at least one leader among the correct nodes that run
    if !(0..n).any(|i| leaders[i] && !down[i] && !mute[i]) {
        let i = (0..n).find(|i| !down[*i] && !mute[*i]).unwrap();
        leaders[i] = true;
    }
    let weighted = ch.chance(1, 4);
    let frequency = ch.pick(&[1u64, 1, 1, 2, 3]);
    let len = ch.below(if quick { 28 } else { 60 });
    let node = |ch: &mut Choices| ch.below(n) as u16;
    let ms = |ch: &mut Choices| -> u32 {
        let t = VIEW_TIMEOUT_MS as u32;
        ch.pick(&[t / 4, 1, t / 2, t - 1, t, t + 1, 2 * t, 3 * t + 7, 50])
    };
    let mut ops = vec![];
    for _ in 0..len {
        let op = match ch.below(26) {
            0..=6 => LoopOp::Tick { ms: ms(ch) },
            7 | 8 => LoopOp::Skew { node: node(ch), ms: ms(ch) },
            9..=11 => {
                let k = 1 + ch.below(3);
                LoopOp::Partition { groups: (0..n).map(|_| ch.below(k + 1) as u8).collect() }
            }
            12 | 13 => LoopOp::Lose { mask: if ch.bool() { ch.raw() } else { u16::MAX }, kinds: if ch.bool() { 15 } else { 1 << ch.below(4) } },
            14 => LoopOp::Hold { node: node(ch) },
            15 => LoopOp::Release { node: node(ch), reverse: ch.bool() },
            16 => LoopOp::Crash { node: node(ch) },
            17 | 18 => LoopOp::CrashInWrite { node: node(ch), after: ch.below(4) as u8, applied: ch.bool() },
            19 | 20 => LoopOp::Restart { node: node(ch) },
            21 => LoopOp::Stall { node: node(ch) },
            22 => LoopOp::Unstall { node: node(ch) },
            23 => LoopOp::Replay { msg: ch.raw(), to: node(ch) },
            _ => LoopOp::Fetch,
        };
        ops.push(op);
    }
    let heal_tick_ms = ch.pick(&[500u32, 250, 1000, 1999, 2000, 777]);
    let heal_skew_ms = (0..n).map(|_| if ch.chance(1, 2) { 0 } else { ch.below(VIEW_TIMEOUT_MS as usize) as u32 }).collect();
    LoopCase { weights, leaders, weighted, frequency, down, mute, ops, heal_tick_ms, heal_skew_ms }
}

struct Up {
    life: det::Life,
    mgr: std::sync::Arc<EngineManager>,
    runner: tokio::task::JoinHandle<anyhow::Result<()>>,
    task: tokio::task::JoinHandle<anyhow::Result<()>>,
    inbox: prunable_mpsc::Sender<bft::FromNetworkMessage>,
    outbox: ctx::channel::UnboundedReceiver<bft::ToNetworkMessage>,
}

struct LNode {
    engine: SimEngine,
    up: Option<Up>,
    holding: bool,
    backlog: VecDeque<Msg>,
    /// Offset of this node's clock that must be re-applied to a fresh `Life` after a restart.
    clock_ms: i64,
    crash_armed: bool,
}

#[derive(Debug, Clone)]
pub struct Emitted {
    pub from: usize,
    pub msg: Msg,
}

pub struct LoopWorld {
    committee: Committee,
    nodes: Vec<Option<LNode>>,
    groups: Vec<u8>,
    lose: Option<(u16, u8, u8)>,
    /// Everything ever taken from an outbound channel, in order.
    pub log: Vec<Emitted>,
    pub errors: Vec<String>,
    pub max_view: u64,
    pub delivered: u64,
    pub lost: u64,
    /// Whether the "persist, then send" observation is evaluated (vote oracle only).
    check_durable: bool,
    /// Validators that are Byzantine by omission / duplication, their newest new-view message, and whether the
    /// healed phase (in which they act) has begun.
    mute: Vec<bool>,
    mute_new_view: Vec<Option<Msg>>,
    healed: bool,
}

#[derive(Debug, Clone, Copy, PartialEq)]
pub enum Oracle {
    Progress,
    Agreement,
    Votes,
}

fn kind_bit(k: Kind) -> u8 {
    match k {
        Kind::Proposal => 1,
        Kind::Commit => 2,
        Kind::Timeout => 4,
        Kind::NewView => 8,
    }
}

impl LoopWorld {
    async fn new(case: &LoopCase) -> Result<Self, String> {
        let spec = CommitteeSpec { weights: case.weights.clone(), leaders: case.leaders.clone(), weighted: case.weighted, frequency: case.frequency, key_offset: 0, first_block: 0 };
        let committee = spec.build();
        let n = spec.n();
        let mut w = LoopWorld { committee, nodes: vec![], groups: vec![0; n], lose: None, log: vec![], errors: vec![], max_view: 0, delivered: 0, lost: 0, check_durable: false, mute: (0..n).map(|i| case.mute.get(i).copied().unwrap_or(false)).collect(), mute_new_view: vec![None; n], healed: false };
        for i in 0..n {
            if case.down[i] {
                w.nodes.push(None);
                continue;
            }
            let mut engine = SimEngine::new(w.committee.genesis.clone(), 0);
            engine.proposals = Some(std::sync::Arc::new(tokio::sync::Semaphore::new(1)));
            engine.st.lock().unwrap().tag = i as u8;
            w.nodes.push(Some(LNode { engine, up: None, holding: false, backlog: VecDeque::new(), clock_ms: 0, crash_armed: false }));
        }
        for i in 0..n {
            if w.nodes[i].is_some() {
                w.boot(i).await?;
            }
        }
        Ok(w)
    }

    fn running(&self) -> Vec<usize> {
        (0..self.nodes.len()).filter(|i| self.nodes[*i].is_some()).collect()
    }

    fn is_up(&self, i: usize) -> bool {
        self.nodes[i].as_ref().is_some_and(|n| n.up.is_some())
    }

    async fn boot(&mut self, i: usize) -> Result<(), String> {
        let key = self.committee.keys[i].clone();
        let epoch = self.committee.epoch;
        let node = self.nodes[i].as_mut().unwrap();
        let life = det::Life::new();
        let (mgr, runner) = EngineManager::new(&life.ctx, Box::new(node.engine.clone()), time::Duration::seconds(60)).await.map_err(|e| format!("EngineManager::new: {e:?}"))?;
        let rctx = life.child();
        let runner = tokio::spawn(async move { runner.run(&rctx).await });
        let cfg = Config::new(key, 1 << 16, time::Duration::milliseconds(VIEW_TIMEOUT_MS), mgr.clone(), epoch).map_err(|e| format!("Config::new: {e:#}"))?;
        let (inbox, in_recv) = bft::create_input_channel();
        let (out_send, outbox) = ctx::channel::unbounded();
        let cctx = life.child();
        let task = tokio::spawn(async move { cfg.run(&cctx, out_send, in_recv).await });
        node.up = Some(Up { life, mgr, runner, task, inbox, outbox });
        node.crash_armed = false;
        det::barrier().await;
        Ok(())
    }

    /// Stops the process of node `i` (if it runs). Copies waiting in its input queue are lost with it.
    async fn kill(&mut self, i: usize) {
        let Some(node) = self.nodes[i].as_mut() else { return };
        let Some(up) = node.up.take() else { return };
        let Up { life, runner, task, inbox, mut outbox, mgr } = up;
        // whatever the process had already put on the wire has left the machine
        let mut tail = vec![];
        while let Some(m) = outbox.try_recv() {
            tail.push(m.message);
        }
        let armed = node.crash_armed;
        let outcomes = life.end(vec![task, runner]).await;
        drop((inbox, outbox, mgr));
        for (k, o) in outcomes.into_iter().enumerate() {
            match det::Life::task_outcome(o) {
                Ok(Ok(())) => {}
                Ok(Err(e)) => {
                    let crashed = node.engine.st.lock().unwrap().crashed;
                    if !(armed && crashed) {
                        self.errors.push(format!("node {i}: {} ended with an error: {e:#}", if k == 0 { "Config::run" } else { "EngineManager runner" }));
                    }
                }
                Err(p) => self.errors.push(format!("node {i}: panic: {p}")),
            }
        }
        node.engine.restart();
        node.crash_armed = false;
        for m in tail {
            self.put_on_wire(i, m);
        }
    }

    /// A node whose task ended by itself (injected crash inside a durable write, or a defect) is reaped.
    async fn reap(&mut self) {
        for i in self.running() {
            let finished = self.nodes[i].as_ref().unwrap().up.as_ref().is_some_and(|u| u.task.is_finished());
            if finished {
                self.kill(i).await;
            }
        }
    }

    fn put_on_wire(&mut self, from: usize, msg: Msg) {
        self.max_view = self.max_view.max(view_of(&msg));
        self.log.push(Emitted { from, msg: msg.clone() });
        let kind = kind_bit(kind_of(&msg));
        if self.mute[from] && kind_of(&msg) == Kind::NewView {
            self.mute_new_view[from] = Some(msg.clone());
        }
        for j in 0..self.nodes.len() {
            if self.nodes[j].is_none() {
                continue;
            }
            if j != from {
                if self.healed && self.mute[from] && kind_of(&msg) == Kind::Proposal {
                    self.lost += 1;
                    continue;
                }
                if self.groups[from] != self.groups[j] {
                    self.lost += 1;
                    continue;
                }
                if let Some((mask, kinds, pos)) = self.lose.as_mut() {
                    if *kinds & kind != 0 {
                        let bit = (*mask >> (*pos % 16)) & 1;
                        *pos += 1;
                        if *pos >= 16 {
                            self.lose = None;
                        }
                        if bit == 1 {
                            self.lost += 1;
                            continue;
                        }
                    }
                }
            }
            let node = self.nodes[j].as_mut().unwrap();
            if node.holding && j != from {
                node.backlog.push_back(msg.clone());
            } else {
                Self::hand_over(node, &msg, &mut self.delivered, &mut self.lost);
            }
        }
    }

    fn hand_over(node: &mut LNode, msg: &Msg, delivered: &mut u64, lost: &mut u64) {
        match node.up.as_ref() {
            Some(up) => {
                let (ack, _) = oneshot::channel();
                up.inbox.send(bft::FromNetworkMessage { msg: msg.clone(), ack });
                *delivered += 1;
            }
            None => *lost += 1,
        }
    }

    /// Runs the system to quiescence, moving everything the nodes emit.
    async fn route(&mut self) {
        for _ in 0..10_000 {
            det::barrier().await;
            self.reap().await;
            let mut any = false;
            for i in self.running() {
                let mut batch = vec![];
                if let Some(up) = self.nodes[i].as_mut().unwrap().up.as_mut() {
                    while let Some(m) = up.outbox.try_recv() {
                        batch.push(m.message);
                    }
                }
                for m in batch {
                    any = true;
                    if self.check_durable {
                        if let Err(e) = self.vote_is_durable(i, &m) {
                            self.errors.push(e);
                        }
                    }
                    self.put_on_wire(i, m);
                }
            }
            if !any {
                return;
            }
        }
        self.errors.push("INFRA: routing did not reach quiescence within 10000 rounds".into());
    }

    /// "Nothing a validator signs leaves the node before the state that records it is durable."
    fn vote_is_durable(&self, i: usize, m: &Msg) -> Result<(), String> {
        let st = self.nodes[i].as_ref().unwrap().engine.st.lock().unwrap();
        let validator::ReplicaState::V2(d) = &st.state;
        let ConsensusMsg::V2(x) = &m.msg;
        match x {
            v2::ChonkyMsg::ReplicaCommit(c) => {
                let ok = d.view_number > c.view.number || (d.view_number == c.view.number && d.phase != v2::Phase::Prepare && d.high_vote.as_ref() == Some(c));
                if !ok {
                    return Err(format!("node {i} emitted a commit vote for view {} that its durable state does not record (durable view {}, phase {:?}, high vote {:?})", c.view.number.0, d.view_number.0, d.phase, d.high_vote.as_ref().map(|v| v.view.number.0)));
                }
            }
            v2::ChonkyMsg::ReplicaTimeout(t) => {
                let ok = d.view_number > t.view.number || (d.view_number == t.view.number && d.phase == v2::Phase::Timeout);
                if !ok {
                    return Err(format!("node {i} emitted a timeout vote for view {} that its durable state does not record (durable view {}, phase {:?})", t.view.number.0, d.view_number.0, d.phase));
                }
            }
            _ => {}
        }
        Ok(())
    }

    /// Block time: every node's payload source has (at most) `cap` payloads ready.
    fn grant(&mut self, cap: usize) {
        for i in self.running() {
            let sem = self.nodes[i].as_ref().unwrap().engine.proposals.clone().unwrap();
            if sem.available_permits() < cap {
                sem.add_permits(1);
            }
        }
    }

    fn advance(&mut self, only: Option<usize>, ms: u32) {
        if only.is_none() {
            self.grant(2);
        }
        for i in self.running() {
            if only.is_some_and(|o| o != i) {
                continue;
            }
            let node = self.nodes[i].as_mut().unwrap();
            node.clock_ms += ms as i64;
            if let Some(up) = node.up.as_ref() {
                up.life.clock.advance(time::Duration::milliseconds(ms as i64));
            }
        }
    }

    async fn fetch(&mut self) {
        let ups: Vec<usize> = self.running().into_iter().filter(|i| self.is_up(*i)).collect();
        let Some(best) = ups.iter().copied().max_by_key(|i| self.nodes[*i].as_ref().unwrap().engine.durable_next()) else { return };
        let src: BTreeMap<u64, validator::Block> = self.nodes[best].as_ref().unwrap().engine.st.lock().unwrap().blocks.clone();
        for i in ups {
            if i == best {
                continue;
            }
            let node = self.nodes[i].as_ref().unwrap();
            let up = node.up.as_ref().unwrap();
            let from = up.mgr.queued().next().0;
            for (n, b) in src.range(from..) {
                let c = up.life.child();
                let mut fut = Box::pin(up.mgr.queue_block(&c, b.clone()));
                match det::until_quiescent(&mut fut).await {
                    Some(Ok(())) => {}
                    Some(Err(ctx::Error::Canceled(_))) => break,
                    Some(Err(ctx::Error::Internal(e))) => {
                        if !node.engine.st.lock().unwrap().crashed {
                            self.errors.push(format!("node {i} refused block {n} fetched from node {best}: {e:#}"));
                        }
                        break;
                    }
                    // waiting for a predecessor that is queued elsewhere (stalled persistence): give up for now
                    None => break,
                }
            }
        }
    }

    async fn apply(&mut self, op: &LoopOp, st: &mut Stats) -> Result<(), String> {
        let n = self.nodes.len();
        let pick = |sel: u16| -> usize { sel as usize % n };
        match op {
            LoopOp::Tick { ms } => self.advance(None, *ms),
            LoopOp::Skew { node, ms } => self.advance(Some(pick(*node)), *ms),
            LoopOp::Partition { groups } => {
                self.groups = (0..n).map(|i| groups.get(i).copied().unwrap_or(0)).collect();
            }
            LoopOp::Lose { mask, kinds } => self.lose = Some((*mask, *kinds, 0)),
            LoopOp::Hold { node } => {
                if let Some(x) = self.nodes[pick(*node)].as_mut() {
                    x.holding = true;
                }
            }
            LoopOp::Release { node, reverse } => self.release(pick(*node), *reverse),
            LoopOp::Crash { node } => {
                if self.is_up(pick(*node)) {
                    st.class("op_crash");
                    self.kill(pick(*node)).await;
                }
            }
            LoopOp::CrashInWrite { node, after, applied } => {
                let i = pick(*node);
                if self.is_up(i) {
                    let x = self.nodes[i].as_mut().unwrap();
                    let mut e = x.engine.st.lock().unwrap();
                    e.crash = Some(CrashPoint { call: e.set_state_calls + *after as u64, applied: *applied });
                    drop(e);
                    x.crash_armed = true;
                }
            }
            LoopOp::Restart { node } => {
                let i = pick(*node);
                if self.nodes[i].is_some() {
                    if self.is_up(i) {
                        self.kill(i).await;
                    }
                    st.class("op_restart");
                    self.boot(i).await?;
                }
            }
            LoopOp::Stall { node } => {
                if let Some(x) = self.nodes[pick(*node)].as_ref() {
                    x.engine.st.lock().unwrap().defer = true;
                }
            }
            LoopOp::Unstall { node } => {
                if let Some(x) = self.nodes[pick(*node)].as_ref() {
                    x.engine.st.lock().unwrap().defer = false;
                    x.engine.persist(usize::MAX);
                }
            }
            LoopOp::Fetch => self.fetch().await,
            LoopOp::Replay { msg, to } => {
                if !self.log.is_empty() {
                    let m = self.log[common::pick_index(*msg, self.log.len())].msg.clone();
                    if let Some(node) = self.nodes[pick(*to)].as_mut() {
                        Self::hand_over(node, &m, &mut self.delivered, &mut self.lost);
                    }
                }
            }
        }
        self.route().await;
        Ok(())
    }

    fn release(&mut self, i: usize, reverse: bool) {
        let Some(node) = self.nodes[i].as_mut() else { return };
        node.holding = false;
        let mut msgs: Vec<Msg> = node.backlog.drain(..).collect();
        if reverse {
            msgs.reverse();
        }
        for m in msgs {
            Self::hand_over(node, &m, &mut self.delivered, &mut self.lost);
        }
    }

    fn heights(&self) -> Vec<u64> {
        self.running().iter().map(|i| self.nodes[*i].as_ref().unwrap().engine.durable_next()).collect()
    }

    /// Agreement over everything the nodes ever handed to storage and everything storage holds.
    fn agreement(&self) -> Result<(), String> {
        let mut by_number: BTreeMap<u64, (usize, validator::Payload)> = BTreeMap::new();
        for i in self.running() {
            let e = self.nodes[i].as_ref().unwrap().engine.st.lock().unwrap();
            let mut last: Option<(u64, u32)> = None;
            for s in &e.submissions {
                if let Some((prev, inc)) = last {
                    if inc == s.incarnation && s.number != prev + 1 && s.number != s.durable_next {
                        return Err(format!("node {i} handed block {} to storage after block {prev} (durable head {})", s.number, s.durable_next));
                    }
                }
                last = Some((s.number, s.incarnation));
                match by_number.get(&s.number) {
                    Some((j, p)) if *p != s.payload => return Err(format!("DISAGREEMENT on block {}: node {j} and node {i} committed different payloads", s.number)),
                    Some(_) => {}
                    None => {
                        by_number.insert(s.number, (i, s.payload.clone()));
                    }
                }
            }
            for (n, b) in &e.blocks {
                match by_number.get(n) {
                    Some((j, p)) if p != b.payload() => return Err(format!("DISAGREEMENT on block {n}: node {j} committed a payload that differs from what node {i} stores")),
                    Some(_) => {}
                    None => {
                        by_number.insert(*n, (i, b.payload().clone()));
                    }
                }
            }
        }
        Ok(())
    }

    /// Vote discipline over everything each key ever emitted, in emission order.
    fn votes(&self) -> Result<(), String> {
        for i in self.running() {
            let mut commit_by_view: BTreeMap<u64, v2::ReplicaCommit> = BTreeMap::new();
            let mut max_timeout: Option<u64> = None;
            let mut last: Option<u64> = None;
            for e in self.log.iter().filter(|e| e.from == i) {
                let ConsensusMsg::V2(x) = &e.msg.msg;
                match x {
                    v2::ChonkyMsg::ReplicaCommit(c) => {
                        let v = c.view.number.0;
                        if commit_by_view.get(&v).is_some_and(|p| p != c) {
                            return Err(format!("EQUIVOCATION: node {i} signed two different commit votes in view {v}"));
                        }
                        if max_timeout.is_some_and(|t| t >= v) {
                            return Err(format!("node {i} signed a commit vote for view {v} after a timeout vote for view {}", max_timeout.unwrap()));
                        }
                        if last.is_some_and(|l| l > v) {
                            return Err(format!("node {i}: vote views went backwards ({} then a commit vote for {v})", last.unwrap()));
                        }
                        commit_by_view.insert(v, c.clone());
                        last = Some(last.unwrap_or(0).max(v));
                    }
                    v2::ChonkyMsg::ReplicaTimeout(t) => {
                        let v = t.view.number.0;
                        if last.is_some_and(|l| l > v) {
                            return Err(format!("node {i}: vote views went backwards ({} then a timeout vote for {v})", last.unwrap()));
                        }
                        max_timeout = Some(max_timeout.unwrap_or(0).max(v));
                        last = Some(last.unwrap_or(0).max(v));
                    }
                    _ => {}
                }
            }
        }
        Ok(())
    }

    fn leader_is_down(&self, view: u64) -> bool {
        let k = self.committee.schedule.view_leader(validator::ViewNumber(view));
        let idx = self.committee.schedule.keys().position(|x| *x == k).unwrap();
        self.nodes[idx].is_none() || self.mute[idx]
    }

    /// Durable heights of the correct nodes.
    fn correct_heights(&self) -> Vec<u64> {
        self.running().iter().filter(|i| !self.mute[**i]).map(|i| self.nodes[*i].as_ref().unwrap().engine.durable_next()).collect()
    }

    /// The network delivers the newest new-view message of every mute validator to everybody once more.
    fn duplicate_mute_new_views(&mut self) {
        for m in 0..self.nodes.len() {
            let Some(nv) = self.mute_new_view[m].clone() else { continue };
            for j in self.running() {
                let node = self.nodes[j].as_mut().unwrap();
                Self::hand_over(node, &nv, &mut self.delivered, &mut self.lost);
            }
        }
    }

    /// Healed phase. Returns the virtual time (in view timeouts, rounded up) and the number of views with a
    /// silent leader that passed until every node had committed a new block.
    async fn heal(&mut self, case: &LoopCase, st: &mut Stats) -> Result<(), String> {
        self.groups = vec![0; self.nodes.len()];
        self.lose = None;
        self.healed = true;
        let any_mute = self.mute.iter().any(|m| *m);
        let hs = self.correct_heights();
        let views_before = self.max_view;
        for i in self.running() {
            {
                let x = self.nodes[i].as_ref().unwrap();
                let mut e = x.engine.st.lock().unwrap();
                e.defer = false;
                e.crash = None;
                drop(e);
                x.engine.persist(usize::MAX);
            }
            if !self.is_up(i) {
                st.class("node_down_at_heal");
                self.boot(i).await?;
            }
            self.nodes[i].as_mut().unwrap().crash_armed = false;
            self.release(i, false);
            let skew = case.heal_skew_ms.get(i).copied().unwrap_or(0);
            if skew > 0 {
                self.advance(Some(i), skew);
            }
        }
        self.route().await;
        let h0 = self.correct_heights();
        if hs.iter().collect::<std::collections::BTreeSet<_>>().len() >= 2 {
            st.class("heights_differ_at_heal");
        }
        let target = *h0.iter().max().unwrap_or(&0);
        let tick = case.heal_tick_ms.max(1);
        let mut elapsed: u64 = 0;
        // bound on the healed phase, in virtual time: BASE view timeouts plus one for every view whose leader is silent
        const BASE: u64 = 12;
        loop {
            self.grant(1);
            self.fetch().await;
            self.route().await;
            if let Some(e) = self.errors.first() {
                return Err(e.clone());
            }
            let hs = self.correct_heights();
            let silent_views = (views_before + 1..=self.max_view).filter(|v| self.leader_is_down(*v)).count() as u64;
            if hs.iter().all(|h| *h > target) {
                st.max("max_view_timeouts_to_progress", elapsed.div_ceil(VIEW_TIMEOUT_MS as u64));
                st.max("max_view_timeouts_to_progress_net_of_silent_leaders", elapsed.div_ceil(VIEW_TIMEOUT_MS as u64).saturating_sub(silent_views));
                st.max("max_views_with_a_silent_leader", silent_views);
                return Ok(());
            }
            if elapsed > (BASE + silent_views) * VIEW_TIMEOUT_MS as u64 {
                return Err(format!(
                    "no progress: {elapsed} ms of virtual time after the network healed (view timeout {VIEW_TIMEOUT_MS} ms, {silent_views} views with a silent leader) the durable heights are {hs:?} (at heal: {h0:?}); highest view on the wire {} (at heal: {views_before})",
                    self.max_view
                ));
            }
            if any_mute {
                // duplicates arrive at least twice per tick (and therefore several times per view timeout)
                self.advance(None, tick / 2);
                self.duplicate_mute_new_views();
                self.route().await;
                self.advance(None, tick - tick / 2);
                self.duplicate_mute_new_views();
            } else {
                self.advance(None, tick);
            }
            elapsed += tick as u64;
        }
    }

    async fn shutdown(&mut self) {
        for i in self.running() {
            self.kill(i).await;
        }
    }
}

/// Runs one case and evaluates the selected oracle.
pub fn check(case: &LoopCase, st: &mut Stats, oracle: Oracle) -> Result<(), String> {
    let n = case.weights.len();
    if n == 0 || case.leaders.len() != n || case.down.len() != n {
        return Err("harness: malformed case".into());
    }
    let started = std::time::Instant::now();
    let (result, info) = det::run(|| async {
        let mut info: BTreeMap<&'static str, u64> = BTreeMap::new();
        let mut w = match LoopWorld::new(case).await {
            Ok(w) => w,
            Err(e) => return (Err(format!("harness: {e}")), info),
        };
        w.check_durable = oracle == Oracle::Votes;
        w.route().await;
        let mut result: Result<(), String> = Ok(());
        for op in &case.ops {
            if let Err(e) = w.apply(op, st).await {
                result = Err(format!("harness: {e}"));
                break;
            }
            let r = match oracle {
                Oracle::Agreement => w.agreement(),
                Oracle::Votes => w.votes(),
                Oracle::Progress => Ok(()),
            };
            if let Err(e) = r {
                result = Err(e);
                break;
            }
            // a panic or an unexpected end of the run loop is a failure of every oracle
            if let Some(e) = w.errors.first() {
                result = Err(e.clone());
                break;
            }
        }
        info.insert("views_in_prefix", w.max_view);
        info.insert("lost_in_prefix", w.lost);
        if result.is_ok() {
            result = match w.heal(case, st).await {
                Ok(()) => Ok(()),
                Err(e) if oracle == Oracle::Progress || e.starts_with("harness") || e.starts_with("node ") => Err(e),
                Err(_) => Ok(()),
            };
            if result.is_ok() {
                result = match oracle {
                    Oracle::Agreement => w.agreement(),
                    Oracle::Votes => w.votes().and_then(|_| match w.errors.first() {
                        Some(e) => Err(e.clone()),
                        None => Ok(()),
                    }),
                    Oracle::Progress => Ok(()),
                };
            }
        }
        info.insert("views_total", w.max_view);
        info.insert("messages_on_the_wire", w.log.len() as u64);
        info.insert("copies_delivered", w.delivered);
        info.insert("max_height", w.heights().into_iter().max().unwrap_or(0));
        info.insert("commit_votes", w.log.iter().filter(|e| kind_of(&e.msg) == Kind::Commit).count() as u64);
        info.insert("timeout_votes", w.log.iter().filter(|e| kind_of(&e.msg) == Kind::Timeout).count() as u64);
        info.insert("proposals", w.log.iter().filter(|e| kind_of(&e.msg) == Kind::Proposal).count() as u64);
        w.shutdown().await;
        (result, info)
    });
    for (k, v) in &info {
        st.count(k, *v);
    }
    let g = |k: &str| info.get(k).copied().unwrap_or(0);
    st.max("max_views_in_a_run", g("views_total"));
    if std::env::var("VERIF_DEV_TIMING").is_ok() {
        eprintln!("TIMING n={} ops={} views={} msgs={} copies={} wall_ms={}", n, case.ops.len(), g("views_total"), g("messages_on_the_wire"), g("copies_delivered"), started.elapsed().as_millis());
    }
    st.max("max_height_in_a_run", g("max_height"));
    if g("views_in_prefix") >= 3 {
        st.class("prefix_reached_view_3");
    }
    if g("lost_in_prefix") > 0 {
        st.class("copies_lost_in_prefix");
    }
    if case.down.iter().any(|d| *d) {
        st.class("silent_validator");
    }
    if case.mute.iter().any(|d| *d) {
        st.class("mute_validator_with_duplicated_new_views");
    }
    if case.ops.iter().any(|o| matches!(o, LoopOp::CrashInWrite { .. })) {
        st.class("crash_inside_durable_write_armed");
    }
    if case.ops.iter().any(|o| matches!(o, LoopOp::Skew { .. })) || case.heal_skew_ms.iter().any(|s| *s > 0) {
        st.class("clock_drift");
    }
    let interesting = g("views_in_prefix") >= 2 && g("max_height") >= 1 && (g("lost_in_prefix") > 0 || st.classes.contains_key("op_restart") || st.classes.contains_key("node_down_at_heal"));
    if interesting {
        st.nontrivial(common::fingerprint(case));
    }
    st.sample(|| {
        serde_json::json!({"weights": case.weights, "down": case.down, "ops": case.ops.len(), "first_ops": case.ops.iter().take(6).map(|o| format!("{o:?}")).collect::<Vec<_>>(),
            "views": g("views_total"), "height": g("max_height"), "messages": g("messages_on_the_wire")})
    });
    if let Err(e) = &result {
        if e.starts_with("INFRA") {
            return Err(e.clone());
        }
    }
    result
}

pub const DESCRIPTION: &str = "whole replicas: every validator that runs is a real bft::Config::run (real StateMachine::run loop with its view timer and the view-0 bootstrap, real proposer task, real create_input_channel) over a real EngineManager; the harness is the network and the operator: generated prefix of {clock ticks for all / for one node (drift), partitions, periodic loss by message kind, held-back and reversed backlogs, replays of old copies, kill at a quiescent point, kill inside the k-th next durable write (applied / lost), restart from durable state, stalled persistence, block fetching}, with up to f weight of validators silent for good or Byzantine by omission and duplication (real replicas whose proposals nobody receives once the network has healed and whose newest new-view message the network keeps re-delivering to everybody, at least twice per tick); then the network heals (reliable delivery, block fetching from the most advanced node, clocks ticking with generated granularity and per-node phase offsets)";
