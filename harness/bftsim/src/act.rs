//! Actions of a simulator case, their generation and interpretation.
use common::Choices;
use gen::CommitteeSpec;
use serde::{Deserialize, Serialize};

use crate::{
    monitors,
    sim::{kind_of, Kind, SimCfg, World},
};

#[derive(Debug, Clone, Serialize, Deserialize, Hash, PartialEq)]
pub enum Action {
    /// Leaders in `mask` propose; then every pool message of the given kinds not yet delivered to a node in `mask`
    /// is delivered to it (in pool order, at most `limit` deliveries per round, `rounds` rounds).
    Flush { mask: u16, kinds: u8, limit: u16, rounds: u8 },
    /// One specific (possibly old / duplicate) delivery.
    Deliver { msg: u16, to: u16, reencode: bool },
    /// View timers fire on the nodes in `mask`.
    Timeout { mask: u16 },
    /// The network loses what is in flight: every pool message of the given kinds not yet delivered to a node in `mask` is
    /// marked as delivered to it without being handled (only a re-broadcast makes it deliverable again).
    Lose { mask: u16, kinds: u8 },
    /// Block sync between two correct nodes.
    Sync { from: u16, to: u16 },
    Crash { node: u16 },
    /// The process dies inside its `after`-th next durable write of the replica state (the write reaches the disk or not);
    /// whatever the replica had put on the wire before that instant counts as sent.
    CrashInWrite { node: u16, after: u8, applied: bool },
    Restart { node: u16 },
    /// Node clock advances.
    Advance { node: u16, ms: u32 },
    /// Deferred persistence of blocks on / off; make k pending blocks durable.
    Defer { node: u16, on: bool },
    Persist { node: u16, k: u16 },
    /// Adversary: add Byzantine commit votes to everything, assemble every reachable commit certificate and reveal it to `reveal`
    /// (`alt_order`: every other node receives the new certificates in reverse order).
    Complete { reveal: u16, #[serde(default)] alt_order: bool },
    /// Adversary: certificates that are NOT backed by a quorum (kind 0: all signer bits set, only Byzantine signatures; 1: only Byzantine bits;
    /// 2: genuine votes plus unsigned extra bits; 3: a timeout certificate made of Byzantine votes with all bits claimed) for a block some correct node voted for,
    /// wrapped in a new-view message and, if the Byzantine validator leads the view, in a proposal. Kinds 4 / 5: a timeout certificate for the
    /// newest view padded with genuine but stale timeout votes of correct validators (their oldest / their newest older ones).
    Forge { kind: u8, to: u16 },
    /// Adversary tactic "hide the certificate": the current proposal reaches exactly `voters` correct nodes, their votes are completed into a certificate that is
    /// revealed only to the nodes selected by `reveal`; everybody else times out, the timeout certificate is assembled (Byzantine validators report `lie`) and spread.
    HideQc { voters: u8, reveal: u16, lie: u8 },
    /// Adversary: add lying Byzantine timeout votes, assemble timeout certificates, reveal.
    CompleteTimeouts { lie: u8, reveal: u16 },
    /// Adversary: a Byzantine leader sends two different proposals to two sets of nodes.
    Equivocate { to_a: u16, to_b: u16 },
    /// Adversary (adaptive): plain view changes (everybody times out, everything is delivered) are repeated, at most
    /// `max` times, until a Byzantine validator leads the view `offset` after the most advanced one.
    AlignByzLeader { offset: u8, max: u8 },
    /// Adversary: validly signed messages with absurd fields.
    Absurd { kind: u8, to: u16 },
    /// Adversary: votes for many distinct future views.
    Flood { byz: u8, timeouts: bool, from_view: u32, count: u16, to: u16 },
    /// A variant of a pool message is delivered: 0 = re-signed by a Byzantine validator (wrong author / leader),
    /// 1 = re-signed by a key outside the committee, 2 = signature of another message, 3 = same content for another genesis
    /// (re-signed by a Byzantine validator), 4 = another epoch, 5 = view shifted by +-1..3 (votes only, Byzantine signer).
    Variant { msg: u16, to: u16, kind: u8, arg: u8 },
}

#[derive(Debug, Clone, Serialize, Deserialize, Hash)]
pub struct SimCase {
    pub weights: Vec<u64>,
    /// Byzantine validators (weight <= f unless `over_threshold`).
    pub byz: Vec<bool>,
    pub leaders: Vec<bool>,
    pub weighted_leader: bool,
    pub first_block: u64,
    pub actions: Vec<Action>,
}

pub const KIND_ALL: u8 = 0b1111;

fn kind_bit(k: Kind) -> u8 {
    match k {
        Kind::Proposal => 1,
        Kind::Commit => 2,
        Kind::Timeout => 4,
        Kind::NewView => 8,
    }
}

/// What kind of behaviour the generator should emphasise.
#[derive(Debug, Clone, Copy, PartialEq)]
pub struct Profile {
    pub max_n: usize,
    pub byzantine: bool,
    pub crashes: bool,
    pub floods: bool,
    pub absurd: bool,
    pub variants: bool,
    pub len: usize,
}

pub fn gen_committee(ch: &mut Choices, p: &Profile) -> (Vec<u64>, Vec<bool>) {
    // sizes with a Byzantine validator need total weight >= 6
    let n = if p.byzantine { ch.pick(&[6usize, 6, 6, 7]).min(p.max_n.max(6)) } else { 1 + ch.below(p.max_n.min(5)) };
    let mut weights: Vec<u64> = match ch.below(4) {
        0 | 1 => vec![1; n],
        2 => (0..n).map(|_| 1 + ch.below(2) as u64).collect(),
        _ => {
            let mut v = vec![1; n];
            let i = ch.below(n);
            v[i] = 2;
            v
        }
    };
    if !p.byzantine {
        return (weights, vec![false; n]);
    }
    // choose a Byzantine set of weight <= f, as heavy as possible
    let total: u64 = weights.iter().sum();
    let mut f = (total - 1) / 5;
    if f == 0 {
        weights = vec![1; 6];
        f = 1;
    }
    let n = weights.len();
    let mut byz = vec![false; n];
    let mut left = f;
    for i in ch.perm(n) {
        if weights[i] <= left {
            byz[i] = true;
            left -= weights[i];
        }
    }
    (weights, byz)
}

pub fn gen_case(ch: &mut Choices, p: &Profile) -> SimCase {
    let (weights, byz) = gen_committee(ch, p);
    let n = weights.len();
    let mask = |ch: &mut Choices| -> u16 {
        match ch.below(6) {
            0 | 1 | 2 => u16::MAX,
            3 => ch.raw() | ch.raw(),
            _ => ch.raw(),
        }
    };
    let mut actions = vec![];
    let len = 4 + ch.below(p.len);
    let all = |rounds: u8| Action::Flush { mask: u16::MAX, kinds: KIND_ALL, limit: 1000, rounds };
    for _ in 0..len {
        // directed phrases: multi-step choreographies that uniform choice would almost never produce
        if p.byzantine && ch.chance(1, 5) {
            match ch.below(7) {
                6 => {
                    // a partially delivered re-proposal: a block is certified but only one node learns it; the timeout certificate
                    // forces its re-proposal, which reaches only two nodes; the view times out again with the Byzantine
                    // validators reporting nothing, so the high votes for the one block now stem from two different views
                    let perm = ch.perm(5);
                    let bit = |k: usize| 1u16 << perm[k];
                    actions.push(all(2));
                    actions.push(Action::HideQc { voters: ch.pick(&[4u8, 4, 5, 3]), reveal: bit(0), lie: ch.pick(&[0u8, 5, 0]) });
                    actions.push(Action::Flush { mask: u16::MAX, kinds: 0, limit: 0, rounds: 1 });
                    actions.push(Action::Flush { mask: bit(1) | bit(2), kinds: KIND_ALL, limit: 1000, rounds: 1 });
                    actions.push(Action::Timeout { mask: !bit(0) });
                    actions.push(Action::CompleteTimeouts { lie: ch.pick(&[0u8, 5, 0]), reveal: u16::MAX });
                    actions.push(all(2));
                    actions.push(Action::Complete { reveal: u16::MAX, alt_order: ch.bool() });
                    actions.push(all(2));
                }
                5 if p.crashes => {
                    // amnesia: two nodes time out before the proposal of the view reaches them, crash and restart; then the
                    // proposal arrives. Whatever they do now is collected by one node only (with the Byzantine votes on top);
                    // the others time out, the Byzantine validators report nothing, and every certificate is spread
                    let perm = ch.perm(5);
                    let bit = |k: usize| 1u16 << perm[k];
                    let sel = |k: usize| (((perm[k] << 16) + (1 << 15)) / 5) as u16;
                    for _ in 0..ch.below(3) {
                        actions.push(Action::Timeout { mask: u16::MAX });
                        actions.push(all(2));
                    }
                    actions.push(all(2));
                    actions.push(Action::Flush { mask: u16::MAX, kinds: 0, limit: 0, rounds: 1 });
                    // (variant "vote amnesia": the two nodes die inside the durable write that records their vote for the
                    // proposal - write lost - and restart; everybody but the node that learns the certificate then times out)
                    let vote_amnesia = ch.bool();
                    if vote_amnesia {
                        for k in [2, 3] {
                            actions.push(Action::CrashInWrite { node: sel(k), after: 0, applied: false });
                        }
                        actions.push(Action::Flush { mask: bit(0) | bit(1) | bit(2) | bit(3), kinds: 1, limit: 1000, rounds: 1 });
                        for k in [2, 3] {
                            actions.push(Action::Restart { node: sel(k) });
                        }
                    } else {
                        actions.push(Action::Timeout { mask: bit(2) | bit(3) });
                        for k in [2, 3] {
                            actions.push(Action::Crash { node: sel(k) });
                            actions.push(Action::Restart { node: sel(k) });
                        }
                        actions.push(Action::Flush { mask: bit(0) | bit(1) | bit(2) | bit(3), kinds: 1, limit: 1000, rounds: 1 });
                    }
                    actions.push(Action::Flush { mask: bit(0), kinds: 2, limit: 1000, rounds: 1 });
                    actions.push(Action::Complete { reveal: bit(0), alt_order: false });
                    actions.push(Action::Timeout { mask: if vote_amnesia { bit(1) | bit(2) | bit(3) | bit(4) } else { bit(1) | bit(4) } });
                    actions.push(Action::CompleteTimeouts { lie: ch.pick(&[0u8, 5, 0, 4]), reveal: u16::MAX });
                    actions.push(all(2));
                    actions.push(Action::Complete { reveal: u16::MAX, alt_order: ch.bool() });
                    actions.push(all(2));
                }
                4 => {
                    // the re-proposal attack: a block gets few votes and the view times out without the Byzantine validators
                    // admitting anything, so a fresh block is proposed for the same number; that one is certified, but only one
                    // node learns it; the others time out and the Byzantine validators back the stalest vote reported;
                    // finally every certificate that can be assembled is shown to everybody, in two orders
                    actions.push(Action::HideQc { voters: ch.pick(&[2u8, 2, 1, 3]), reveal: 0, lie: ch.pick(&[0u8, 0, 4, 9]) });
                    if ch.chance(1, 3) {
                        actions.push(all(1));
                    }
                    actions.push(Action::HideQc { voters: ch.pick(&[5u8, 5, 6, 4]), reveal: 1 << ch.below(6), lie: ch.pick(&[4u8, 9, 7, 2, 1]) });
                    actions.push(all(2));
                    actions.push(Action::Complete { reveal: u16::MAX, alt_order: true });
                    actions.push(all(1));
                }
                0 => {
                    // (optionally a few plain view changes first, so that the choreography meets different leaders)
                    for _ in 0..ch.below(4) {
                        actions.push(Action::Timeout { mask: u16::MAX });
                        actions.push(all(2));
                    }
                    // a certificate forms with few correct voters, is shown to one node, the rest times out and moves on;
                    // a Byzantine leader of the next view then tries both a legitimate and a smuggled proposal, in either order
                    // (half of the time the adversary first waits for a view whose successor it leads)
                    if ch.bool() {
                        actions.push(Action::AlignByzLeader { offset: 1, max: 7 });
                    }
                    actions.push(Action::HideQc { voters: ch.pick(&[3u8, 4, 4, 5, 2]), reveal: 1 << ch.below(6), lie: ch.below(15) as u8 });
                    if ch.chance(2, 3) {
                        let m = |ch: &mut Choices| match ch.below(4) {
                            0 | 1 => u16::MAX,
                            2 => 0,
                            _ => ch.raw(),
                        };
                        let (a, b) = (m(ch), m(ch));
                        actions.push(Action::Equivocate { to_a: a, to_b: b });
                        if ch.bool() {
                            actions.push(Action::Equivocate { to_a: b, to_b: a });
                        }
                        if ch.chance(2, 3) {
                            // the votes are collected and the adversary completes, announces and serves what it can before
                            // the correct nodes had a chance to sync with each other
                            actions.push(Action::Flush { mask: u16::MAX, kinds: 2, limit: 1000, rounds: 1 });
                            actions.push(Action::Complete { reveal: u16::MAX, alt_order: ch.bool() });
                        }
                    }
                    actions.push(all(2));
                    actions.push(Action::Complete { reveal: u16::MAX, alt_order: false });
                    actions.push(all(1));
                }
                1 => {
                    // an equivocating leader reaches everybody with both proposals; the two possible certificates are revealed in different orders
                    actions.push(Action::Equivocate { to_a: if ch.bool() { u16::MAX } else { ch.raw() }, to_b: u16::MAX });
                    actions.push(Action::Flush { mask: u16::MAX, kinds: 2, limit: 1000, rounds: 1 });
                    actions.push(Action::Complete { reveal: u16::MAX, alt_order: true });
                    actions.push(all(2));
                }
                2 => {
                    actions.push(Action::Equivocate { to_a: ch.raw(), to_b: u16::MAX });
                    actions.push(Action::Forge { kind: ch.below(6) as u8, to: u16::MAX });
                    actions.push(all(2));
                }
                _ => {
                    actions.push(Action::Timeout { mask: u16::MAX });
                    actions.push(Action::Flush { mask: u16::MAX, kinds: 4, limit: 1000, rounds: 1 });
                    actions.push(Action::CompleteTimeouts { lie: ch.below(15) as u8, reveal: mask(ch) });
                    actions.push(all(2));
                }
            }
            continue;
        }
        if ch.chance(1, 14) {
            // a laggard: everybody but one node moves on for a while, then that node receives nothing but the commit votes
            // (or nothing but the timeout votes) it missed, and only afterwards everything else
            let x = 1u16 << ch.below(6);
            actions.push(Action::Flush { mask: !x, kinds: KIND_ALL, limit: 1000, rounds: 1 + ch.below(3) as u8 });
            if ch.bool() {
                actions.push(Action::Timeout { mask: !x });
                actions.push(Action::Flush { mask: !x, kinds: KIND_ALL, limit: 1000, rounds: 2 });
            }
            actions.push(Action::Flush { mask: x, kinds: ch.pick(&[2u8, 2, 4, 6]), limit: 1000, rounds: 1 });
            actions.push(all(1));
            continue;
        }
        if p.variants && ch.chance(1, 8) {
            // the leaders propose but nothing is delivered yet; a copy of the newest message (normally that proposal) re-signed by
            // somebody else / carrying another signature reaches a node before the original does
            actions.push(all(1));
            if ch.bool() {
                actions.push(Action::Timeout { mask: u16::MAX });
                actions.push(all(2));
            }
            actions.push(Action::Flush { mask: u16::MAX, kinds: 0, limit: 0, rounds: 1 });
            actions.push(Action::Variant { msg: u16::MAX, to: ch.raw(), kind: ch.pick(&[0u8, 0, 1, 2]), arg: ch.below(6) as u8 });
            actions.push(all(1));
            continue;
        }
        let a = match ch.below(40) {
            0..=11 => Action::Flush { mask: mask(ch), kinds: if ch.chance(3, 4) { KIND_ALL } else { ch.below(16) as u8 }, limit: ch.pick(&[1u16, 3, 10, 1000]), rounds: 1 + ch.below(3) as u8 },
            14..=17 => Action::Timeout { mask: mask(ch) },
            18 | 19 => Action::Deliver { msg: ch.raw(), to: ch.raw(), reencode: ch.chance(1, 4) },
            20 => Action::Sync { from: ch.raw(), to: ch.raw() },
            12 | 13 => Action::Lose { mask: mask(ch), kinds: if ch.bool() { KIND_ALL } else { ch.below(16) as u8 } },
            21 if p.crashes => {
                if ch.chance(1, 3) {
                    Action::CrashInWrite { node: ch.raw(), after: ch.below(3) as u8, applied: ch.bool() }
                } else {
                    Action::Crash { node: ch.raw() }
                }
            }
            22 | 23 if p.crashes => Action::Restart { node: ch.raw() },
            24 => Action::Advance { node: ch.raw(), ms: ch.pick(&[1u32, 500, 2000, 10_000]) },
            25 if p.crashes => Action::Defer { node: ch.raw(), on: ch.bool() },
            26 if p.crashes => Action::Persist { node: ch.raw(), k: ch.pick(&[1u16, 5, 100]) },
            27..=29 if p.byzantine => Action::Complete { reveal: if ch.bool() { 0 } else { mask(ch) }, alt_order: ch.bool() },
            30 if p.byzantine => Action::Forge { kind: ch.below(6) as u8, to: mask(ch) },
            31 | 32 if p.byzantine => Action::CompleteTimeouts { lie: ch.below(15) as u8, reveal: mask(ch) },
            33 | 34 if p.byzantine => Action::Equivocate { to_a: mask(ch), to_b: mask(ch) },
            35 if p.byzantine => Action::HideQc { voters: ch.pick(&[3u8, 4, 4, 5, 2]), reveal: 1 << ch.below(6), lie: ch.below(15) as u8 },
            36 if p.byzantine && p.absurd => Action::Absurd { kind: ch.below(6) as u8, to: mask(ch) },
            38 | 39 if p.variants => Action::Variant { msg: ch.raw(), to: ch.raw(), kind: ch.below(6) as u8, arg: ch.below(6) as u8 },
            37 if p.byzantine && p.floods => Action::Flood { byz: ch.below(4) as u8, timeouts: ch.bool(), from_view: ch.pick(&[0u32, 5, 1000]), count: ch.pick(&[3u16, 20, 60]), to: mask(ch) },
            _ => Action::Flush { mask: u16::MAX, kinds: KIND_ALL, limit: 1000, rounds: 2 },
        };
        actions.push(a);
    }
    if ch.chance(1, 3) {
        // the run ends with a black-out: some nodes advance, then whatever is in flight is lost
        if ch.bool() {
            actions.push(Action::Flush { mask: ch.raw(), kinds: KIND_ALL, limit: 1000, rounds: 1 + ch.below(2) as u8 });
        }
        if ch.bool() {
            actions.push(Action::Timeout { mask: mask(ch) });
            if ch.bool() {
                actions.push(Action::Timeout { mask: mask(ch) });
            }
        }
        actions.push(Action::Lose { mask: u16::MAX, kinds: KIND_ALL });
    }
    let mut leaders: Vec<bool> = (0..n).map(|_| !ch.chance(1, 6)).collect();
    let force = ch.below(n);
    leaders[force] = true;
    SimCase { weights, byz, leaders, weighted_leader: ch.chance(1, 5), first_block: ch.pick(&[0u64, 0, 3]), actions }
}

pub fn sim_cfg(case: &SimCase) -> SimCfg {
    let n = case.weights.len();
    SimCfg {
        spec: CommitteeSpec { weights: case.weights.clone(), leaders: case.leaders.clone(), weighted: case.weighted_leader, frequency: 1, key_offset: 0, first_block: case.first_block },
        byz: case.byz.clone(),
        view_timeout_ms: 2000,
        max_payload: 1 << 16,
    }
    .clamp(n)
}

impl SimCfg {
    fn clamp(self, _n: usize) -> Self {
        self
    }
}

/// Which monitors run after every action.
#[derive(Debug, Clone, Copy, Default)]
pub struct Monitors {
    pub agreement: bool,
    pub uniqueness: bool,
    pub equivocation: bool,
    pub step_invariants: bool,
    pub caches: bool,
    /// Reference-model oracle.
    pub model: bool,
}

/// Classification of a finished run.
#[derive(Debug, Default, Clone)]
pub struct RunInfo {
    pub steps: usize,
    pub max_view: u64,
    pub min_committed: usize,
    pub max_committed: usize,
    pub timeout_qc_formed: bool,
    pub equivocation_delivered: bool,
    pub crashes: usize,
    pub restarts: usize,
    pub reproposals_accepted: usize,
    pub hidden_qc: bool,
    pub rejected_deep: usize,
    pub accepted_deep: usize,
    pub flood_msgs: usize,
    pub absurd_msgs: usize,
    pub variants: usize,
    pub forged: usize,
    pub lost: usize,
    pub served_blocks: usize,
    pub model_compared: u64,
    pub kinds_matrix: std::collections::BTreeSet<String>,
}

fn nodes_in(w: &World, mask: u16) -> Vec<usize> {
    w.correct().into_iter().enumerate().filter(|(k, _)| mask >> (k % 16) & 1 == 1).map(|(_, i)| i).collect()
}

fn pick_node(w: &World, sel: u16) -> usize {
    let c = w.correct();
    c[common::pick_index(sel, c.len())]
}

/// Checks the monitors over the steps recorded since `from_step`.
pub fn check_monitors(w: &World, m: &Monitors, from_step: usize) -> Result<(), String> {
    if let Some(e) = w.driver_errors.first() {
        return Err(e.clone());
    }
    for rec in &w.steps[from_step..] {
        if m.step_invariants {
            monitors::step_invariants(w, rec)?;
        }
        if m.equivocation {
            monitors::persisted_before_sent(w, rec)?;
        }
        if m.caches {
            monitors::caches_bounded(w, rec)?;
        }
    }
    if m.agreement {
        monitors::agreement(w)?;
    }
    if m.uniqueness {
        monitors::uniqueness(w)?;
    }
    if m.equivocation {
        monitors::no_equivocation(w)?;
    }
    Ok(())
}

pub async fn apply(w: &mut World, a: &Action, info: &mut RunInfo) -> Result<(), String> {
    match a {
        Action::Flush { mask, kinds, limit, rounds } => {
            for _ in 0..*rounds {
                let targets = nodes_in(w, *mask);
                for i in &targets {
                    if w.ready(*i) {
                        w.propose(*i).await;
                    }
                }
                for i in targets {
                    let mut n = 0;
                    let mut m = 0;
                    while m < w.pool.len() && n < *limit {
                        if !w.node(i).delivered.contains(&m) && kinds & kind_bit(kind_of(&w.pool[m].msg)) != 0 && w.ready(i) {
                            w.deliver(i, m, false).await;
                            n += 1;
                        }
                        m += 1;
                    }
                }
                w.progress().await;
                w.reap().await;
            }
        }
        Action::Deliver { msg, to, reencode } => {
            if !w.pool.is_empty() {
                let m = common::pick_index(*msg, w.pool.len());
                let i = pick_node(w, *to);
                w.deliver(i, m, *reencode).await;
                w.progress().await;
                w.reap().await;
            }
        }
        Action::Lose { mask, kinds } => {
            for i in nodes_in(w, *mask) {
                for m in 0..w.pool.len() {
                    if kinds & kind_bit(kind_of(&w.pool[m].msg)) != 0 && !w.node(i).delivered.contains(&m) {
                        w.lose(i, m);
                        info.lost += 1;
                    }
                }
            }
        }
        Action::Timeout { mask } => {
            for i in nodes_in(w, *mask) {
                if w.ready(i) {
                    w.timer(i).await;
                } else if w.node(i).is_up() && w.node(i).is_busy() {
                    // a handler that is waiting (e.g. for a missing block, bounded by the view timeout) sees time pass too
                    w.advance(i, w.cfg.view_timeout_ms as i64 + 1).await;
                }
            }
            w.progress().await;
            w.reap().await;
        }
        Action::Sync { from, to } => {
            let (f, t) = (pick_node(w, *from), pick_node(w, *to));
            w.sync(f, t).await;
        }
        Action::Crash { node } => {
            let i = pick_node(w, *node);
            if w.node(i).is_up() {
                info.crashes += 1;
            }
            w.crash(i).await;
        }
        Action::CrashInWrite { node, after, applied } => {
            let i = pick_node(w, *node);
            if w.node(i).is_up() {
                let call = w.node(i).engine.st.lock().unwrap().set_state_calls + *after as u64;
                w.arm_crash(i, crate::engine::CrashPoint { call, applied: *applied });
                info.crashes += 1;
            }
        }
        Action::Restart { node } => {
            let i = pick_node(w, *node);
            info.restarts += 1;
            w.restart(i).await?;
        }
        Action::Advance { node, ms } => {
            let i = pick_node(w, *node);
            w.advance(i, *ms as i64).await;
        }
        Action::Defer { node, on } => {
            let i = pick_node(w, *node);
            w.node(i).engine.st.lock().unwrap().defer = *on;
        }
        Action::Persist { node, k } => {
            let i = pick_node(w, *node);
            w.node(i).engine.persist(*k as usize);
            w.progress().await;
        }
        Action::Complete { reveal, alt_order } => {
            let new = w.complete_commits();
            if !new.is_empty() && *reveal == 0 {
                info.hidden_qc = true;
            }
            for (k, i) in nodes_in(w, *reveal).into_iter().enumerate() {
                let mut order = new.clone();
                if *alt_order && k % 2 == 1 {
                    order.reverse();
                }
                for m in order {
                    if w.ready(i) {
                        w.deliver(i, m, false).await;
                    }
                }
            }
            w.progress().await;
            // the Byzantine validators are also block-sync peers: they serve every certified block whose payload they know
            // (their own smuggled payloads first) to the nodes that still miss that number
            if !w.byz_ids().is_empty() {
                let blocks = w.servable_blocks();
                for i in nodes_in(w, *reveal) {
                    for b in &blocks {
                        let next = w.node(i).run.as_ref().map(|r| r.mgr.queued().next());
                        if next == Some(b.number()) {
                            if w.offer_block(i, b.clone()).await == Some(true) {
                                info.served_blocks += 1;
                            }
                        }
                    }
                }
            }
            w.progress().await;
            w.reap().await;
        }
        Action::Forge { kind, to } => {
            let ms = w.forge(*kind);
            info.forged += ms.len();
            for (k, i) in nodes_in(w, *to).into_iter().enumerate() {
                // different nodes see the forged certificates in different orders
                let mut order = ms.clone();
                if k % 2 == 1 {
                    order.reverse();
                }
                for m in order {
                    if w.ready(i) {
                        w.deliver(i, m, false).await;
                    }
                }
            }
            w.progress().await;
            w.reap().await;
        }
        Action::HideQc { voters, reveal, lie } => {
            // a. the leader of the most advanced view proposes (a Byzantine leader sends one proposal)
            //    (if the nodes are spread over several views, everything except the newest proposals is delivered first, so that the
            //    tactic starts from a common view)
            let correct = w.correct();
            let mut top_view = 0;
            let mut proposal = None;
            for _ in 0..4 {
                for i in &correct {
                    if w.ready(*i) {
                        w.propose(*i).await;
                    }
                }
                top_view = correct.iter().filter_map(|i| w.node(*i).snapshot().map(|s| s.view.0)).max().unwrap_or(0);
                proposal = (0..w.pool.len()).rev().find(|m| kind_of(&w.pool[*m].msg) == Kind::Proposal && crate::sim::view_of(&w.pool[*m].msg) == top_view);
                if proposal.is_none() && w.cfg.byz[w.leader(top_view)] {
                    proposal = w.equivocate().first().copied().filter(|m| crate::sim::view_of(&w.pool[*m].msg) == top_view);
                }
                if proposal.is_some() {
                    break;
                }
                for i in &correct {
                    let mut m = 0;
                    while m < w.pool.len() {
                        let newest_proposal = kind_of(&w.pool[m].msg) == Kind::Proposal && crate::sim::view_of(&w.pool[m].msg) >= top_view;
                        if !newest_proposal && !w.node(*i).delivered.contains(&m) && w.ready(*i) {
                            w.deliver(*i, m, false).await;
                        }
                        m += 1;
                    }
                }
                w.progress().await;
            }
            if let Some(p) = proposal {
                // b. it reaches exactly `voters` correct nodes (those that are in that view)
                let mut got = 0;
                for i in &correct {
                    if got < *voters as usize && w.ready(*i) {
                        let before = w.steps.len();
                        w.deliver(*i, p, false).await;
                        if w.steps.get(before).is_some_and(|r| matches!(r.out, crate::sim::StepOut::Handled(zksync_consensus_bft::verif::Outcome::Accepted))) {
                            got += 1;
                        }
                    }
                }
                w.progress().await;
                // c. the certificate is assembled and shown to few
                let new = w.complete_commits();
                let revealed = nodes_in(w, *reveal);
                if !new.is_empty() {
                    info.hidden_qc = true;
                }
                for i in &revealed {
                    for m in &new {
                        if w.ready(*i) {
                            w.deliver(*i, *m, false).await;
                        }
                    }
                }
                w.progress().await;
                // d. everybody else times out; their timeout votes (plus lying Byzantine ones) form a certificate
                let others: Vec<usize> = correct.iter().copied().filter(|i| !revealed.contains(i)).collect();
                for i in &others {
                    if w.ready(*i) {
                        w.timer(*i).await;
                    }
                }
                w.progress().await;
                let tq = w.complete_timeouts(*lie);
                if !tq.is_empty() {
                    info.timeout_qc_formed = true;
                }
                for i in &others {
                    let mut m = 0;
                    while m < w.pool.len() {
                        if kind_of(&w.pool[m].msg) == Kind::Timeout && !w.node(*i).delivered.contains(&m) && w.ready(*i) {
                            w.deliver(*i, m, false).await;
                        }
                        m += 1;
                    }
                    for m in &tq {
                        if w.ready(*i) {
                            w.deliver(*i, *m, false).await;
                        }
                    }
                }
                w.progress().await;
                w.reap().await;
            }
        }
        Action::CompleteTimeouts { lie, reveal } => {
            let new = w.complete_timeouts(*lie);
            if !new.is_empty() {
                info.timeout_qc_formed = true;
            }
            for i in nodes_in(w, *reveal) {
                for m in &new {
                    if w.ready(i) {
                        w.deliver(i, *m, false).await;
                    }
                }
            }
            w.progress().await;
            w.reap().await;
        }
        Action::Equivocate { to_a, to_b } => {
            let ps = w.equivocate();
            if ps.len() == 2 {
                let (a, b) = (nodes_in(w, *to_a), nodes_in(w, *to_b));
                let mut got = [0usize; 2];
                for (k, set) in [a, b].into_iter().enumerate() {
                    for i in set {
                        // a node may well receive both proposals: only its own phase gate stops it from voting twice
                        if w.ready(i) {
                            let before = w.steps.len();
                            w.deliver(i, ps[k], false).await;
                            if w.steps.get(before).is_some_and(|r| matches!(r.out, crate::sim::StepOut::Handled(zksync_consensus_bft::verif::Outcome::Accepted))) {
                                got[k] += 1;
                            }
                        }
                    }
                }
                if got[0] > 0 && got[1] > 0 {
                    info.equivocation_delivered = true;
                }
                w.progress().await;
                w.reap().await;
            }
        }
        Action::AlignByzLeader { offset, max } => {
            for _ in 0..*max {
                let correct = w.correct();
                let top_view = correct.iter().filter_map(|i| w.node(*i).snapshot().map(|s| s.view.0)).max().unwrap_or(0);
                if w.cfg.byz[w.leader(top_view + *offset as u64)] {
                    break;
                }
                for i in &correct {
                    if w.ready(*i) {
                        w.timer(*i).await;
                    }
                }
                w.progress().await;
                for _ in 0..2 {
                    for i in &correct {
                        let mut m = 0;
                        while m < w.pool.len() {
                            if !w.node(*i).delivered.contains(&m) && w.ready(*i) {
                                w.deliver(*i, m, false).await;
                            }
                            m += 1;
                        }
                    }
                    w.progress().await;
                }
                w.reap().await;
            }
        }
        Action::Absurd { kind, to } => {
            let ms = w.absurd(*kind);
            info.absurd_msgs += ms.len();
            for i in nodes_in(w, *to) {
                for m in &ms {
                    if w.ready(i) {
                        w.deliver(i, *m, false).await;
                    }
                }
            }
            w.progress().await;
            w.reap().await;
        }
        Action::Variant { msg, to, kind, arg } => {
            if !w.pool.is_empty() {
                let m = common::pick_index(*msg, w.pool.len());
                let i = pick_node(w, *to);
                if let Some(v) = w.variant(m, *kind, *arg) {
                    info.variants += 1;
                    if w.ready(i) {
                        w.deliver(i, v, false).await;
                    }
                    w.progress().await;
                    w.reap().await;
                }
            }
        }
        Action::Flood { byz, timeouts, from_view, count, to } => {
            let ms = w.flood(*byz as usize, *timeouts, *from_view as u64, *count as u64);
            info.flood_msgs += ms.len();
            for i in nodes_in(w, *to) {
                for m in &ms {
                    if w.ready(i) {
                        w.deliver(i, *m, false).await;
                    }
                }
            }
            w.progress().await;
            w.reap().await;
        }
    }
    Ok(())
}

/// Fills the statistics that are read off the finished world.
pub fn summarize(w: &World, info: &mut RunInfo) {
    use crate::sim::{Input, StepOut};
    use zksync_consensus_bft::verif::Outcome;
    info.steps = w.steps.len();
    info.max_view = w.steps.iter().map(|s| s.after.view.0).max().unwrap_or(0);
    let committed: Vec<usize> = w.correct().iter().map(|i| w.committed(*i).len()).collect();
    info.min_committed = committed.iter().copied().min().unwrap_or(0);
    info.max_committed = committed.iter().copied().max().unwrap_or(0);
    for s in &w.steps {
        if s.after.high_timeout_qc.is_some() && s.after.high_timeout_qc != s.before.high_timeout_qc {
            info.timeout_qc_formed = true;
        }
        if let (Input::Msg(m), StepOut::Handled(out)) = (&s.input, &s.out) {
            let k = kind_of(&w.pool[*m].msg);
            let rel = (crate::sim::view_of(&w.pool[*m].msg) as i128 - s.before.view.0 as i128).clamp(-2, 2);
            let o = match out {
                Outcome::Accepted => "accepted".to_string(),
                Outcome::Rejected(v) => format!("rejected:{v}"),
                Outcome::Internal(_) => "internal".to_string(),
            };
            info.kinds_matrix.insert(format!("{:?}|{k:?}|rel{rel}|{o}", s.before.phase));
            if s.before.view.0 >= 3 {
                match out {
                    Outcome::Accepted if s.after != s.before => info.accepted_deep += 1,
                    Outcome::Rejected(_) => info.rejected_deep += 1,
                    _ => {}
                }
            }
            if k == Kind::Proposal && matches!(out, Outcome::Accepted) {
                let zksync_consensus_roles::validator::ConsensusMsg::V2(zksync_consensus_roles::validator::v2::ChonkyMsg::LeaderProposal(p)) = &w.pool[*m].msg.msg else { continue };
                if p.proposal_payload.is_none() {
                    info.reproposals_accepted += 1;
                }
            }
        }
    }
}
