//! The adversary: it sees every message in the pool, holds the Byzantine validators' keys, and
//! crafts verifiable messages as far as <= f weight permits.
use std::collections::BTreeMap;

use zksync_consensus_roles::validator::{self, v2, ConsensusMsg, Payload};

use crate::sim::{just_view, Msg, World};

fn chonky(m: &Msg) -> &v2::ChonkyMsg {
    let ConsensusMsg::V2(x) = &m.msg;
    x
}

impl World {
    pub fn sign_as(&self, validator: usize, m: v2::ChonkyMsg) -> Msg {
        self.committee.keys[validator].sign_msg(ConsensusMsg::V2(m))
    }

    /// Every commit certificate visible in the pool (inside proposals, new-views, timeout votes and timeout certificates) that verifies.
    pub fn known_commit_qcs(&self) -> Vec<v2::CommitQC> {
        let mut out: Vec<v2::CommitQC> = vec![];
        let mut push = |q: &v2::CommitQC, out: &mut Vec<v2::CommitQC>| {
            if !out.contains(q) && q.verify(self.committee.gh(), self.committee.epoch, &self.committee.schedule).is_ok() {
                out.push(q.clone());
            }
        };
        let from_just = |j: &v2::ProposalJustification, out: &mut Vec<v2::CommitQC>, push: &mut dyn FnMut(&v2::CommitQC, &mut Vec<v2::CommitQC>)| match j {
            v2::ProposalJustification::Commit(q) => push(q, out),
            v2::ProposalJustification::Timeout(t) => {
                for m in t.map.keys() {
                    if let Some(q) = &m.high_qc {
                        push(q, out);
                    }
                }
            }
        };
        for p in &self.pool {
            match chonky(&p.msg) {
                v2::ChonkyMsg::LeaderProposal(x) => from_just(&x.justification, &mut out, &mut push),
                v2::ChonkyMsg::ReplicaNewView(x) => from_just(&x.justification, &mut out, &mut push),
                v2::ChonkyMsg::ReplicaTimeout(x) => {
                    if let Some(q) = &x.high_qc {
                        push(q, &mut out);
                    }
                }
                v2::ChonkyMsg::ReplicaCommit(_) => {}
            }
        }
        out.sort_by_key(|q| q.view().number);
        out
    }

    /// Blocks a Byzantine peer can serve over block sync: every known commit certificate whose payload appears in some
    /// proposal of the pool (its own crafted ones included), in block-number order, conflicting ones first.
    pub fn servable_blocks(&self) -> Vec<validator::Block> {
        let mut payloads: Vec<(bool, Payload)> = vec![];
        for p in &self.pool {
            if let v2::ChonkyMsg::LeaderProposal(x) = chonky(&p.msg) {
                if let Some(pl) = &x.proposal_payload {
                    payloads.push((p.crafted, pl.clone()));
                }
            }
        }
        let mut out: Vec<(u64, bool, validator::Block)> = vec![];
        for q in self.known_commit_qcs() {
            if let Some((crafted, pl)) = payloads.iter().find(|(_, pl)| pl.hash() == q.message.proposal.payload) {
                out.push((q.message.proposal.number.0, !*crafted, validator::Block::FinalV2(v2::FinalBlock { payload: pl.clone(), justification: q.clone() })));
            }
        }
        out.sort_by_key(|(n, honest, _)| (*n, *honest));
        out.into_iter().map(|x| x.2).collect()
    }

    pub fn known_timeout_qcs(&self) -> Vec<v2::TimeoutQC> {
        let mut out: Vec<v2::TimeoutQC> = vec![];
        for p in &self.pool {
            let j = match chonky(&p.msg) {
                v2::ChonkyMsg::LeaderProposal(x) => &x.justification,
                v2::ChonkyMsg::ReplicaNewView(x) => &x.justification,
                _ => continue,
            };
            if let v2::ProposalJustification::Timeout(t) = j {
                if !out.contains(t) && t.verify(self.committee.gh(), self.committee.epoch, &self.committee.schedule).is_ok() {
                    out.push(t.clone());
                }
            }
        }
        out.sort_by_key(|q| q.view.number);
        out
    }

    /// Validly signed commit votes in the pool: (view, header) -> signer -> vote.
    pub fn commit_votes(&self) -> BTreeMap<(u64, v2::BlockHeader), BTreeMap<usize, validator::Signed<v2::ReplicaCommit>>> {
        let mut out: BTreeMap<_, BTreeMap<usize, _>> = BTreeMap::new();
        for p in &self.pool {
            let (Some(from), v2::ChonkyMsg::ReplicaCommit(c)) = (p.from, chonky(&p.msg)) else { continue };
            if c.verify(self.committee.gh(), self.committee.epoch).is_err() || (p.crafted && p.msg.verify().is_err()) {
                continue;
            }
            out.entry((c.view.number.0, c.proposal)).or_default().insert(from, p.msg.clone().cast().unwrap());
        }
        out
    }

    pub fn timeout_votes(&self) -> BTreeMap<u64, BTreeMap<usize, validator::Signed<v2::ReplicaTimeout>>> {
        let mut out: BTreeMap<u64, BTreeMap<usize, _>> = BTreeMap::new();
        for p in &self.pool {
            let (Some(from), v2::ChonkyMsg::ReplicaTimeout(t)) = (p.from, chonky(&p.msg)) else { continue };
            if t.verify(self.committee.gh(), self.committee.epoch, &self.committee.schedule).is_err() || (p.crafted && p.msg.verify().is_err()) {
                continue;
            }
            // one vote per signer and view (the first seen)
            out.entry(t.view.number.0).or_default().entry(from).or_insert_with(|| p.msg.clone().cast().unwrap());
        }
        out
    }

    /// "Complete everything": the Byzantine validators add their commit votes to every vote a correct
    /// validator has cast; every vote set reaching the quorum is assembled into a certificate, wrapped
    /// in a new-view message signed by a Byzantine validator (or kept bare if there is none).
    /// Returns the pool indices of the new-view messages carrying newly formed certificates.
    pub fn complete_commits(&mut self) -> Vec<usize> {
        let byz = self.byz_ids();
        let votes = self.commit_votes();
        for ((_view, _header), signers) in &votes {
            let Some(sample) = signers.values().next().cloned() else { continue };
            for b in &byz {
                if !signers.contains_key(b) {
                    let m = self.sign_as(*b, v2::ChonkyMsg::ReplicaCommit(sample.msg.clone()));
                    self.add_to_pool(m, true);
                }
            }
        }
        let votes = self.commit_votes();
        let known = self.known_commit_qcs();
        let mut out = vec![];
        for ((_, _), signers) in votes {
            let w = self.weight_of(signers.keys().copied());
            if w < self.quorum() {
                continue;
            }
            let sample = signers.values().next().unwrap().msg.clone();
            if known.iter().any(|q| q.message == sample) {
                continue;
            }
            let mut qc = v2::CommitQC::new(sample, &self.committee.schedule);
            for v in signers.values() {
                let _ = qc.add(v, self.committee.gh(), self.committee.epoch, &self.committee.schedule);
            }
            if qc.verify(self.committee.gh(), self.committee.epoch, &self.committee.schedule).is_err() {
                continue;
            }
            let signer = byz.first().copied().unwrap_or_else(|| *signers.keys().next().unwrap());
            if !self.cfg.byz[signer] {
                // no Byzantine validator: nobody but the replicas themselves can announce it
                continue;
            }
            let m = self.sign_as(signer, v2::ChonkyMsg::ReplicaNewView(v2::ReplicaNewView { justification: v2::ProposalJustification::Commit(qc) }));
            out.push(self.add_to_pool(m, true));
        }
        out
    }

    /// The Byzantine validators add timeout votes (with the given lie) to every view in which a correct
    /// validator timed out; quorums are assembled into timeout certificates and announced.
    /// `lie`: 0 = no high vote / no high certificate, 1 = a fabricated high vote for a conflicting payload at the
    /// highest voted block, 2 = echo the highest correct vote, 3 = fabricated high vote for the next block,
    /// 4 = echo the *stalest* high vote reported by a correct validator (helps a minority vote towards the sub-quorum).
    pub fn complete_timeouts(&mut self, lie: u8) -> Vec<usize> {
        let byz = self.byz_ids();
        let votes = self.timeout_votes();
        let qcs = self.known_commit_qcs();
        for (view, signers) in &votes {
            let top_vote = signers.values().filter_map(|v| v.msg.high_vote.clone()).max_by_key(|v| (v.proposal.number, v.view.number));
            let stalest_vote = signers.values().filter_map(|v| v.msg.high_vote.clone()).min_by_key(|v| (v.proposal.number, v.view.number));
            for b in &byz {
                if signers.contains_key(b) {
                    continue;
                }
                // `lie % 5` selects the reported vote, `lie / 5` the reported certificate (0: as documented above, 1: none - the
                // Byzantine validator keeps a certificate it knows to itself -, 2: the oldest one)
                let (lie, qc_lie) = (lie % 5, (lie / 5) % 3);
                let high_vote = match (lie, &top_vote) {
                    (0, _) | (_, None) => None,
                    (1, Some(v)) => Some(v2::ReplicaCommit { view: v.view, proposal: v2::BlockHeader { number: v.proposal.number, payload: Payload(vec![0xEE, *b as u8]).hash() } }),
                    (2, Some(v)) => Some(v.clone()),
                    (4, Some(_)) => stalest_vote.clone(),
                    (_, Some(v)) => Some(v2::ReplicaCommit { view: v.view, proposal: v2::BlockHeader { number: v.proposal.number.next(), payload: Payload(vec![0xEF]).hash() } }),
                };
                let high_qc = match (qc_lie, lie) {
                    (1, _) | (0, 0) => None,
                    (2, _) | (0, 1) => qcs.first().cloned(),
                    _ => qcs.last().cloned(),
                };
                let m = self.sign_as(*b, v2::ChonkyMsg::ReplicaTimeout(v2::ReplicaTimeout { view: self.committee.view(*view), high_vote, high_qc }));
                self.add_to_pool(m, true);
            }
        }
        let votes = self.timeout_votes();
        let known = self.known_timeout_qcs();
        let mut out = vec![];
        for (view, signers) in votes {
            if self.weight_of(signers.keys().copied()) < self.quorum() || known.iter().any(|q| q.view.number.0 == view) {
                continue;
            }
            let mut qc = v2::TimeoutQC::new(self.committee.view(view));
            for v in signers.values() {
                let _ = qc.add(v, self.committee.gh(), self.committee.epoch, &self.committee.schedule);
            }
            if qc.verify(self.committee.gh(), self.committee.epoch, &self.committee.schedule).is_err() {
                continue;
            }
            let Some(signer) = byz.first().copied() else { continue };
            let m = self.sign_as(signer, v2::ChonkyMsg::ReplicaNewView(v2::ReplicaNewView { justification: v2::ProposalJustification::Timeout(qc) }));
            out.push(self.add_to_pool(m, true));
        }
        out
    }

    /// Certificates that are not backed by a quorum, for blocks correct nodes voted for (see `Action::Forge`).
    pub fn forge(&mut self, kind: u8) -> Vec<usize> {
        let byz = self.byz_ids();
        let Some(&b) = byz.first() else { return vec![] };
        if kind % 6 >= 4 {
            return self.forge_stale_timeouts(kind % 6 == 5, b, &byz);
        }
        let n = self.cfg.spec.n();
        let votes = self.commit_votes();
        // every block some correct node voted for in the newest view with such votes
        let Some(top) = votes.iter().filter(|(_, s)| s.keys().any(|k| !self.cfg.byz[*k])).map(|((v, _), _)| *v).max() else { return vec![] };
        let targets: Vec<_> = votes.iter().filter(|((v, _), s)| *v == top && s.keys().any(|k| !self.cfg.byz[*k])).map(|(k, s)| (*k, s.clone())).collect();
        let mut all = vec![];
        for ((view, _), signers) in targets {
            all.extend(self.forge_one(kind, view, &signers, b, &byz, n));
        }
        all
    }

    fn forge_one(&mut self, kind: u8, view: u64, signers: &BTreeMap<usize, validator::Signed<v2::ReplicaCommit>>, b: usize, byz: &[usize], n: usize) -> Vec<usize> {
        let view = &view;
        let sample = signers.values().next().unwrap().msg.clone();
        let bits = |set: &dyn Fn(usize) -> bool| {
            let mut bv = bit_vec::BitVec::from_elem(n, false);
            for i in 0..n {
                bv.set(i, set(i));
            }
            v2::Signers(bv)
        };
        let mut agg = validator::AggregateSignature::default();
        let just = match kind % 4 {
            0 | 1 => {
                for x in byz {
                    agg.add(&self.sign_as(*x, v2::ChonkyMsg::ReplicaCommit(sample.clone())).sig);
                }
                let signers = if kind % 4 == 0 { bits(&|_| true) } else { bits(&|i| self.cfg.byz[i]) };
                v2::ProposalJustification::Commit(v2::CommitQC { message: sample.clone(), signers, signature: agg })
            }
            2 => {
                for v in signers.values() {
                    agg.add(&v.sig);
                }
                v2::ProposalJustification::Commit(v2::CommitQC { message: sample.clone(), signers: bits(&|_| true), signature: agg })
            }
            _ => {
                let t = v2::ReplicaTimeout { view: self.committee.view(*view), high_vote: None, high_qc: None };
                for x in byz {
                    agg.add(&self.sign_as(*x, v2::ChonkyMsg::ReplicaTimeout(t.clone())).sig);
                }
                let mut map = std::collections::BTreeMap::new();
                map.insert(t, bits(&|_| true));
                v2::ProposalJustification::Timeout(v2::TimeoutQC { view: self.committee.view(*view), map, signature: agg })
            }
        };
        let mut out = vec![];
        let nv = self.sign_as(b, v2::ChonkyMsg::ReplicaNewView(v2::ReplicaNewView { justification: just.clone() }));
        out.push(self.add_to_pool(nv, true));
        let leader = self.leader(just_view(&just));
        if self.cfg.byz[leader] {
            let (number, forced) = just.get_implied_block(&self.committee.schedule, self.first_block());
            let payload = forced.is_none().then(|| Payload(vec![0xF0, number.0 as u8]));
            let p = self.sign_as(leader, v2::ChonkyMsg::LeaderProposal(v2::LeaderProposal { proposal_payload: payload, justification: just }));
            out.push(self.add_to_pool(p, true));
        }
        out
    }

    /// A timeout certificate for the newest view anybody timed out in, padded with *genuine but stale* timeout votes that
    /// correct validators signed in earlier views (their oldest ones, or their newest ones below the target view), plus fresh
    /// Byzantine votes. Replaying old votes needs no forged signature; only the per-vote view check stops it.
    fn forge_stale_timeouts(&mut self, newest: bool, b: usize, byz: &[usize]) -> Vec<usize> {
        let votes = self.timeout_votes();
        let Some(&target) = votes.keys().max() else { return vec![] };
        let n = self.cfg.spec.n();
        let mut map: std::collections::BTreeMap<v2::ReplicaTimeout, v2::Signers> = Default::default();
        let mut agg = validator::AggregateSignature::default();
        let mut add = |m: &validator::Signed<v2::ReplicaTimeout>, who: usize, map: &mut std::collections::BTreeMap<v2::ReplicaTimeout, v2::Signers>, agg: &mut validator::AggregateSignature| {
            let e = map.entry(m.msg.clone()).or_insert_with(|| v2::Signers(bit_vec::BitVec::from_elem(n, false)));
            e.0.set(who, true);
            agg.add(&m.sig);
        };
        let mut stale = 0;
        for who in 0..n {
            if self.cfg.byz[who] {
                let t = v2::ReplicaTimeout { view: self.committee.view(target), high_vote: None, high_qc: None };
                let m = self.sign_as(who, v2::ChonkyMsg::ReplicaTimeout(t.clone()));
                let ConsensusMsg::V2(v2::ChonkyMsg::ReplicaTimeout(_)) = &m.msg else { continue };
                let signed = validator::Signed { msg: t, key: m.key.clone(), sig: m.sig.clone() };
                add(&signed, who, &mut map, &mut agg);
                continue;
            }
            // this validator's own votes, oldest or newest-below-target first; its genuine vote for the target view is used if there is no other
            let mut mine: Vec<(u64, validator::Signed<v2::ReplicaTimeout>)> = votes.iter().filter_map(|(v, s)| s.get(&who).map(|m| (*v, m.clone()))).collect();
            mine.sort_by_key(|(v, _)| *v);
            let pick = if newest { mine.iter().rev().find(|(v, _)| *v < target).or(mine.last()) } else { mine.first() };
            if let Some((v, m)) = pick {
                if *v != target {
                    stale += 1;
                }
                add(m, who, &mut map, &mut agg);
            }
        }
        if stale == 0 {
            return vec![];
        }
        let just = v2::ProposalJustification::Timeout(v2::TimeoutQC { view: self.committee.view(target), map, signature: agg });
        let mut out = vec![];
        let nv = self.sign_as(b, v2::ChonkyMsg::ReplicaNewView(v2::ReplicaNewView { justification: just.clone() }));
        out.push(self.add_to_pool(nv, true));
        let leader = self.leader(just_view(&just));
        if self.cfg.byz[leader] {
            let (number, forced) = just.get_implied_block(&self.committee.schedule, self.first_block());
            let payload = forced.is_none().then(|| Payload(vec![0xF1, number.0 as u8]));
            let p = self.sign_as(leader, v2::ChonkyMsg::LeaderProposal(v2::LeaderProposal { proposal_payload: payload, justification: just }));
            out.push(self.add_to_pool(p, true));
        }
        let _ = byz;
        out
    }

    /// All justifications visible to the adversary, best (highest view) last.
    pub fn known_justifications(&self) -> Vec<v2::ProposalJustification> {
        let mut v: Vec<v2::ProposalJustification> = self.known_commit_qcs().into_iter().map(v2::ProposalJustification::Commit).collect();
        v.extend(self.known_timeout_qcs().into_iter().map(v2::ProposalJustification::Timeout));
        v.sort_by_key(just_view);
        v
    }

    /// A Byzantine leader equivocates: for the newest justification whose view it leads, two proposals with
    /// different payloads (if the justification allows a fresh block) are crafted. Returns their pool indices.
    pub fn equivocate(&mut self) -> Vec<usize> {
        let justs = self.known_justifications();
        for j in justs.into_iter().rev() {
            let view = just_view(&j);
            let leader = self.leader(view);
            if !self.cfg.byz[leader] {
                continue;
            }
            let (number, forced) = j.get_implied_block(&self.committee.schedule, self.first_block());
            let payloads: Vec<Option<Payload>> = if forced.is_some() {
                // a forced re-proposal leaves no choice; try to smuggle a payload anyway
                vec![None, Some(Payload(vec![0xAA, number.0 as u8]))]
            } else {
                vec![Some(Payload(vec![0xA1, number.0 as u8, view as u8])), Some(Payload(vec![0xA2, number.0 as u8, view as u8]))]
            };
            let mut out = vec![];
            for p in payloads {
                let m = self.sign_as(leader, v2::ChonkyMsg::LeaderProposal(v2::LeaderProposal { proposal_payload: p, justification: j.clone() }));
                out.push(self.add_to_pool(m, true));
            }
            return out;
        }
        vec![]
    }

    /// Validly signed messages with absurd fields from a Byzantine validator (C10 layer 6).
    pub fn absurd(&mut self, kind: u8) -> Vec<usize> {
        let Some(b) = self.byz_ids().first().copied() else { return vec![] };
        let g = self.committee.clone();
        let huge_view = |n: u64| v2::View { genesis: g.gh(), epoch: g.epoch, number: validator::ViewNumber(n) };
        let header = v2::BlockHeader { number: validator::BlockNumber(u64::MAX), payload: Payload(vec![]).hash() };
        let empty_signers = v2::Signers(bit_vec::BitVec::from_elem(0, false));
        let big_signers = v2::Signers(bit_vec::BitVec::from_elem(100_000, true));
        let msgs: Vec<v2::ChonkyMsg> = match kind % 6 {
            0 => vec![v2::ChonkyMsg::ReplicaCommit(v2::ReplicaCommit { view: huge_view(u64::MAX), proposal: header })],
            1 => vec![v2::ChonkyMsg::ReplicaTimeout(v2::ReplicaTimeout { view: huge_view(u64::MAX), high_vote: Some(v2::ReplicaCommit { view: huge_view(u64::MAX), proposal: header }), high_qc: None })],
            2 => vec![v2::ChonkyMsg::ReplicaNewView(v2::ReplicaNewView {
                justification: v2::ProposalJustification::Commit(v2::CommitQC { message: v2::ReplicaCommit { view: huge_view(u64::MAX - 1), proposal: header }, signers: empty_signers.clone(), signature: Default::default() }),
            })],
            3 => vec![v2::ChonkyMsg::LeaderProposal(v2::LeaderProposal {
                proposal_payload: Some(Payload(vec![0; 10])),
                justification: v2::ProposalJustification::Timeout(v2::TimeoutQC { view: huge_view(u64::MAX - 1), map: Default::default(), signature: Default::default() }),
            })],
            4 => vec![v2::ChonkyMsg::ReplicaNewView(v2::ReplicaNewView {
                justification: v2::ProposalJustification::Commit(v2::CommitQC { message: v2::ReplicaCommit { view: huge_view(7), proposal: header }, signers: big_signers, signature: Default::default() }),
            })],
            _ => {
                // a timeout certificate with a thousand empty groups
                let mut map = std::collections::BTreeMap::new();
                for i in 0..1000u64 {
                    map.insert(v2::ReplicaTimeout { view: huge_view(9), high_vote: Some(v2::ReplicaCommit { view: huge_view(i), proposal: header }), high_qc: None }, empty_signers.clone());
                }
                vec![v2::ChonkyMsg::ReplicaNewView(v2::ReplicaNewView { justification: v2::ProposalJustification::Timeout(v2::TimeoutQC { view: huge_view(9), map, signature: Default::default() }) })]
            }
        };
        msgs.into_iter().map(|m| {
            let s = self.sign_as(b, m);
            self.add_to_pool(s, true)
        }).collect()
    }

    /// A variant of pool message `m` (see `Action::Variant`). Returns its pool index.
    pub fn variant(&mut self, m: usize, kind: u8, arg: u8) -> Option<usize> {
        let orig = self.pool[m].msg.clone();
        let byz = self.byz_ids();
        let inner = chonky(&orig).clone();
        let outsider = gen::val_keys()[gen::POOL - 1].clone();
        let review = |v: v2::View, f: &dyn Fn(v2::View) -> v2::View| f(v);
        let msg: Msg = match kind % 6 {
            0 => self.sign_as(*byz.get(arg as usize % byz.len().max(1))?, inner),
            1 => outsider.sign_msg(ConsensusMsg::V2(inner)),
            2 => {
                let mut x = orig.clone();
                let other = self.pool[(m + 1 + arg as usize) % self.pool.len()].msg.sig.clone();
                if other == x.sig {
                    return None;
                }
                x.sig = other;
                x
            }
            k => {
                // votes re-issued by a Byzantine validator for another chain / epoch / view
                let b = *byz.first()?;
                let foreign = self.committee.foreign_genesis().hash();
                let f = |mut v: v2::View| -> v2::View {
                    match k {
                        3 => v.genesis = foreign,
                        4 => v.epoch = validator::EpochNumber(v.epoch.0 + 1),
                        _ => v.number = validator::ViewNumber((v.number.0 as i64 + (arg as i64 - 2)).max(0) as u64),
                    }
                    v
                };
                let inner = match inner {
                    v2::ChonkyMsg::ReplicaCommit(mut c) => {
                        c.view = review(c.view, &f);
                        v2::ChonkyMsg::ReplicaCommit(c)
                    }
                    v2::ChonkyMsg::ReplicaTimeout(mut t) => {
                        t.view = review(t.view, &f);
                        v2::ChonkyMsg::ReplicaTimeout(t)
                    }
                    _ => return None,
                };
                self.sign_as(b, inner)
            }
        };
        Some(self.add_to_pool(msg, true))
    }

    /// Validly signed commit / timeout votes of a Byzantine validator for many distinct future views (C16).
    pub fn flood(&mut self, byz_sel: usize, timeouts: bool, from_view: u64, count: u64) -> Vec<usize> {
        let ids = self.byz_ids();
        if ids.is_empty() {
            return vec![];
        }
        let b = ids[byz_sel % ids.len()];
        let mut out = vec![];
        for v in from_view..from_view + count {
            let m = if timeouts {
                v2::ChonkyMsg::ReplicaTimeout(v2::ReplicaTimeout { view: self.committee.view(v), high_vote: None, high_qc: None })
            } else {
                v2::ChonkyMsg::ReplicaCommit(v2::ReplicaCommit { view: self.committee.view(v), proposal: v2::BlockHeader { number: validator::BlockNumber(v), payload: Payload(vec![v as u8, b as u8]).hash() } })
            };
            let s = self.sign_as(b, m);
            out.push(self.add_to_pool(s, true));
        }
        out
    }
}
