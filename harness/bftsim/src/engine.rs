//! `SimEngine`: the harness' implementation of `EngineInterface` (the execution layer / storage).
//! This is where persistence lag, side-channel persistence, pruning, crashes inside durable writes
//! and payload validity are injected; everything above it (EngineManager, replica) is real code.
use std::{
    collections::{BTreeMap, VecDeque},
    sync::{Arc, Mutex},
};

use zksync_concurrency::{ctx, sync};
use zksync_consensus_engine::{BlockStoreState, EngineInterface, Last, Transaction};
use zksync_consensus_roles::validator::{self, Block, BlockNumber, Payload, ReplicaState};

/// One `queue_next_block` call.
#[derive(Debug, Clone, PartialEq)]
pub struct Submission {
    pub number: u64,
    pub payload: Payload,
    /// `persisted().next()` at the time of the call.
    pub durable_next: u64,
    /// Incarnation (restart count) of the node at the time of the call.
    pub incarnation: u32,
}

/// What a crash injected into the k-th `set_state` call does.
#[derive(Debug, Clone, Copy, PartialEq)]
pub struct CrashPoint {
    /// 0-based index of the `set_state` call (counted over the node's whole life).
    pub call: u64,
    /// Whether the write reaches the disk before the crash.
    pub applied: bool,
}

#[derive(Debug)]
pub struct St {
    pub genesis: validator::Genesis,
    pub blocks: BTreeMap<u64, Block>,
    pub first: u64,
    pub state: ReplicaState,
    pub pending: VecDeque<Block>,
    /// Deferred persistence: accepted blocks become durable only on `persist()`.
    pub defer: bool,
    pub submissions: Vec<Submission>,
    pub incarnation: u32,
    pub set_state_calls: u64,
    pub set_state_log: Vec<(u64, ReplicaState, bool)>,
    pub crash: Option<CrashPoint>,
    pub crashed: bool,
    /// Payloads the execution layer refuses: first byte == 0xBD.
    pub reject_marked_payloads: bool,
    /// Size of proposed payloads.
    pub propose_size: usize,
    /// Valid pre-genesis justification for block n is `[n as u8; 3]`.
    pub pregenesis: bool,
    /// Tag mixed into proposed payloads (node index and incarnation).
    pub tag: u8,
}

#[derive(Debug, Clone)]
pub struct SimEngine {
    pub st: Arc<Mutex<St>>,
    persisted: Arc<sync::watch::Sender<BlockStoreState>>,
    /// Payload budget: when present, `propose_payload` waits (like a payload manager waiting for transactions or
    /// for the block time) until the harness grants a permit. `None` = a payload is always available.
    pub proposals: Option<Arc<tokio::sync::Semaphore>>,
}

fn store_state(first: u64, blocks: &BTreeMap<u64, Block>) -> BlockStoreState {
    BlockStoreState {
        first: BlockNumber(first),
        last: blocks.values().next_back().filter(|b| b.number().0 >= first).map(Last::from),
    }
}

impl SimEngine {
    pub fn new(genesis: validator::Genesis, first: u64) -> Self {
        let st = St {
            genesis,
            blocks: BTreeMap::new(),
            first,
            state: ReplicaState::default(),
            pending: VecDeque::new(),
            defer: false,
            submissions: vec![],
            incarnation: 0,
            set_state_calls: 0,
            set_state_log: vec![],
            crash: None,
            crashed: false,
            reject_marked_payloads: true,
            propose_size: 8,
            pregenesis: true,
            tag: 0,
        };
        let persisted = Arc::new(sync::watch::channel(store_state(first, &st.blocks)).0);
        Self { st: Arc::new(Mutex::new(st)), persisted, proposals: None }
    }

    fn publish(&self, st: &St) {
        self.persisted.send_replace(store_state(st.first, &st.blocks));
    }

    /// Makes up to `k` accepted-but-pending blocks durable. Returns how many were applied.
    pub fn persist(&self, k: usize) -> usize {
        let mut st = self.st.lock().unwrap();
        let mut n = 0;
        while n < k {
            let Some(b) = st.pending.pop_front() else { break };
            // storage keeps a contiguous chain: a pending block that no longer extends it is dropped
            let next = st.blocks.keys().next_back().map(|x| x + 1).unwrap_or(st.first);
            if b.number().0 == next {
                st.blocks.insert(b.number().0, b);
            }
            n += 1;
        }
        self.publish(&st);
        n
    }

    /// Side channel: storage receives `blocks` (contiguous, extending the durable chain) without the manager.
    pub fn side_append(&self, blocks: impl IntoIterator<Item = Block>) {
        let mut st = self.st.lock().unwrap();
        for b in blocks {
            let next = st.blocks.keys().next_back().map(|x| x + 1).unwrap_or(st.first);
            if b.number().0 == next {
                st.blocks.insert(next, b);
            }
        }
        self.publish(&st);
    }

    /// Prunes durable blocks below `to` (never beyond the durable head).
    pub fn prune(&self, to: u64) {
        let mut st = self.st.lock().unwrap();
        let head_next = st.blocks.keys().next_back().map(|x| x + 1).unwrap_or(st.first);
        let to = to.min(head_next);
        if to > st.first {
            st.first = to;
            st.blocks.retain(|n, _| *n >= to);
        }
        self.publish(&st);
    }

    /// Process restart: everything not durable is lost.
    pub fn restart(&self) {
        let mut st = self.st.lock().unwrap();
        st.pending.clear();
        st.incarnation += 1;
        st.crashed = false;
        st.crash = None;
        self.publish(&st);
    }

    pub fn durable_next(&self) -> u64 {
        let st = self.st.lock().unwrap();
        st.blocks.keys().next_back().map(|x| x + 1).unwrap_or(st.first)
    }

    /// Deterministic payload proposed for block `n` by the node with this tag.
    pub fn payload_for(n: u64, tag: u8, size: usize) -> Payload {
        let mut v = vec![0xA0, tag];
        v.extend(n.to_le_bytes());
        v.resize(size.max(10), tag);
        Payload(v)
    }
}

#[async_trait::async_trait]
impl EngineInterface for SimEngine {
    async fn genesis(&self, _ctx: &ctx::Ctx) -> ctx::Result<validator::Genesis> {
        Ok(self.st.lock().unwrap().genesis.clone())
    }

    async fn get_validator_schedule(&self, _ctx: &ctx::Ctx, _number: BlockNumber) -> ctx::Result<(validator::Schedule, BlockNumber)> {
        let st = self.st.lock().unwrap();
        Ok((st.genesis.validators_schedule.clone().unwrap(), st.genesis.first_block))
    }

    async fn get_pending_validator_schedule(&self, _ctx: &ctx::Ctx, _number: BlockNumber) -> ctx::Result<Option<(validator::Schedule, BlockNumber)>> {
        Ok(None)
    }

    fn persisted(&self) -> sync::watch::Receiver<BlockStoreState> {
        self.persisted.subscribe()
    }

    async fn get_block(&self, _ctx: &ctx::Ctx, number: BlockNumber) -> ctx::Result<Block> {
        let st = self.st.lock().unwrap();
        st.blocks.get(&number.0).cloned().ok_or_else(|| anyhow::format_err!("block {number} not in storage").into())
    }

    async fn queue_next_block(&self, _ctx: &ctx::Ctx, block: Block) -> ctx::Result<()> {
        let mut st = self.st.lock().unwrap();
        if st.crashed {
            return Err(anyhow::format_err!("node crashed").into());
        }
        let durable_next = st.blocks.keys().next_back().map(|x| x + 1).unwrap_or(st.first);
        let incarnation = st.incarnation;
        st.submissions.push(Submission { number: block.number().0, payload: block.payload().clone(), durable_next, incarnation });
        if st.defer {
            st.pending.push_back(block);
        } else {
            if block.number().0 == durable_next {
                st.blocks.insert(durable_next, block);
            }
            self.publish(&st);
        }
        Ok(())
    }

    async fn verify_pregenesis_block(&self, _ctx: &ctx::Ctx, block: &validator::PreGenesisBlock) -> ctx::Result<()> {
        if block.justification.0 == vec![block.number.0 as u8; 3] {
            Ok(())
        } else {
            Err(anyhow::format_err!("bad pre-genesis justification").into())
        }
    }

    async fn verify_payload(&self, _ctx: &ctx::Ctx, _number: BlockNumber, payload: &Payload) -> ctx::Result<()> {
        let st = self.st.lock().unwrap();
        if st.reject_marked_payloads && payload.0.first() == Some(&0xBD) {
            return Err(anyhow::format_err!("execution layer rejects this payload").into());
        }
        Ok(())
    }

    async fn propose_payload(&self, ctx: &ctx::Ctx, number: BlockNumber) -> ctx::Result<Payload> {
        if let Some(sem) = &self.proposals {
            match ctx.wait(sem.acquire()).await {
                Ok(Ok(permit)) => permit.forget(),
                Ok(Err(_)) => return Err(anyhow::format_err!("payload budget closed").into()),
                Err(ctx::Canceled) => return Err(ctx::Canceled.into()),
            }
        }
        let st = self.st.lock().unwrap();
        Ok(Self::payload_for(number.0, st.tag, st.propose_size))
    }

    async fn get_state(&self, _ctx: &ctx::Ctx) -> ctx::Result<ReplicaState> {
        Ok(self.st.lock().unwrap().state.clone())
    }

    async fn set_state(&self, _ctx: &ctx::Ctx, state: &ReplicaState) -> ctx::Result<()> {
        let mut st = self.st.lock().unwrap();
        if st.crashed {
            return Err(anyhow::format_err!("node crashed").into());
        }
        let k = st.set_state_calls;
        st.set_state_calls += 1;
        if let Some(c) = st.crash {
            if c.call == k {
                if c.applied {
                    st.state = state.clone();
                }
                st.set_state_log.push((k, state.clone(), c.applied));
                st.crashed = true;
                return Err(anyhow::format_err!("crash injected into durable write {k}").into());
            }
        }
        st.state = state.clone();
        st.set_state_log.push((k, state.clone(), true));
        Ok(())
    }

    async fn push_tx(&self, _ctx: &ctx::Ctx, _tx: Transaction) -> ctx::Result<bool> {
        Ok(false)
    }
}
