//! The simulator-based properties: shared case runner plus one entry per property.
use common::{det, run_proptest, Choices, Env, Mode, PartOpts, PartReport, Stats};
use proptest::prelude::*;

use crate::{
    act::{apply, check_monitors, gen_case, sim_cfg, summarize, Monitors, Profile, RunInfo, SimCase},
    sim::World,
};

pub struct Run {
    pub info: RunInfo,
    pub result: Result<(), String>,
}

/// Executes a case with the given monitors checked after every action.
pub fn run_case(case: &SimCase, mon: Monitors) -> Run {
    det::run(|| async {
        let mut info = RunInfo::default();
        let mut w = match World::new(sim_cfg(case)).await {
            Ok(w) => w,
            Err(e) => return Run { info, result: Err(format!("harness: {e}")) },
        };
        if mon.model {
            // the boot steps (view-0 timer) happened before the bank existed; models start from the next step's snapshot
            w.model = Some(Default::default());
        }
        let mut result = check_monitors(&w, &mon, 0);
        let mut checked = w.steps.len();
        if result.is_ok() {
            for (k, a) in case.actions.iter().enumerate() {
                if let Err(e) = apply(&mut w, a, &mut info).await {
                    result = Err(format!("harness: action {k} {a:?}: {e}"));
                    break;
                }
                if std::env::var("VERIF_TRACE").is_ok() {
                    eprintln!("== action {k} {a:?}");
                    for r in &w.steps[checked..] {
                        let what = match &r.input {
                            crate::sim::Input::Msg(m) => format!("msg {m} {:?}(view {}) from {:?}", crate::sim::kind_of(&w.pool[*m].msg), crate::sim::view_of(&w.pool[*m].msg), w.pool[*m].from),
                            x => format!("{x:?}"),
                        };
                        eprintln!("   node {} {what} -> {:?}; view {} {:?} -> view {} {:?}; emitted {:?}", r.node, r.out, r.before.view.0, r.before.phase, r.after.view.0, r.after.phase, r.emitted);
                    }
                    eprintln!("   committed: {:?}", w.correct().iter().map(|i| (*i, w.committed(*i).len())).collect::<Vec<_>>());
                    for i in w.correct() {
                        if let Some(sn) = w.node(i).snapshot() {
                            let short = |h: &zksync_consensus_roles::validator::PayloadHash| format!("{h:?}").chars().rev().take(6).collect::<String>();
                            eprintln!(
                                "   node {i}: high_vote {:?} high_commit_qc {:?} cached {:?}",
                                sn.high_vote.as_ref().map(|v| (v.view.number.0, v.proposal.number.0, short(&v.proposal.payload))),
                                sn.high_commit_qc.as_ref().map(|q| (q.message.view.number.0, q.message.proposal.number.0, short(&q.message.proposal.payload))),
                                sn.cached.iter().map(|(n, h)| (n.0, short(h))).collect::<Vec<_>>()
                            );
                        }
                    }
                    for (m, p) in w.pool.iter().enumerate().skip(w.trace_pool_seen.get()) {
                        if let zksync_consensus_roles::validator::ConsensusMsg::V2(zksync_consensus_roles::validator::v2::ChonkyMsg::LeaderProposal(lp)) = &p.msg.msg {
                            let (n, forced) = lp.justification.get_implied_block(&w.committee.schedule, w.first_block());
                            eprintln!("   pool {m}: proposal view {} from {:?} crafted {} payload {} implied block {} forced {}", crate::sim::view_of(&p.msg), p.from, p.crafted, lp.proposal_payload.is_some(), n.0, forced.is_some());
                        }
                    }
                    w.trace_pool_seen.set(w.pool.len());
                }
                if let Err(e) = check_monitors(&w, &mon, checked) {
                    result = Err(format!("after action {k} {a:?}: {e}"));
                    break;
                }
                checked = w.steps.len();
            }
        }
        summarize(&w, &mut info);
        if let Some(b) = &w.model {
            info.model_compared = b.compared;
        }
        w.shutdown().await;
        Run { info, result }
    })
}

fn record(st: &mut Stats, info: &RunInfo) {
    st.max("max_view_reached", info.max_view);
    st.max("max_blocks_committed", info.max_committed as u64);
    st.count("replica_steps", info.steps as u64);
    if info.timeout_qc_formed {
        st.class("timeout_certificate_formed");
    }
    if info.equivocation_delivered {
        st.class("equivocating_proposals_accepted_by_two_nodes");
    }
    if info.hidden_qc {
        st.class("certificate_formed_but_withheld");
    }
    if info.crashes + info.restarts > 0 {
        st.class("crash_or_restart");
    }
    if info.reproposals_accepted > 0 {
        st.class("reproposal_accepted");
    }
    if info.lost > 0 {
        st.class("messages_lost_in_flight");
    }
    if info.served_blocks > 0 {
        st.class("block_served_by_byzantine_peer");
    }
    if info.min_committed >= 2 {
        st.class("all_nodes_committed_2+");
    }
}

fn sample(case: &SimCase, info: &RunInfo) -> serde_json::Value {
    serde_json::json!({
        "committee": {"weights": case.weights, "byzantine": case.byz},
        "actions": case.actions.iter().take(12).collect::<Vec<_>>(),
        "n_actions": case.actions.len(),
        "steps": info.steps, "max_view": info.max_view, "committed": [info.min_committed, info.max_committed],
    })
}

// ---------------------------------------------------------------------------------------------
// C01 agreement (with the cause-level monitors of C02b / C03 on the same runs)

fn c01_check(case: &SimCase, st: &mut Stats) -> Result<(), String> {
    let run = run_case(case, Monitors { agreement: true, ..Default::default() });
    record(st, &run.info);
    let i = &run.info;
    if i.min_committed >= 2 && (i.timeout_qc_formed || i.equivocation_delivered || i.hidden_qc || i.crashes + i.restarts > 0 || i.reproposals_accepted > 0) {
        st.nontrivial(common::fingerprint(&(&case.weights, &case.byz, &case.actions)));
    }
    st.sample(|| sample(case, i));
    run.result
}


// ---------------------------------------------------------------------------------------------
// Whole-replica run-loop part (runloop.rs), shared by C01 / C03 / C06 with one oracle each

fn run_loop_part(env: &Env, oracle: crate::runloop::Oracle, oracle_text: &str, cases: u64) -> Vec<PartReport> {
    use crate::runloop::{check, gen_case as gen_loop, LoopCase, DESCRIPTION};
    let quick = matches!(env.tier, common::Tier::Quick);
    let mut parts: Vec<PartReport> = vec![];
    parts.extend(common::run_regress::<LoopCase>(env, "run_loop", move |c, st| check(c, st, oracle)));
    parts.push(run_proptest(
        env,
        "run_loop",
        &format!("{DESCRIPTION}; oracle: {oracle_text}. Non-trivial = the prefix reached view 2, a block was committed and the prefix lost copies or restarted a node (or a node was down at heal time)"),
        PartOpts { cases, max_shrink_iters: 60, samples: 2 },
        move || Choices::strategy(400).prop_map(move |mut ch| gen_loop(&mut ch, quick)),
        move |c, st| check(c, st, oracle),
    ));
    parts
}

fn replay_run_loop(env: &Env, path: &std::path::Path, oracle: crate::runloop::Oracle) -> Option<i32> {
    let (part, case) = Env::read_replay(path);
    if part.starts_with("run_loop") {
        return Some(env.finish_replay(path, common::replay_case::<crate::runloop::LoopCase>(case, move |c, st| crate::runloop::check(c, st, oracle))));
    }
    None
}

const BYZ: Profile = Profile { max_n: 7, byzantine: true, crashes: true, floods: false, absurd: false, variants: false, len: 40 };
const CRASHY: Profile = Profile { max_n: 5, byzantine: false, crashes: true, floods: false, absurd: false, variants: false, len: 50 };

pub fn c01(env: &Env) -> i32 {
    if let Mode::Replay(path) = env.mode() {
        if let Some(code) = replay_run_loop(env, &path, crate::runloop::Oracle::Agreement) {
            return code;
        }
        let (_, case) = Env::read_replay(&path);
        return env.finish_replay(&path, common::replay_case::<SimCase>(case, c01_check));
    }
    let mut parts: Vec<PartReport> = vec![];
    parts.extend(common::run_regress::<SimCase>(env, "byzantine", c01_check));
    parts.push(run_proptest(
        env,
        "byzantine",
        "real replicas (6-7 validators, weights {1, 1-2, one heavy}, Byzantine set as heavy as f allows, optional ineligible leaders / weighted leader selection) driven by 4-43 actions: flush (leaders propose, deliver pending messages of chosen kinds to a chosen subset, limited), timers, single (re)deliveries, block sync, crash / restart, deferred persistence, clock advances, \
         and the adversary's tactics: complete-everything (Byzantine commit votes added to every vote, certificates assembled and revealed to few or none), lying timeout votes + assembled timeout certificates, equivocating Byzantine leader; \
         oracle after every action: per block number all payloads handed to the execution layer / stored agree across correct nodes, a node never changes or reorders a committed block. \
         Non-trivial = every correct node committed >= 2 blocks and the run contains a timeout certificate, an accepted equivocation, a withheld certificate, a crash/restart or an accepted re-proposal",
        PartOpts { cases: env.tier.pick(320, 1_600), max_shrink_iters: 60, samples: 2 },
        || Choices::strategy(400).prop_map(|mut ch| gen_case(&mut ch, &BYZ)),
        c01_check,
    ));
    parts.push(run_proptest(
        env,
        "crash_partition",
        "committees of 1-5 correct validators without Byzantine members: partitions (partial flushes), message loss / duplication / reordering, crashes and restarts with deferred persistence, block sync; same oracle",
        PartOpts { cases: env.tier.pick(400, 2_000), max_shrink_iters: 60, samples: 2 },
        || Choices::strategy(400).prop_map(|mut ch| gen_case(&mut ch, &CRASHY)),
        c01_check,
    ));
    parts.extend(run_loop_part(
        env,
        crate::runloop::Oracle::Agreement,
        "after every operation and at the end, per block number every payload any node ever handed to storage or stores is the same, and within one incarnation a node hands blocks over in contiguous increasing order",
        env.tier.pick(96, 800),
    ));
    env.finish(
        "exploration",
        "generated adversarial schedules over the real replica handlers; cause-level monitors (C02, C03, C05) run on the same kind of schedules in their own checks",
        &["at most f weight is Byzantine", "BLS unforgeability: the adversary signs only with Byzantine keys"],
        parts,
    )
}

// ---------------------------------------------------------------------------------------------
// C02 (b) certificate uniqueness over histories

fn c02_check(case: &SimCase, st: &mut Stats) -> Result<(), String> {
    let run = run_case(case, Monitors { uniqueness: true, ..Default::default() });
    record(st, &run.info);
    let i = &run.info;
    if i.max_committed >= 1 && (i.timeout_qc_formed && (i.equivocation_delivered || i.hidden_qc || i.reproposals_accepted > 0)) {
        st.nontrivial(common::fingerprint(&(&case.weights, &case.byz, &case.actions)));
    }
    st.sample(|| sample(case, i));
    run.result
}

pub fn c02(env: &Env) -> i32 {
    if let Mode::Replay(path) = env.mode() {
        let (part, case) = Env::read_replay(&path);
        if part != "history" {
            eprintln!("part {part} belongs to the rolesprop engine");
            return 2;
        }
        return env.finish_replay(&path, common::replay_case::<SimCase>(case, c02_check));
    }
    let mut parts: Vec<PartReport> = vec![];
    parts.extend(common::run_regress::<SimCase>(env, "history", c02_check));
    parts.push(run_proptest(
        env,
        "history",
        "simulator schedules with an active adversary (as C01/byzantine); monitor: certifiable(n,h) := correct weight that signed a commit vote for (n,h) within one view + all Byzantine weight >= n-f; at most one payload per block number is ever certifiable, no correct validator votes for another payload of that number in a later view, and every certificate found anywhere is for the certifiable payload. \
         Non-trivial = a block was committed and the run contains a timeout certificate together with an accepted equivocation, a withheld certificate or an accepted re-proposal",
        PartOpts { cases: env.tier.pick(320, 1_000), max_shrink_iters: 60, samples: 2 },
        || Choices::strategy(400).prop_map(|mut ch| gen_case(&mut ch, &BYZ)),
        c02_check,
    ));
    env.finish(
        "exploration",
        "history-level half of C02 on the simulator; the decision-function half is the rolesprop engine",
        &["at most f weight is Byzantine"],
        parts,
    )
}

// ---------------------------------------------------------------------------------------------
// C03 no vote equivocation across crashes: crash enumeration over every durable-write point

#[derive(Debug, Clone, serde::Serialize, serde::Deserialize, Hash)]
pub struct C03Case {
    sim: SimCase,
    victim: u16,
}

/// Runs `case.sim` with a crash injected into durable write `call` of the victim; after the crash the victim
/// restarts and is offered everything the adversary has (including a second proposal for its views), then the
/// schedule continues. Returns (result, victim had voted before the crash, was offered an old-view proposal).
fn run_with_crash(case: &C03Case, point: Option<crate::engine::CrashPoint>) -> (Result<(), String>, u64, bool, bool) {
    use crate::sim::{kind_of, view_of, Kind};
    let mon = Monitors { equivocation: true, ..Default::default() };
    det::run(|| async {
        let mut info = RunInfo::default();
        let mut w = match World::new(sim_cfg(&case.sim)).await {
            Ok(w) => w,
            Err(e) => return (Err(format!("harness: {e}")), 0, false, false),
        };
        let correct = w.correct();
        let victim = correct[common::pick_index(case.victim, correct.len())];
        if let Some(p) = point {
            w.arm_crash(victim, p);
        }
        let mut result = Ok(());
        let mut checked = 0;
        let mut handled = point.is_none();
        let (mut voted_before, mut offered_old) = (false, false);
        for (k, a) in case.sim.actions.iter().enumerate() {
            if let Err(e) = apply(&mut w, a, &mut info).await {
                result = Err(format!("harness: {e}"));
                break;
            }
            if !handled && !w.node(victim).is_up() && w.node(victim).engine.st.lock().unwrap().set_state_log.iter().any(|l| Some(l.0) == point.map(|p| p.call)) {
                handled = true;
                voted_before = w.pool.iter().any(|p| p.from == Some(victim) && !p.crafted && matches!(kind_of(&p.msg), Kind::Commit | Kind::Timeout));
                let pre_view = w.steps.iter().rev().find(|s| s.node == victim).map(|s| s.after.view.0).unwrap_or(0);
                if let Err(e) = w.restart(victim).await {
                    result = Err(format!("harness: restart: {e}"));
                    break;
                }
                let durable_view = w.node(victim).snapshot().map(|s| s.view.0).unwrap_or(0);
                // adversarial suffix: a second proposal for the newest Byzantine-led view, then everything ever sent for views >= the durable view
                let extra = w.equivocate();
                let mut offer: Vec<usize> = (0..w.pool.len()).filter(|m| view_of(&w.pool[*m].msg) >= durable_view).collect();
                offer.extend(extra);
                // proposals first: they are what could make it vote twice
                offer.sort_by_key(|m| (kind_of(&w.pool[*m].msg) != Kind::Proposal, *m));
                for m in offer {
                    if kind_of(&w.pool[m].msg) == Kind::Proposal && view_of(&w.pool[m].msg) <= pre_view {
                        offered_old = true;
                    }
                    if w.ready(victim) {
                        w.deliver(victim, m, false).await;
                    }
                }
                w.progress().await;
                w.reap().await;
            }
            if let Err(e) = check_monitors(&w, &mon, checked) {
                result = Err(format!("after action {k} {a:?} (crash point {point:?}): {e}"));
                break;
            }
            checked = w.steps.len();
        }
        let writes = w.node(victim).engine.st.lock().unwrap().set_state_calls;
        w.shutdown().await;
        (result, writes, voted_before, offered_old)
    })
}

fn c03_check(case: &C03Case, st: &mut Stats) -> Result<(), String> {
    let (base, writes, _, _) = run_with_crash(case, None);
    base?;
    let writes = writes.min(40);
    st.max("max_durable_write_points", writes);
    // the re-runs of one schedule are independent of each other: four helper threads share them (the shards finish
    // at very different times, so this keeps the cores busy); the verdict is the failure with the lowest crash point among those found before the helpers stopped
    let points: Vec<(u64, bool)> = (0..writes).flat_map(|call| [(call, false), (call, true)]).collect();
    const HELPERS: usize = 4;
    // once a crash point has failed the other helpers stop: the case is a violation whichever point is reported
    let stop = std::sync::atomic::AtomicBool::new(false);
    let stop = &stop;
    let results: Vec<(Stats, u64, Option<(usize, String)>)> = std::thread::scope(|s| {
        let handles: Vec<_> = (0..HELPERS)
            .map(|h| {
                let points = &points;
                s.spawn(move || {
                    let mut st = Stats::new(0);
                    let mut nontrivial = 0u64;
                    let mut failure = None;
                    for (k, (call, applied)) in points.iter().copied().enumerate().filter(|(k, _)| k % HELPERS == h) {
                        if stop.load(std::sync::atomic::Ordering::Relaxed) {
                            break;
                        }
                        st.evaluations += 1;
                        let out = common::guard(|| {
                            let (r, _, voted, offered) = run_with_crash(case, Some(crate::engine::CrashPoint { call, applied }));
                            r.map(|()| (voted, offered))
                        });
                        match out {
                            Ok((voted, offered)) => {
                                st.class(if applied { "crash_after_write_applied" } else { "crash_with_write_lost" });
                                if voted && offered {
                                    nontrivial += 1;
                                    st.nontrivial(common::fingerprint(&(&case.sim.weights, &case.sim.byz, &case.sim.actions, case.victim, call, applied)));
                                }
                            }
                            Err(e) => {
                                failure = Some((k, e));
                                stop.store(true, std::sync::atomic::Ordering::Relaxed);
                                break;
                            }
                        }
                    }
                    (st, nontrivial, failure)
                })
            })
            .collect();
        handles.into_iter().map(|h| h.join().unwrap_or_else(|_| (Stats::new(0), 0, Some((0, "harness: a helper thread of the crash-point enumeration panicked".to_string()))))).collect()
    });
    let mut nontrivial = 0;
    let mut first_failure: Option<(usize, String)> = None;
    for (s2, n, f) in results {
        st.merge(s2);
        nontrivial += n;
        if let Some((k, e)) = f {
            if first_failure.as_ref().is_none_or(|(k0, _)| k < *k0) {
                first_failure = Some((k, e));
            }
        }
    }
    if let Some((_, e)) = first_failure {
        return Err(e);
    }
    st.count("crash_points_with_prior_votes_and_old_view_offer", nontrivial);
    st.sample(|| serde_json::json!({"schedule": sample(&case.sim, &RunInfo::default()), "victim": case.victim, "durable_write_points": writes}));
    Ok(())
}

const EQUIV: Profile = Profile { max_n: 6, byzantine: true, crashes: false, floods: false, absurd: false, variants: false, len: 14 };
const EQUIV_SMALL: Profile = Profile { max_n: 4, byzantine: false, crashes: false, floods: false, absurd: false, variants: false, len: 16 };

pub fn c03(env: &Env) -> i32 {
    if let Mode::Replay(path) = env.mode() {
        if let Some(code) = replay_run_loop(env, &path, crate::runloop::Oracle::Votes) {
            return code;
        }
        let (_, case) = Env::read_replay(&path);
        return env.finish_replay(&path, common::replay_case::<C03Case>(case, c03_check));
    }
    let mut parts: Vec<PartReport> = vec![];
    parts.extend(common::run_regress::<C03Case>(env, "crash_points", c03_check));
    for (name, profile, cases) in [("crash_points", EQUIV, env.tier.pick(24u64, 600)), ("crash_points_small", EQUIV_SMALL, env.tier.pick(48, 110))] {
        parts.push(run_proptest(
            env,
            name,
            "a base schedule (equivocating Byzantine leader, replays, timers, partial deliveries; 4-19 actions) is executed once to count the durable state writes W of a chosen correct victim; then for EVERY write k < W and both outcomes {write lost, write applied} the schedule is re-run with a crash inside write k, \
             the victim restarts from its durable state and is offered a second proposal for the newest Byzantine-led view plus every message ever sent for views >= its durable view (proposals first), after which the schedule continues; \
             oracle over all messages signed with a correct key, in emission order: no two different commit votes in one view, no commit vote for a view at or below an earlier timeout vote, vote views never decrease; and after every step the durable state already records every vote sent in it (persist-then-send). \
             Each re-run counts as one evaluation. Non-trivial = the victim had voted before the crash and was afterwards offered a proposal for a view <= its pre-crash view",
            PartOpts { cases, max_shrink_iters: 20, samples: 2 },
            move || (Choices::strategy(300), any::<u16>()).prop_map(move |(mut ch, victim)| C03Case { sim: gen_case(&mut ch, &profile), victim }),
            c03_check,
        ));
    }
    parts.extend(run_loop_part(
        env,
        crate::runloop::Oracle::Votes,
        "over everything each key ever put on the wire (all incarnations, in emission order): no two different commit votes per view, no commit vote at or below an earlier timeout vote, vote views never decrease; and every vote taken from a node's outbound channel is already recorded by that node's durable replica state (crashes here are sampled by the generator, not enumerated)",
        env.tier.pick(96, 800),
    ));
    env.finish(
        "fault_enumeration",
        "every durable-write point x {lost, applied} of each generated schedule; the schedules themselves are sampled",
        &["a crash loses exactly what is not in durable state; messages already handed to the network count as sent"],
        parts,
    )
}

// ---------------------------------------------------------------------------------------------
// C05 view changes justified / monotone / self-justifying (model-free invariants)

fn c05_check(case: &SimCase, st: &mut Stats) -> Result<(), String> {
    let run = run_case(case, Monitors { step_invariants: true, model: true, ..Default::default() });
    record(st, &run.info);
    let i = &run.info;
    st.count("steps_compared_with_reference_model", i.model_compared);
    st.count("deep_accepted_state_changes", i.accepted_deep as u64);
    st.count("deep_rejections", i.rejected_deep as u64);
    for k in &i.kinds_matrix {
        st.class(&format!("matrix:{k}"));
    }
    if i.accepted_deep + i.rejected_deep > 0 {
        st.nontrivial(common::fingerprint(&(&case.weights, &case.byz, &case.actions)));
    }
    st.sample(|| sample(case, i));
    run.result
}

const MUTATED: Profile = Profile { max_n: 7, byzantine: true, crashes: true, floods: false, absurd: false, variants: true, len: 40 };

pub fn c05(env: &Env) -> i32 {
    if let Mode::Replay(path) = env.mode() {
        let (_, case) = Env::read_replay(&path);
        return env.finish_replay(&path, common::replay_case::<SimCase>(case, c05_check));
    }
    let mut parts: Vec<PartReport> = vec![];
    parts.extend(common::run_regress::<SimCase>(env, "invariants", c05_check));
    parts.push(run_proptest(
        env,
        "invariants",
        "simulator schedules (as C01) plus an input mutator: any pool message may be delivered as a variant (re-signed by a Byzantine validator = wrong author/leader, signed by a non-member, foreign signature, other genesis, other epoch, view shifted by -2..+3), stale and future-view replays come from the pool itself; \
         oracle after every replica step: view and both highest certificates never decrease; every view change a->b is justified by the input of that step (a proposal / new-view whose justification verifies and has view b, or a vote completing a quorum for view b-1 among what this incarnation was given); adopted certificates verify in isolation; \
         a rejected input changes nothing and emits nothing; every emitted new-view / proposal verifies in isolation and carries the higher of the two held certificates (commit on tie); proposals come only from the view's leader with payload presence matching the justification; timeout votes carry exactly view, high vote and high certificate; commit votes equal the recorded high vote; a timer always yields a timeout vote (and a new-view beyond view 0). \
         Non-trivial = an accepted state-changing step or a rejection at view >= 3; the (phase x kind x relative view x outcome) matrix is in the class histogram",
        PartOpts { cases: env.tier.pick(320, 1_000), max_shrink_iters: 60, samples: 2 },
        || Choices::strategy(400).prop_map(|mut ch| gen_case(&mut ch, &MUTATED)),
        c05_check,
    ));
    parts.push(run_proptest(
        env,
        "invariants_small",
        "same oracle on committees of 1-5 correct validators with crashes, restarts and partitions",
        PartOpts { cases: env.tier.pick(320, 1_000), max_shrink_iters: 60, samples: 1 },
        || Choices::strategy(400).prop_map(|mut ch| gen_case(&mut ch, &Profile { variants: true, ..CRASHY })),
        c05_check,
    ));
    env.finish(
        "exploration",
        "model-free history invariants on the real handlers; see DESIGN.md for the status of the reference-model oracle",
        &["BLS unforgeability", "certificate verification itself is judged by C04"],
        parts,
    )
}

// ---------------------------------------------------------------------------------------------
// C16 (b) bounded bookkeeping under floods, and C10 layer 6 (absurd but validly signed messages)

fn c16b_check(case: &SimCase, st: &mut Stats) -> Result<(), String> {
    let run = run_case(case, Monitors { caches: true, ..Default::default() });
    record(st, &run.info);
    st.max("max_flood_messages", run.info.flood_msgs as u64);
    if run.info.flood_msgs >= 50 {
        st.nontrivial(common::fingerprint(&(&case.weights, &case.byz, &case.actions)));
    }
    st.sample(|| sample(case, &run.info));
    run.result
}

pub const FLOOD: Profile = Profile { max_n: 7, byzantine: true, crashes: false, floods: true, absurd: false, variants: false, len: 30 };
pub const ABSURD: Profile = Profile { max_n: 7, byzantine: true, crashes: false, floods: true, absurd: true, variants: true, len: 30 };

pub fn flood_part(env: &Env) -> PartReport {
    // floods are made frequent: a third of all actions
    run_proptest(
        env,
        "replica_caches",
        "simulator schedules in which Byzantine validators flood correct replicas with validly signed commit / timeout votes for 3-60 distinct future views per burst (starting at view 0, 5 or 1000), interleaved with normal operation; oracle after every step, n = committee size: both latest-vote maps <= n entries, partial certificates kept for <= n views, <= n^2 accumulators / timeout messages in total. Non-trivial = >= 50 flood messages delivered",
        PartOpts { cases: env.tier.pick(200, 400), max_shrink_iters: 40, samples: 2 },
        || {
            Choices::strategy(400).prop_map(|mut ch| {
                let mut c = gen_case(&mut ch, &FLOOD);
                let extra: Vec<crate::act::Action> = (0..c.actions.len() / 2)
                    .map(|_| crate::act::Action::Flood { byz: ch.below(4) as u8, timeouts: ch.bool(), from_view: ch.pick(&[0u32, 5, 1000]), count: ch.pick(&[20u16, 60]), to: u16::MAX })
                    .collect();
                for (k, a) in extra.into_iter().enumerate() {
                    let at = (2 * k + 1).min(c.actions.len());
                    c.actions.insert(at, a);
                }
                c
            })
        },
        c16b_check,
    )
}

fn absurd_check(case: &SimCase, st: &mut Stats) -> Result<(), String> {
    // only the driver's own panic / internal-error detection is the oracle here
    let run = run_case(case, Monitors::default());
    record(st, &run.info);
    if run.info.absurd_msgs > 0 {
        st.nontrivial(common::fingerprint(&(&case.weights, &case.byz, &case.actions)));
    }
    st.sample(|| sample(case, &run.info));
    run.result
}

pub fn c10_handlers(env: &Env) -> i32 {
    // a process death (abort inside a scope task, stack overflow, ...) while a case runs is a violation of C10 with that case as the replay
    common::crashdump::arm(&env.property);
    if let Mode::Replay(path) = env.mode() {
        let (part, case) = Env::read_replay(&path);
        if part != "handlers" {
            eprintln!("part {part} belongs to the netprop engine");
            return 2;
        }
        return env.finish_replay(&path, common::replay_case::<SimCase>(case, absurd_check));
    }
    let mut parts: Vec<PartReport> = vec![];
    parts.extend(common::run_regress::<SimCase>(env, "handlers", absurd_check));
    parts.push(run_proptest(
        env,
        "handlers",
        "L6: real replica handlers fed validly signed but absurd messages from a Byzantine validator (view / block number u64::MAX, empty and 100000-bit signer maps, a timeout certificate with 1000 empty groups, certificates for other views), floods and message variants, interleaved with normal operation; oracle: no handler panics or returns an internal error. Non-trivial = absurd messages were delivered",
        PartOpts { cases: env.tier.pick(160, 1_200), max_shrink_iters: 40, samples: 2 },
        || {
            Choices::strategy(400).prop_map(|mut ch| {
                let mut c = gen_case(&mut ch, &ABSURD);
                for k in 0..3 {
                    let at = (3 * k + 2).min(c.actions.len());
                    c.actions.insert(at, crate::act::Action::Absurd { kind: ch.below(6) as u8, to: u16::MAX });
                }
                c
            })
        },
        absurd_check,
    ));
    env.finish("exploration", "consensus-handler layer of C10 (merged with the netprop layers)", &["a caught panic equals a process abort"], parts)
}

// ---------------------------------------------------------------------------------------------
// C06 progress after the network heals

/// The fair synchronous suffix: a fixed rule, not generated. Returns Err on a violation.
async fn fair_suffix(w: &mut World, info: &mut RunInfo, st: &mut Stats, order: u8) -> Result<(), String> {
    st.class(match order {
        0 => "suffix_delivers_in_pool_order",
        1 => "suffix_delivers_newest_first",
        _ => "suffix_delivers_proposals_first",
    });
    use crate::act::{Action, KIND_ALL};
    // heal: every correct node is up and persistence is immediate
    for i in w.correct() {
        if !w.node(i).is_up() {
            w.restart(i).await?;
        }
        w.node(i).engine.st.lock().unwrap().defer = false;
        w.node(i).engine.persist(usize::MAX);
    }
    w.progress().await;
    let heights = |w: &World| -> Vec<u64> { w.correct().iter().map(|i| w.node(*i).engine.durable_next()).collect() };
    let views = |w: &World| -> Vec<u64> { w.correct().iter().filter_map(|i| w.node(*i).snapshot().map(|s| s.view.0)).collect() };
    let h0 = heights(w);
    let target = *h0.iter().max().unwrap();
    let v0 = *views(w).iter().max().unwrap_or(&0);
    let distinct_views = views(w).iter().collect::<std::collections::BTreeSet<_>>().len();
    let distinct_heights = h0.iter().collect::<std::collections::BTreeSet<_>>().len();
    if distinct_views >= 2 || distinct_heights >= 2 {
        st.class("nodes_diverged_at_heal");
    }
    let mut correct_leader_views = 0u64;
    let mut seen_view = v0;
    let mut idle_rounds = 0;
    for round in 0..200 {
        let before = (w.steps.len(), w.pool.len(), heights(w));
        // reliable delivery among correct nodes + block fetching; the network is reliable, not FIFO: per run, pending
        // messages arrive in pool order, newest first, or proposals first
        if order == 0 {
            apply(w, &Action::Flush { mask: u16::MAX, kinds: KIND_ALL, limit: 10_000, rounds: 1 }, info).await?;
        } else {
            for i in w.correct() {
                if w.ready(i) {
                    w.propose(i).await;
                }
            }
            for i in w.correct() {
                let mut pending: Vec<usize> = (0..w.pool.len()).filter(|m| !w.node(i).delivered.contains(m)).collect();
                if order == 1 {
                    pending.reverse();
                } else {
                    pending.sort_by_key(|m| (crate::sim::kind_of(&w.pool[*m].msg) != crate::sim::Kind::Proposal, *m));
                }
                for m in pending {
                    if w.ready(i) && !w.node(i).delivered.contains(&m) {
                        w.deliver(i, m, false).await;
                    }
                }
                // nodes are served one after the other: a leader that has just entered a view proposes before the
                // nodes served later have caught up, so they may see the proposal of a view before its new-view messages
                w.progress().await;
                for j in w.correct() {
                    if w.ready(j) {
                        w.propose(j).await;
                    }
                }
            }
            w.progress().await;
            w.reap().await;
        }
        let best = w.correct().into_iter().max_by_key(|i| w.node(*i).engine.durable_next()).unwrap();
        for i in w.correct() {
            if i != best {
                w.sync(best, i).await;
            }
        }
        if let Some(e) = w.driver_errors.first() {
            return Err(e.clone());
        }
        let hs = heights(w);
        if hs.iter().all(|h| *h > target) {
            st.max("max_rounds_to_progress", round + 1);
            st.max("max_correct_leader_views_to_progress", correct_leader_views);
            return Ok(());
        }
        let vmax = *views(w).iter().max().unwrap_or(&0);
        while seen_view < vmax {
            seen_view += 1;
            if !w.cfg.byz[w.leader(seen_view)] {
                correct_leader_views += 1;
            }
        }
        if correct_leader_views > 5 {
            return Err(format!(
                "no progress: after healing at heights {h0:?} (views up to {v0}) {correct_leader_views} views with a correct leader have started (now view {vmax}) and the heights are {hs:?}"
            ));
        }
        let after = (w.steps.len(), w.pool.len(), hs);
        if after.1 == before.1 && after.2 == before.2 {
            // nothing new to deliver: time passes and the view timers fire
            idle_rounds += 1;
            if idle_rounds > 60 {
                let status: Vec<String> = w.correct().iter().map(|i| format!("node {i}: {}", w.node(*i).status())).collect();
                return Err(format!("stuck: 60 timeout rounds change nothing (heights {:?}, views {:?}; {})", after.2, views(w), status.join("; ")));
            }
            apply(w, &Action::Timeout { mask: u16::MAX }, info).await?;
        }
    }
    Err(format!("no progress within 200 rounds after healing (heights {:?} -> {:?}, views {:?})", h0, heights(w), views(w)))
}

fn c06_check(case: &SimCase, st: &mut Stats) -> Result<(), String> {
    let r = det::run(|| async {
        let mut info = RunInfo::default();
        let mut w = match World::new(sim_cfg(case)).await {
            Ok(w) => w,
            Err(e) => return (Err(format!("harness: {e}")), info),
        };
        let mut result = Ok(());
        for a in &case.actions {
            if let Err(e) = apply(&mut w, a, &mut info).await {
                result = Err(format!("harness: {e}"));
                break;
            }
        }
        if result.is_ok() {
            if let Some(e) = w.driver_errors.first() {
                result = Err(e.clone());
            }
        }
        let restarted_at_heal = w.correct().iter().any(|i| !w.node(*i).is_up());
        if restarted_at_heal {
            st.class("node_down_at_heal");
        }
        // the fair suffix is about correct validators that stay up: a death armed by the prefix (CrashInWrite) and not
        // yet reached must not strike during it
        for i in w.correct() {
            w.node(i).engine.st.lock().unwrap().crash = None;
        }
        if result.is_ok() {
            // the delivery order of the suffix is a function of the case (so that replays agree)
            let order = (common::fingerprint(&case.actions) % 3) as u8;
            result = fair_suffix(&mut w, &mut info, st, order).await;
        }
        summarize(&w, &mut info);
        w.shutdown().await;
        (result, info)
    });
    record(st, &r.1);
    if st.classes.contains_key("nodes_diverged_at_heal") || st.classes.contains_key("node_down_at_heal") {
        st.nontrivial(common::fingerprint(&(&case.weights, &case.byz, &case.actions)));
    }
    st.sample(|| sample(case, &r.1));
    r.0
}

pub fn c06(env: &Env) -> i32 {
    if let Mode::Replay(path) = env.mode() {
        if let Some(code) = replay_run_loop(env, &path, crate::runloop::Oracle::Progress) {
            return code;
        }
        let (_, case) = Env::read_replay(&path);
        return env.finish_replay(&path, common::replay_case::<SimCase>(case, c06_check));
    }
    let mut parts: Vec<PartReport> = vec![];
    parts.extend(common::run_regress::<SimCase>(env, "heal", c06_check));
    for (name, profile, cases) in [("heal", BYZ, env.tier.pick(200u64, 1_600)), ("heal_small", CRASHY, env.tier.pick(200, 1_600))] {
        parts.push(run_proptest(
            env,
            name,
            "an adversarial prefix (any simulator actions: partitions, drops, replays, crashes, deferred persistence, Byzantine tactics; <= f Byzantine weight) followed by a fair synchronous suffix executed by a fixed rule: every correct node is (re)started, then rounds of {leaders propose, every pending message is delivered among correct nodes, lagging nodes fetch blocks from the most advanced one; if a round delivers nothing new, all view timers fire}; Byzantine validators stay silent; \
             oracle: every correct node's durable height exceeds the maximum height at heal time before more than 5 views with a correct leader have started, and the system is never stuck (60 timer rounds that change nothing). Non-trivial = at heal time the correct nodes are in different views / heights or one is down",
            PartOpts { cases, max_shrink_iters: 40, samples: 2 },
            move || Choices::strategy(400).prop_map(move |mut ch| gen_case(&mut ch, &profile)),
            c06_check,
        ));
    }
    parts.extend(run_loop_part(
        env,
        crate::runloop::Oracle::Progress,
        "after the heal every node that runs makes a new block durable (beyond the highest block any node had at heal time) within 12 view timeouts of virtual time plus one view timeout per view whose leader is silent; a run loop that ends with an error or panics is a failure",
        env.tier.pick(240, 1_200),
    ));
    env.finish(
        "exploration",
        "bounded liveness on a fair suffix after generated adversarial prefixes; 'eventually' under unbounded asynchrony is out of reach of testing",
        &["the suffix models reliable delivery among correct nodes, block fetching and firing view timers", "the bound of 5 correct-leader views (observed maximum 2) was calibrated on the unchanged tree (observed maximum plus margin)"],
        parts,
    )
}

// ---------------------------------------------------------------------------------------------
// C16 pending input bounded, freshest kept: (a) the real input channel against a list model, (b) replica caches

#[derive(Debug, Clone, serde::Serialize, serde::Deserialize, Hash)]
pub enum ChanOp {
    /// Send message: signer, kind 0..4, view, valid signature?
    Send(u8, u8, u8, bool),
    Recv,
}

#[derive(Debug, Clone, serde::Serialize, serde::Deserialize, Hash)]
pub struct ChanCase {
    ops: Vec<ChanOp>,
}

fn chan_msg(signer: u8, kind: u8, view: u8, valid: bool) -> crate::sim::Msg {
    use zksync_consensus_roles::validator::{v2, ConsensusMsg};
    let c = gen::CommitteeSpec::uniform(5).build();
    let header = v2::BlockHeader { number: zksync_consensus_roles::validator::BlockNumber(1), payload: zksync_consensus_roles::validator::Payload(vec![view]).hash() };
    let qc = |v: u64| v2::CommitQC { message: v2::ReplicaCommit { view: c.view(v), proposal: header }, signers: v2::Signers(bit_vec::BitVec::from_elem(5, true)), signature: Default::default() };
    let inner = match kind % 4 {
        0 => v2::ChonkyMsg::ReplicaCommit(v2::ReplicaCommit { view: c.view(view as u64), proposal: header }),
        1 => v2::ChonkyMsg::ReplicaTimeout(v2::ReplicaTimeout { view: c.view(view as u64), high_vote: None, high_qc: None }),
        // the view of a new-view / proposal is its certificate's view + 1
        2 => v2::ChonkyMsg::ReplicaNewView(v2::ReplicaNewView { justification: v2::ProposalJustification::Commit(qc(view as u64)) }),
        _ => v2::ChonkyMsg::LeaderProposal(v2::LeaderProposal { proposal_payload: None, justification: v2::ProposalJustification::Commit(qc(view as u64)) }),
    };
    let mut m = c.keys[signer as usize % 5].sign_msg(ConsensusMsg::V2(inner));
    if !valid {
        m.sig = c.keys[(signer as usize + 1) % 5].sign_msg(ConsensusMsg::V2(v2::ChonkyMsg::ReplicaCommit(v2::ReplicaCommit { view: c.view(99), proposal: header }))).sig;
    }
    m
}

fn c16a_check(case: &ChanCase, st: &mut Stats) -> Result<(), String> {
    det::run(|| async {
        let life = det::Life::new();
        let (send, mut recv) = zksync_consensus_bft::create_input_channel();
        // model: pending messages in arrival order: (signer, kind, view, id)
        let mut model: Vec<(u8, u8, u8, usize)> = vec![];
        let (mut discard_old, mut discard_new, mut tie) = (false, false, false);
        let mut acks = vec![];
        for (i, op) in case.ops.iter().enumerate() {
            match op {
                ChanOp::Send(s, k, v, valid) => {
                    let (s, k) = (*s % 5, *k % 4);
                    let (ack, ack_recv) = zksync_concurrency::oneshot::channel();
                    acks.push(ack_recv);
                    send.send(zksync_consensus_bft::FromNetworkMessage { msg: chan_msg(s, k, *v, *valid), ack });
                    if *valid {
                        match model.iter().position(|m| m.0 == s && m.1 == k) {
                            Some(p) if model[p].2 < *v => {
                                model.remove(p);
                                model.push((s, k, *v, i));
                                discard_old = true;
                            }
                            Some(p) => {
                                if model[p].2 == *v {
                                    tie = true;
                                }
                                discard_new = true;
                            }
                            None => model.push((s, k, *v, i)),
                        }
                    }
                }
                ChanOp::Recv => {
                    let mut fut = Box::pin(recv.recv(&life.ctx));
                    let got = det::until_quiescent(&mut fut).await;
                    drop(fut);
                    match (got, model.first().copied()) {
                        (None, None) => {}
                        (Some(Ok(m)), Some(want)) => {
                            let expect = chan_msg(want.0, want.1, want.2, true);
                            if m.msg != expect {
                                return Err(format!("op {i}: recv returned {:?} view {} from signer key {:?}, the model's head is signer {} kind {} view {}", crate::sim::kind_of(&m.msg), crate::sim::view_of(&m.msg), m.msg.key, want.0, want.1, want.2));
                            }
                            model.remove(0);
                        }
                        (None, Some(want)) => return Err(format!("op {i}: recv blocks although the message of signer {} kind {} view {} is pending", want.0, want.1, want.2)),
                        (Some(Ok(m)), None) => return Err(format!("op {i}: recv returned a {:?} message although nothing valid is pending", crate::sim::kind_of(&m.msg))),
                        (Some(Err(_)), _) => return Err("recv cancelled".into()),
                    }
                }
            }
            // at most one pending message per (sender, kind): implied by the model equality, asserted on the model
            let mut keys: Vec<(u8, u8)> = model.iter().map(|m| (m.0, m.1)).collect();
            keys.sort();
            keys.dedup();
            if keys.len() != model.len() {
                return Err("harness: model holds two messages for one (sender, kind)".into());
            }
        }
        // drain: everything the model still holds must come out, in order, and nothing else
        for want in model.clone() {
            let mut fut = Box::pin(recv.recv(&life.ctx));
            match det::until_quiescent(&mut fut).await {
                Some(Ok(m)) if m.msg == chan_msg(want.0, want.1, want.2, true) => {}
                other => return Err(format!("final drain: expected signer {} kind {} view {}, got {:?}", want.0, want.1, want.2, other.map(|r| r.map(|m| crate::sim::view_of(&m.msg))))),
            }
        }
        let mut fut = Box::pin(recv.recv(&life.ctx));
        if det::until_quiescent(&mut fut).await.is_some() {
            return Err("final drain: the channel holds more messages than the model".into());
        }
        drop(fut);
        if discard_old && discard_new && tie {
            st.class("discard_old+discard_new+tie");
            st.nontrivial(common::fingerprint(case));
        }
        st.sample(|| serde_json::to_value(case).unwrap());
        life.end(Vec::<tokio::task::JoinHandle<()>>::new()).await;
        Ok(())
    })
}

// (a') the same channel under real thread parallelism: several sender threads, no consumer until they are done

#[derive(Debug, Clone, serde::Serialize, serde::Deserialize, Hash)]
pub struct ChanThreadsCase {
    /// Per sender thread: the (signer, kind, view) it sends, in order. All signatures are valid.
    threads: Vec<Vec<(u8, u8, u8)>>,
    /// How many times the whole race is repeated (fresh channel each time).
    reps: u16,
}

fn chan_msg_cached(s: u8, k: u8, v: u8) -> crate::sim::Msg {
    use std::{collections::HashMap, sync::{Mutex, OnceLock}};
    static CACHE: OnceLock<Mutex<HashMap<(u8, u8, u8), crate::sim::Msg>>> = OnceLock::new();
    let c = CACHE.get_or_init(Default::default);
    if let Some(m) = c.lock().unwrap().get(&(s, k, v)) {
        return m.clone();
    }
    let m = chan_msg(s, k, v, true);
    c.lock().unwrap().insert((s, k, v), m.clone());
    m
}

fn c16t_check(case: &ChanThreadsCase, st: &mut Stats) -> Result<(), String> {
    use std::sync::{atomic::{AtomicUsize, Ordering}, Arc};
    // everything a thread sends, pre-signed
    let plans: Vec<Vec<((u8, u8, u8), crate::sim::Msg)>> = case.threads.iter().map(|t| t.iter().map(|(s, k, v)| ((*s % 5, *k % 4, *v), chan_msg_cached(*s % 5, *k % 4, *v))).collect()).collect();
    let mut want: std::collections::BTreeMap<(u8, u8), u8> = Default::default();
    for t in &plans {
        for ((s, k, v), _) in t {
            let e = want.entry((*s, *k)).or_insert(*v);
            *e = (*e).max(*v);
        }
    }
    let contended = {
        let mut per_key: std::collections::BTreeMap<(u8, u8), std::collections::BTreeSet<usize>> = Default::default();
        for (i, t) in plans.iter().enumerate() {
            for ((s, k, _), _) in t {
                per_key.entry((*s, *k)).or_default().insert(i);
            }
        }
        per_key.values().any(|s| s.len() >= 2)
    };
    for rep in 0..case.reps.max(1) {
        let (send, mut recv) = zksync_consensus_bft::create_input_channel();
        let ready = Arc::new(AtomicUsize::new(0));
        let n = plans.len();
        std::thread::scope(|sc| {
            let send = &send;
            for plan in &plans {
                let ready = ready.clone();
                sc.spawn(move || {
                    ready.fetch_add(1, Ordering::SeqCst);
                    while ready.load(Ordering::SeqCst) < n {
                        std::hint::spin_loop();
                    }
                    for (_, m) in plan {
                        let (ack, _ack_recv) = zksync_concurrency::oneshot::channel();
                        send.send(zksync_consensus_bft::FromNetworkMessage { msg: m.clone(), ack });
                    }
                });
            }
        });
        // drain on a deterministic runtime: everything pending, then the channel must be empty
        let got: Vec<crate::sim::Msg> = det::run(|| async {
            let life = det::Life::new();
            let mut out = vec![];
            loop {
                let mut fut = Box::pin(recv.recv(&life.ctx));
                match det::until_quiescent(&mut fut).await {
                    Some(Ok(m)) => out.push(m.msg),
                    _ => break,
                }
            }
            life.end(Vec::<tokio::task::JoinHandle<()>>::new()).await;
            out
        });
        let mut seen: std::collections::BTreeMap<(u8, u8), Vec<u8>> = Default::default();
        for m in &got {
            // identify the message among the planned ones
            let id = plans.iter().flatten().find(|(_, pm)| pm == m).map(|(id, _)| *id);
            let Some((s, k, v)) = id else { return Err(format!("rep {rep}: the channel delivered a message nobody sent")) };
            seen.entry((s, k)).or_default().push(v);
        }
        for ((s, k), max) in &want {
            match seen.get(&(*s, *k)).map(|v| v.as_slice()) {
                Some([v]) if v == max => {}
                Some([v]) => return Err(format!("rep {rep}: after {n} concurrent senders the pending message of signer {s} kind {k} has view {v}; view {max} was sent and must have replaced or pre-empted it")),
                Some(vs) => return Err(format!("rep {rep}: after {n} concurrent senders {} messages of signer {s} kind {k} are pending at once (views {vs:?}); at most one per sender and kind may be", vs.len())),
                None => return Err(format!("rep {rep}: the message of signer {s} kind {k} (view {max}) was lost")),
            }
        }
    }
    if contended {
        st.class("two_threads_send_for_the_same_sender_and_kind");
        st.nontrivial(common::fingerprint(case));
    }
    st.sample(|| serde_json::to_value(case).unwrap());
    Ok(())
}

pub fn c16(env: &Env) -> i32 {
    if let Mode::Replay(path) = env.mode() {
        let (part, case) = Env::read_replay(&path);
        let r = match part.as_str() {
            "input_channel" => common::replay_case::<ChanCase>(case, c16a_check),
            "replica_caches" => common::replay_case::<SimCase>(case, c16b_check),
            "input_channel_threads" => common::replay_case::<ChanThreadsCase>(case, c16t_check),
            p => Err(format!("unknown part {p}")),
        };
        return env.finish_replay(&path, r);
    }
    let mut parts: Vec<PartReport> = vec![];
    parts.extend(common::run_regress::<ChanCase>(env, "input_channel", c16a_check));
    parts.extend(common::run_regress::<SimCase>(env, "replica_caches", c16b_check));
    parts.push(run_proptest(
        env,
        "input_channel",
        "the real create_input_channel() (signature filter + selection function): sequences of 1-60 operations {send(signer of 5, kind of 4, view 0-6 with ties, valid or invalid signature), recv}; oracle: a list model (invalid dropped; same sender+kind pending: strictly newer replaces the older one and queues at the back, otherwise the new one is dropped); every recv equals the model's head, recv blocks iff the model is empty, final drain equals the model. \
         Non-trivial = the sequence contains a discard-old, a discard-new and an equal-view tie",
        PartOpts { cases: env.tier.pick(6_000, 200_000), max_shrink_iters: 2000, samples: 2 },
        || {
            proptest::collection::vec(
                prop_oneof![3 => (0u8..5, 0u8..4, 0u8..7, proptest::bool::weighted(0.85)).prop_map(|(s, k, v, ok)| ChanOp::Send(s, k, v, ok)), 1 => Just(ChanOp::Recv)],
                1..60,
            )
            .prop_map(|ops| ChanCase { ops })
        },
        c16a_check,
    ));
    parts.extend(common::run_regress::<ChanThreadsCase>(env, "input_channel_threads", c16t_check));
    {
        // real threads: the shards run one after the other so that the sender threads of a case really run in parallel
        let mut seq = env.clone_for_part();
        seq.shards = 2;
        parts.push(run_proptest(
            &seq,
            "input_channel_threads",
            "the real input channel with 2-4 sender THREADS released together by a spin barrier, each sending 1-6 validly signed messages drawn from 2 signers x 2 kinds x views 0-9 (so that threads collide on the same sender and kind), no consumer while they run, repeated 25 times per case on a fresh channel; \
             oracle (independent of the interleaving, valid for any linearisable channel): afterwards exactly one message per (sender, kind) is pending and it carries the highest view sent for it. Non-trivial = two threads send for the same (sender, kind)",
            PartOpts { cases: env.tier.pick(300, 900), max_shrink_iters: 60, samples: 2 },
            || {
                proptest::collection::vec(proptest::collection::vec((0u8..2, 0u8..2, 0u8..10), 1..6), 2..=4).prop_map(|threads| ChanThreadsCase { threads, reps: 25 })
            },
            c16t_check,
        ));
    }
    parts.push(flood_part(env));
    env.finish(
        "exploration",
        "model-based test of the input channel (single-threaded against a list model, and under real sender threads against interleaving-independent invariants) and flood schedules on real replicas",
        &["the bound n^2 on inner accumulators is deliberately loose (a stale vote can survive inside the accumulator of a view another validator keeps alive); the flood sends far more than n^2 messages"],
        parts,
    )
}
