//! The simulator-based properties: shared case runner plus one entry per property.
use common::{det, run_proptest, Choices, Env, Mode, PartOpts, PartReport, Stats};
use proptest::prelude::*;

use crate::{
    act::{apply, check_monitors, gen_case, sim_cfg, summarize, Monitors, Profile, RunInfo, SimCase},
    sim::World,
};

pub struct Run {
    pub info: RunInfo,
    pub result: Result<(), String>,
}

/// Executes a case with the given monitors checked after every action.
pub fn run_case(case: &SimCase, mon: Monitors) -> Run {
    det::run(|| async {
        let mut info = RunInfo::default();
        let mut w = match World::new(sim_cfg(case)).await {
            Ok(w) => w,
            Err(e) => return Run { info, result: Err(format!("harness: {e}")) },
        };
        let mut result = check_monitors(&w, &mon, 0);
        let mut checked = w.steps.len();
        if result.is_ok() {
            for (k, a) in case.actions.iter().enumerate() {
                if let Err(e) = apply(&mut w, a, &mut info).await {
                    result = Err(format!("harness: action {k} {a:?}: {e}"));
                    break;
                }
                if let Err(e) = check_monitors(&w, &mon, checked) {
                    result = Err(format!("after action {k} {a:?}: {e}"));
                    break;
                }
                checked = w.steps.len();
            }
        }
        summarize(&w, &mut info);
        w.shutdown().await;
        Run { info, result }
    })
}

fn record(st: &mut Stats, info: &RunInfo) {
    st.max("max_view_reached", info.max_view);
    st.max("max_blocks_committed", info.max_committed as u64);
    st.count("replica_steps", info.steps as u64);
    if info.timeout_qc_formed {
        st.class("timeout_certificate_formed");
    }
    if info.equivocation_delivered {
        st.class("equivocating_proposals_accepted_by_two_nodes");
    }
    if info.hidden_qc {
        st.class("certificate_formed_but_withheld");
    }
    if info.crashes + info.restarts > 0 {
        st.class("crash_or_restart");
    }
    if info.reproposals_accepted > 0 {
        st.class("reproposal_accepted");
    }
    if info.min_committed >= 2 {
        st.class("all_nodes_committed_2+");
    }
}

fn sample(case: &SimCase, info: &RunInfo) -> serde_json::Value {
    serde_json::json!({
        "committee": {"weights": case.weights, "byzantine": case.byz},
        "actions": case.actions.iter().take(12).collect::<Vec<_>>(),
        "n_actions": case.actions.len(),
        "steps": info.steps, "max_view": info.max_view, "committed": [info.min_committed, info.max_committed],
    })
}

// ---------------------------------------------------------------------------------------------
// C01 agreement (with the cause-level monitors of C02b / C03 on the same runs)

fn c01_check(case: &SimCase, st: &mut Stats) -> Result<(), String> {
    let run = run_case(case, Monitors { agreement: true, ..Default::default() });
    record(st, &run.info);
    let i = &run.info;
    if i.min_committed >= 2 && (i.timeout_qc_formed || i.equivocation_delivered || i.hidden_qc || i.crashes + i.restarts > 0 || i.reproposals_accepted > 0) {
        st.nontrivial(common::fingerprint(&(&case.weights, &case.byz, &case.actions)));
    }
    st.sample(|| sample(case, i));
    run.result
}

const BYZ: Profile = Profile { max_n: 7, byzantine: true, crashes: true, floods: false, absurd: false, variants: false, len: 40 };
const CRASHY: Profile = Profile { max_n: 5, byzantine: false, crashes: true, floods: false, absurd: false, variants: false, len: 50 };

pub fn c01(env: &Env) -> i32 {
    if let Mode::Replay(path) = env.mode() {
        let (_, case) = Env::read_replay(&path);
        return env.finish_replay(&path, common::replay_case::<SimCase>(case, c01_check));
    }
    let mut parts: Vec<PartReport> = vec![];
    parts.extend(common::run_regress::<SimCase>(env, "byzantine", c01_check));
    parts.push(run_proptest(
        env,
        "byzantine",
        "real replicas (6-7 validators, weights {1, 1-2, one heavy}, Byzantine set as heavy as f allows, optional ineligible leaders / weighted leader selection) driven by 4-43 actions: flush (leaders propose, deliver pending messages of chosen kinds to a chosen subset, limited), timers, single (re)deliveries, block sync, crash / restart, deferred persistence, clock advances, \
         and the adversary's tactics: complete-everything (Byzantine commit votes added to every vote, certificates assembled and revealed to few or none), lying timeout votes + assembled timeout certificates, equivocating Byzantine leader; \
         oracle after every action: per block number all payloads handed to the execution layer / stored agree across correct nodes, a node never changes or reorders a committed block. \
         Non-trivial = every correct node committed >= 2 blocks and the run contains a timeout certificate, an accepted equivocation, a withheld certificate, a crash/restart or an accepted re-proposal",
        PartOpts { cases: env.tier.pick(320, 12_000), max_shrink_iters: 60, samples: 2 },
        || Choices::strategy(400).prop_map(|mut ch| gen_case(&mut ch, &BYZ)),
        c01_check,
    ));
    parts.push(run_proptest(
        env,
        "crash_partition",
        "committees of 1-5 correct validators without Byzantine members: partitions (partial flushes), message loss / duplication / reordering, crashes and restarts with deferred persistence, block sync; same oracle",
        PartOpts { cases: env.tier.pick(400, 15_000), max_shrink_iters: 60, samples: 2 },
        || Choices::strategy(400).prop_map(|mut ch| gen_case(&mut ch, &CRASHY)),
        c01_check,
    ));
    env.finish(
        "exploration",
        "generated adversarial schedules over the real replica handlers; cause-level monitors (C02, C03, C05) run on the same kind of schedules in their own checks",
        &["at most f weight is Byzantine", "BLS unforgeability: the adversary signs only with Byzantine keys"],
        parts,
    )
}
