//! History monitors over a simulator run. Each returns `Err(description)` on the first violation.
use std::collections::{BTreeMap, BTreeSet};

use zksync_consensus_bft::verif::{Outcome, Snapshot};
use zksync_consensus_roles::validator::{self, v2, ConsensusMsg, ReplicaState};

use crate::sim::{just_view, Input, Kind, StepOut, StepRecord, World};

fn chonky(m: &crate::sim::Msg) -> &v2::ChonkyMsg {
    let ConsensusMsg::V2(x) = &m.msg;
    x
}

// ---------------------------------------------------------------------------------------------
// C01 agreement

/// (a) per block number all payloads handed to the execution layer and all stored blocks agree across
/// correct nodes; (b) per node a committed block never changes and submissions are contiguous.
pub fn agreement(w: &World) -> Result<(), String> {
    let mut canon: BTreeMap<u64, (usize, validator::Payload)> = BTreeMap::new();
    for i in w.correct() {
        let st = w.node(i).engine.st.lock().unwrap();
        let mut mine: BTreeMap<u64, &validator::Payload> = BTreeMap::new();
        let mut prev: Option<(u32, u64)> = None;
        for s in &st.submissions {
            if let Some(p) = mine.get(&s.number) {
                if *p != &s.payload {
                    return Err(format!("node {i} committed two different payloads for block {} ({:?} then {:?})", s.number, p, s.payload));
                }
            }
            mine.insert(s.number, &s.payload);
            if let Some((inc, n)) = prev {
                if inc == s.incarnation && s.number != n + 1 && s.number != s.durable_next {
                    return Err(format!("node {i} handed block {} to the execution layer after block {n}", s.number));
                }
            }
            prev = Some((s.incarnation, s.number));
            match canon.get(&s.number) {
                Some((j, p)) if p != &s.payload => {
                    return Err(format!("DISAGREEMENT: nodes {j} and {i} committed different payloads for block {}: {:?} vs {:?}", s.number, p, s.payload));
                }
                Some(_) => {}
                None => {
                    canon.insert(s.number, (i, s.payload.clone()));
                }
            }
        }
        for (n, b) in &st.blocks {
            match canon.get(n) {
                Some((j, p)) if p != b.payload() => {
                    return Err(format!("DISAGREEMENT: node {i} stores a block {n} with another payload than node {j} committed"));
                }
                Some(_) => {}
                None => {
                    canon.insert(*n, (i, b.payload().clone()));
                }
            }
        }
    }
    Ok(())
}

// ---------------------------------------------------------------------------------------------
// C02 (b) certificate uniqueness at history level

/// `certifiable(n,h)`: the weight of correct validators that ever signed a commit vote for (n,h) within one
/// view plus the whole Byzantine weight reaches the quorum. At most one h per n may ever be certifiable, and
/// after (n,h) became certifiable no correct validator votes for another payload at number n.
pub fn uniqueness(w: &World) -> Result<(), String> {
    let byz_weight = w.weight_of(w.byz_ids());
    // (view, header) -> correct signers, in pool order
    let mut per_view: BTreeMap<(u64, v2::BlockHeader), BTreeSet<usize>> = BTreeMap::new();
    let mut certifiable: BTreeMap<u64, (validator::PayloadHash, usize, u64)> = BTreeMap::new();
    for (pi, p) in w.pool.iter().enumerate() {
        let (Some(from), v2::ChonkyMsg::ReplicaCommit(c)) = (p.from, chonky(&p.msg)) else { continue };
        if p.crafted || w.cfg.byz[from] {
            continue;
        }
        let n = c.proposal.number.0;
        if let Some((h, at, cert_view)) = certifiable.get(&n) {
            // only votes cast in a later view count: a replica lagging in an older view may still vote there
            if *h != c.proposal.payload && c.view.number.0 > *cert_view {
                return Err(format!(
                    "block {n} with payload {h:?} became certifiable at pool message {at}, yet correct validator {from} later voted (view {}) to commit another payload {:?} for that number",
                    c.view.number.0, c.proposal.payload
                ));
            }
        }
        let set = per_view.entry((c.view.number.0, c.proposal)).or_default();
        set.insert(from);
        if w.weight_of(set.iter().copied()) + byz_weight >= w.quorum() {
            match certifiable.get(&n) {
                Some((h, _, _)) if *h != c.proposal.payload => {
                    return Err(format!("two payloads are certifiable for block {n}: {h:?} and {:?}", c.proposal.payload));
                }
                Some(_) => {}
                None => {
                    certifiable.insert(n, (c.proposal.payload, pi, c.view.number.0));
                }
            }
        }
    }
    // every certificate that exists anywhere is for the certifiable payload
    for q in w.known_commit_qcs() {
        if let Some((h, _, _)) = certifiable.get(&q.header().number.0) {
            if *h != q.header().payload {
                return Err(format!("a valid certificate exists for block {} with payload {:?} although {h:?} was certifiable", q.header().number.0, q.header().payload));
            }
        }
    }
    Ok(())
}

// ---------------------------------------------------------------------------------------------
// C03 no equivocation

/// Over all messages signed with the key of correct validator `i`, in emission order.
pub fn no_equivocation(w: &World) -> Result<(), String> {
    for i in w.correct() {
        let mut commit_by_view: BTreeMap<u64, v2::ReplicaCommit> = BTreeMap::new();
        let mut max_timeout_view: Option<u64> = None;
        let mut last_vote_view: Option<u64> = None;
        for p in &w.pool {
            if p.from != Some(i) || p.crafted {
                continue;
            }
            match chonky(&p.msg) {
                v2::ChonkyMsg::ReplicaCommit(c) => {
                    let v = c.view.number.0;
                    if let Some(prev) = commit_by_view.get(&v) {
                        if prev != c {
                            return Err(format!("EQUIVOCATION: validator {i} signed two different commit votes in view {v}: {:?} and {:?}", prev.proposal, c.proposal));
                        }
                    }
                    if max_timeout_view.is_some_and(|t| t >= v) {
                        return Err(format!("validator {i} signed a commit vote for view {v} after a timeout vote for view {}", max_timeout_view.unwrap()));
                    }
                    if last_vote_view.is_some_and(|l| l > v) {
                        return Err(format!("validator {i}: vote views went backwards ({} then commit vote for {v})", last_vote_view.unwrap()));
                    }
                    // an identical re-emission (same view, same vote) after a restart is not a new vote
                    commit_by_view.insert(v, c.clone());
                    last_vote_view = Some(last_vote_view.unwrap_or(0).max(v));
                }
                v2::ChonkyMsg::ReplicaTimeout(t) => {
                    let v = t.view.number.0;
                    if last_vote_view.is_some_and(|l| l > v) {
                        return Err(format!("validator {i}: vote views went backwards ({} then timeout vote for {v})", last_vote_view.unwrap()));
                    }
                    max_timeout_view = Some(max_timeout_view.unwrap_or(0).max(v));
                    last_vote_view = Some(last_vote_view.unwrap_or(0).max(v));
                }
                _ => {}
            }
        }
    }
    Ok(())
}

/// "Persist, then send": every vote emitted during `rec` is recorded by the durable state of the node as
/// it is now (the state may have moved on, it may not be behind).
pub fn persisted_before_sent(w: &World, rec: &StepRecord) -> Result<(), String> {
    let st = w.node(rec.node).engine.st.lock().unwrap();
    let ReplicaState::V2(d) = &st.state;
    for e in &rec.emitted {
        let p = &w.pool[*e];
        if p.from != Some(rec.node) {
            continue;
        }
        match chonky(&p.msg) {
            v2::ChonkyMsg::ReplicaCommit(c) => {
                let v = c.view.number;
                let ok = d.view_number > v || (d.view_number == v && d.high_vote.as_ref() == Some(c) && d.phase != v2::Phase::Prepare);
                if !ok {
                    return Err(format!(
                        "node {} sent a commit vote for view {} but its durable state is view {} phase {:?} high vote {:?}: a crash now would let it vote again",
                        rec.node, v.0, d.view_number.0, d.phase, d.high_vote.as_ref().map(|x| (x.view.number.0, x.proposal.number.0))
                    ));
                }
            }
            v2::ChonkyMsg::ReplicaTimeout(t) => {
                let v = t.view.number;
                let ok = d.view_number > v || (d.view_number == v && d.phase == v2::Phase::Timeout);
                if !ok {
                    return Err(format!("node {} sent a timeout vote for view {} but its durable state is view {} phase {:?}", rec.node, v.0, d.view_number.0, d.phase));
                }
            }
            _ => {}
        }
    }
    Ok(())
}

// ---------------------------------------------------------------------------------------------
// C05 model-free invariants

fn qc_view(q: &Option<v2::CommitQC>) -> Option<u64> {
    q.as_ref().map(|q| q.view().number.0)
}
fn tqc_view(q: &Option<v2::TimeoutQC>) -> Option<u64> {
    q.as_ref().map(|q| q.view.number.0)
}

pub fn expected_justification(s: &Snapshot) -> Option<v2::ProposalJustification> {
    match (&s.high_commit_qc, &s.high_timeout_qc) {
        (None, None) => None,
        (Some(c), None) => Some(v2::ProposalJustification::Commit(c.clone())),
        (None, Some(t)) => Some(v2::ProposalJustification::Timeout(t.clone())),
        (Some(c), Some(t)) => Some(if c.view().number >= t.view.number { v2::ProposalJustification::Commit(c.clone()) } else { v2::ProposalJustification::Timeout(t.clone()) }),
    }
}

/// Invariants of one step of a correct replica.
pub fn step_invariants(w: &World, rec: &StepRecord) -> Result<(), String> {
    let (b, a) = (&rec.before, &rec.after);
    let me = rec.node;
    let who = format!("node {me} step {} ({:?})", rec.seq, rec.input);
    let (gh, ep, sch) = (w.committee.gh(), w.committee.epoch, &w.committee.schedule);
    // monotone
    if a.view < b.view {
        return Err(format!("{who}: view went back from {} to {}", b.view.0, a.view.0));
    }
    if qc_view(&a.high_commit_qc) < qc_view(&b.high_commit_qc) {
        return Err(format!("{who}: highest commit certificate went back from view {:?} to {:?}", qc_view(&b.high_commit_qc), qc_view(&a.high_commit_qc)));
    }
    if tqc_view(&a.high_timeout_qc) < tqc_view(&b.high_timeout_qc) {
        return Err(format!("{who}: highest timeout certificate went back from view {:?} to {:?}", tqc_view(&b.high_timeout_qc), tqc_view(&a.high_timeout_qc)));
    }
    // adopted certificates verify in isolation
    if a.high_commit_qc != b.high_commit_qc {
        if let Some(q) = &a.high_commit_qc {
            q.verify(gh, ep, sch).map_err(|e| format!("{who}: adopted a commit certificate that does not verify: {e:#}"))?;
        }
    }
    if a.high_timeout_qc != b.high_timeout_qc {
        if let Some(q) = &a.high_timeout_qc {
            q.verify(gh, ep, sch).map_err(|e| format!("{who}: adopted a timeout certificate that does not verify: {e:#}"))?;
        }
    }
    // a view change is justified by the input of this very step
    if a.view > b.view {
        let target = a.view.0;
        let justified = match &rec.input {
            Input::Timer | Input::Propose => false,
            Input::Msg(m) => match chonky(&w.pool[*m].msg) {
                v2::ChonkyMsg::LeaderProposal(p) => just_view(&p.justification) == target && p.justification.verify(gh, ep, sch).is_ok(),
                v2::ChonkyMsg::ReplicaNewView(n) => just_view(&n.justification) == target && n.justification.verify(gh, ep, sch).is_ok(),
                v2::ChonkyMsg::ReplicaCommit(c) => {
                    // the delivered vote completes a quorum of identical votes for view target-1 among what this incarnation received
                    c.view.number.0 + 1 == target && {
                        let mut signers = BTreeSet::new();
                        for d in &w.node(me).delivered_this_incarnation {
                            if let (Some(f), v2::ChonkyMsg::ReplicaCommit(x)) = (w.pool[*d].from, chonky(&w.pool[*d].msg)) {
                                if x == c && w.pool[*d].msg.verify().is_ok() {
                                    signers.insert(f);
                                }
                            }
                        }
                        w.weight_of(signers) >= w.quorum()
                    }
                }
                v2::ChonkyMsg::ReplicaTimeout(t) => {
                    t.view.number.0 + 1 == target && {
                        let mut signers = BTreeSet::new();
                        for d in &w.node(me).delivered_this_incarnation {
                            if let (Some(f), v2::ChonkyMsg::ReplicaTimeout(x)) = (w.pool[*d].from, chonky(&w.pool[*d].msg)) {
                                if x.view == t.view && w.pool[*d].msg.verify().is_ok() && x.verify(gh, ep, sch).is_ok() {
                                    signers.insert(f);
                                }
                            }
                        }
                        w.weight_of(signers) >= w.quorum()
                    }
                }
            },
        };
        if !justified {
            return Err(format!("{who}: moved from view {} to view {target} without a valid certificate for view {} in its input", b.view.0, target - 1));
        }
    }
    // rejected inputs change nothing
    if let StepOut::Handled(Outcome::Rejected(why)) = &rec.out {
        if a.view != b.view || a.phase != b.phase || a.high_vote != b.high_vote || a.high_commit_qc != b.high_commit_qc || a.high_timeout_qc != b.high_timeout_qc {
            return Err(format!("{who}: the input was rejected ({why}) but the replica state changed"));
        }
        if !rec.emitted.is_empty() {
            return Err(format!("{who}: the input was rejected ({why}) but messages were emitted"));
        }
    }
    // emitted messages are self-justifying
    for e in &rec.emitted {
        let p = &w.pool[*e];
        p.msg.verify().map_err(|e| format!("{who}: emitted a message with a bad signature: {e:#}"))?;
        if p.from != Some(me) {
            return Err(format!("{who}: emitted a message signed by another key"));
        }
        match chonky(&p.msg) {
            v2::ChonkyMsg::ReplicaNewView(n) => {
                n.verify(gh, ep, sch).map_err(|e| format!("{who}: emitted a new-view message that does not verify in isolation: {e:#}"))?;
                if Some(&n.justification) != expected_justification(a).as_ref() {
                    return Err(format!(
                        "{who}: the emitted new-view message does not carry the highest certificate held (held: commit {:?} timeout {:?}; carried view {})",
                        qc_view(&a.high_commit_qc), tqc_view(&a.high_timeout_qc), just_view(&n.justification)
                    ));
                }
            }
            v2::ChonkyMsg::LeaderProposal(pr) => {
                pr.verify(gh, ep, sch).map_err(|e| format!("{who}: emitted a proposal that does not verify in isolation: {e:#}"))?;
                let v = just_view(&pr.justification);
                if w.leader(v) != me {
                    return Err(format!("{who}: proposed in view {v} which it does not lead"));
                }
                let (_, forced) = pr.justification.get_implied_block(sch, w.first_block());
                if forced.is_some() != pr.proposal_payload.is_none() {
                    return Err(format!("{who}: proposal payload presence does not match the justification (forced re-proposal: {})", forced.is_some()));
                }
            }
            v2::ChonkyMsg::ReplicaTimeout(t) => {
                t.verify(gh, ep, sch).map_err(|e| format!("{who}: emitted a timeout vote that does not verify: {e:#}"))?;
                if t.view.number != a.view || t.high_vote != a.high_vote || t.high_qc != a.high_commit_qc {
                    return Err(format!("{who}: the emitted timeout vote does not carry the replica's view / high vote / high certificate"));
                }
            }
            v2::ChonkyMsg::ReplicaCommit(c) => {
                if c.view.number != a.view || Some(c) != a.high_vote.as_ref() || a.phase != v2::Phase::Commit {
                    return Err(format!("{who}: emitted a commit vote that is not its recorded high vote of the current view"));
                }
            }
        }
    }
    // what a step may emit
    let kinds: Vec<Kind> = rec.emitted.iter().map(|e| crate::sim::kind_of(&w.pool[*e].msg)).collect();
    match (&rec.input, &rec.out) {
        (Input::Timer, StepOut::Timer(Ok(()))) => {
            if a.phase != v2::Phase::Timeout || !kinds.contains(&Kind::Timeout) {
                return Err(format!("{who}: the timer fired but the replica did not enter the timeout phase and send a timeout vote"));
            }
            if a.view.0 != 0 && !kinds.contains(&Kind::NewView) {
                return Err(format!("{who}: the timer fired in view {} but no new-view message was re-broadcast", a.view.0));
            }
        }
        (Input::Msg(_), StepOut::Handled(Outcome::Accepted)) => {
            if a.view > b.view && !kinds.contains(&Kind::NewView) && !kinds.contains(&Kind::Commit) {
                return Err(format!("{who}: entered view {} without announcing it", a.view.0));
            }
        }
        _ => {}
    }
    Ok(())
}

// ---------------------------------------------------------------------------------------------
// C16 (b) bounded bookkeeping

pub fn caches_bounded(w: &World, rec: &StepRecord) -> Result<(), String> {
    let n = w.cfg.spec.n();
    let a = &rec.after;
    let who = format!("node {} step {}", rec.node, rec.seq);
    if a.commit_views > n || a.timeout_views > n {
        return Err(format!("{who}: latest-vote maps hold {} / {} entries for a committee of {n}", a.commit_views, a.timeout_views));
    }
    if a.commit_qc_views > n || a.timeout_qc_views > n {
        return Err(format!("{who}: partial certificates are kept for {} / {} views with a committee of {n}", a.commit_qc_views, a.timeout_qc_views));
    }
    if a.commit_qcs_total > n * n || a.timeout_msgs_total > n * n {
        return Err(format!("{who}: {} commit accumulators / {} timeout messages are kept with a committee of {n}", a.commit_qcs_total, a.timeout_msgs_total));
    }
    Ok(())
}
