//! C08 The block store is a verified, gap-free, append-only chain.
//!
//! The real `EngineManager` + its runner over `SimEngine`; generated programs of concurrent queue
//! requests (valid, invalid, duplicated, conflicting, out of order), persistence completions,
//! side-channel jumps, pruning, reads and restarts, with a quiescence barrier after every operation.
use std::{
    collections::{BTreeMap, BTreeSet},
    sync::{Arc, Mutex, OnceLock},
};

use common::{det, run_proptest, Choices, Env, Mode, PartOpts, PartReport, Stats};
use gen::CommitteeSpec;
use proptest::prelude::*;
use serde::{Deserialize, Serialize};
use zksync_concurrency::time;
use zksync_consensus_engine::EngineManager;
use zksync_consensus_roles::validator::{self, v2, Block, BlockNumber, Payload};

use crate::engine::SimEngine;

const FIRST_PRE: u64 = 0; // first pre-genesis block that exists (0: the empty-store corner of BlockStoreState::head())
const FIRST: u64 = 3; // first block of the fork
const LEN: u64 = 260; // chain material covers FIRST_PRE..FIRST_PRE+LEN

#[derive(Debug, Clone, Copy, Serialize, Deserialize, Hash, PartialEq, Eq, PartialOrd, Ord)]
pub enum Variant {
    /// The canonical block of the chain.
    Canonical,
    /// Another payload for the same number, certified by the whole committee (a fork Byzantine validators could produce).
    Conflicting,
    /// Payload does not hash to the certified header.
    PayloadMismatch,
    /// Certificate signed by too little weight.
    UnderWeight,
    /// Certificate for another genesis.
    ForeignGenesis,
    /// Certificate of an epoch without a known schedule.
    UnknownEpoch,
    /// Pre-genesis style block (external justification) for a number at or above the fork's first block / with a bad justification below it.
    BadPreGenesis,
}

#[derive(Debug, Clone, Serialize, Deserialize, Hash, PartialEq)]
pub enum Op {
    /// Spawn a task calling queue_block(block n in this variant).
    Queue(u64, Variant),
    /// Spawn queue_block for every canonical block in from..to (reversed = highest first).
    QueueRange(u64, u64, bool),
    /// Storage makes up to k accepted blocks durable.
    Persist(u16),
    /// Storage receives the canonical blocks up to `to` through a side channel.
    Jump(u64),
    /// Side-channel jump to `to` and, before any other task has run (the manager has not yet noticed the jump),
    /// queue_block(block n in this variant) is called and polled once.
    JumpQueue(u64, u64, Variant),
    /// Storage prunes blocks below `to`.
    Prune(u64),
    /// The node restarts from durable storage (the manager is rebuilt; unpersisted blocks are lost).
    Restart,
    /// Read block n through the manager.
    Get(u64),
    /// Switch deferred persistence on / off.
    Defer(bool),
}

#[derive(Debug, Clone, Serialize, Deserialize, Hash)]
pub struct Case {
    /// First block present in storage at start (>= FIRST_PRE).
    start: u64,
    ops: Vec<Op>,
}

struct Chain {
    committee: gen::Committee,
    canonical: Vec<Block>,
    conflicting: Vec<Option<Block>>,
}

fn chain() -> &'static Chain {
    static C: OnceLock<Chain> = OnceLock::new();
    C.get_or_init(|| {
        let mut spec = CommitteeSpec::uniform(3);
        spec.first_block = FIRST;
        let c = spec.build();
        let mut canonical = vec![];
        let mut conflicting = vec![];
        for n in FIRST_PRE..FIRST_PRE + LEN {
            if n < FIRST {
                canonical.push(Block::PreGenesis(validator::PreGenesisBlock {
                    number: BlockNumber(n),
                    payload: Payload(vec![n as u8; 4]),
                    justification: validator::Justification(vec![n as u8; 3]),
                }));
                conflicting.push(None);
            } else {
                canonical.push(final_block(&c, n, 0, &[true, true, true], 0).into());
                conflicting.push(Some(final_block(&c, n, 1, &[true, true, true], 0).into()));
            }
        }
        Chain { committee: c, canonical, conflicting }
    })
}

/// A block `n` with payload flavour `flavour`, signed by `signers`; `foreign`: 0 ours, 1 other genesis, 2 other epoch.
fn final_block(c: &gen::Committee, n: u64, flavour: u8, signers: &[bool], foreign: u8) -> v2::FinalBlock {
    let payload = Payload(vec![0xC0, flavour, n as u8, (n >> 8) as u8]);
    let view = match foreign {
        1 => v2::View { genesis: c.foreign_genesis().hash(), epoch: c.epoch, number: validator::ViewNumber(n) },
        2 => v2::View { genesis: c.gh(), epoch: validator::EpochNumber(7), number: validator::ViewNumber(n) },
        _ => c.view(n),
    };
    let msg = v2::ReplicaCommit { view, proposal: v2::BlockHeader { number: BlockNumber(n), payload: payload.hash() } };
    let mut sig = validator::AggregateSignature::default();
    let mut bits = bit_vec::BitVec::from_elem(signers.len(), false);
    for (i, s) in signers.iter().enumerate() {
        if *s {
            sig.add(&c.keys[i].sign_msg(msg.clone()).sig);
            bits.set(i, true);
        }
    }
    v2::FinalBlock { payload, justification: v2::CommitQC { message: msg, signers: v2::Signers(bits), signature: sig } }
}

fn block(n: u64, v: Variant) -> Option<(Block, bool)> {
    let ch = chain();
    let idx = n.checked_sub(FIRST_PRE)? as usize;
    let canon = ch.canonical.get(idx)?.clone();
    Some(match v {
        Variant::Canonical => (canon, true),
        Variant::Conflicting => (ch.conflicting[idx].clone()?, true),
        Variant::PayloadMismatch => match canon {
            Block::FinalV2(mut b) => {
                b.payload = Payload(vec![1, 2, 3]);
                (b.into(), false)
            }
            Block::PreGenesis(_) => return None,
        },
        Variant::UnderWeight => {
            if n < FIRST {
                return None;
            }
            (final_block(&ch.committee, n, 0, &[true, true, false], 0).into(), false)
        }
        Variant::ForeignGenesis => {
            if n < FIRST {
                return None;
            }
            (final_block(&ch.committee, n, 0, &[true, true, true], 1).into(), false)
        }
        Variant::UnknownEpoch => {
            if n < FIRST {
                return None;
            }
            (final_block(&ch.committee, n, 0, &[true, true, true], 2).into(), false)
        }
        Variant::BadPreGenesis => (
            Block::PreGenesis(validator::PreGenesisBlock {
                number: BlockNumber(n),
                payload: Payload(vec![9; 4]),
                // below the fork: wrong justification; at or above: not allowed at all
                justification: validator::Justification(if n < FIRST { vec![0xEE; 3] } else { vec![n as u8; 3] }),
            }),
            false,
        ),
    })
}

fn gen_case(ch: &mut Choices) -> Case {
    let start = ch.pick(&[FIRST_PRE, FIRST_PRE, FIRST_PRE + 1, FIRST, FIRST + 2]);
    let n = 3 + ch.below(40);
    let mut ops = vec![];
    let mut frontier = start; // rough notion of where the chain is, to aim operations
    if ch.chance(1, 8) {
        // directed phrase: persistence stalls from the very beginning while more blocks than the cache holds are queued,
        // then everything queued is read back
        let to = (start + ch.pick(&[99u64, 100, 101, 102, 130])).min(FIRST_PRE + LEN);
        ops.push(Op::Defer(true));
        ops.push(Op::QueueRange(start, to, ch.bool()));
        ops.push(Op::Get(start));
        ops.push(Op::Get(start + 1));
        frontier = to;
    }
    for _ in 0..n {
        let near = |ch: &mut Choices, frontier: u64| (frontier + ch.below(6) as u64).saturating_sub(ch.below(3) as u64).clamp(FIRST_PRE, FIRST_PRE + LEN - 1);
        ops.push(match ch.below(20) {
            0..=5 => {
                let b = near(ch, frontier);
                if b == frontier {
                    frontier += 1;
                }
                Op::Queue(b, Variant::Canonical)
            }
            6 => Op::Queue(near(ch, frontier), Variant::Conflicting),
            7 => Op::Queue(
                near(ch, frontier),
                ch.pick(&[Variant::PayloadMismatch, Variant::UnderWeight, Variant::ForeignGenesis, Variant::UnknownEpoch, Variant::BadPreGenesis]),
            ),
            8 | 9 => {
                let len = ch.pick(&[3u64, 8, 30, 120]);
                let from = frontier.saturating_sub(ch.below(3) as u64).max(FIRST_PRE);
                let to = (from + len).min(FIRST_PRE + LEN);
                frontier = frontier.max(to);
                Op::QueueRange(from, to, ch.bool())
            }
            10 | 11 | 12 => Op::Persist(ch.pick(&[1u16, 2, 5, 50, 1000])),
            13 => {
                let to = (frontier + ch.below(12) as u64).min(FIRST_PRE + LEN);
                let old = frontier;
                frontier = frontier.max(to);
                if ch.bool() {
                    Op::Jump(to)
                } else {
                    // a block for a number inside (or just around) the jumped range arrives at the same instant
                    let n = (old + ch.below((to - old) as usize + 2) as u64).saturating_sub(ch.below(2) as u64).clamp(FIRST_PRE, FIRST_PRE + LEN - 1);
                    let v = ch.pick(&[Variant::PayloadMismatch, Variant::Canonical, Variant::UnderWeight, Variant::Conflicting, Variant::ForeignGenesis, Variant::BadPreGenesis, Variant::UnknownEpoch]);
                    Op::JumpQueue(to, n, v)
                }
            }
            14 => Op::Prune(near(ch, frontier.saturating_sub(5))),
            15 => Op::Restart,
            16 | 17 => Op::Get(near(ch, frontier.saturating_sub(2))),
            _ => Op::Defer(ch.chance(2, 3)),
        });
    }
    Case { start, ops }
}

struct Node {
    mgr: Arc<EngineManager>,
    runner: tokio::task::JoinHandle<anyhow::Result<()>>,
    life: det::Life,
}

async fn start_node(engine: &SimEngine) -> Result<Node, String> {
    let life = det::Life::new();
    let (mgr, runner) = EngineManager::new(&life.ctx, Box::new(engine.clone()), time::Duration::seconds(1))
        .await
        .map_err(|e| format!("EngineManager::new: {e:?}"))?;
    let rctx = life.child();
    let runner = tokio::spawn(async move { runner.run(&rctx).await });
    Ok(Node { mgr, runner, life })
}

#[derive(Default)]
struct QueueResults {
    /// task id -> result
    done: BTreeMap<usize, Result<(), String>>,
}

fn check(case: &Case, st: &mut Stats) -> Result<(), String> {
    det::run(|| async {
        let ch = chain();
        let engine = SimEngine::new(ch.committee.genesis.clone(), case.start);
        let mut node = start_node(&engine).await?;
        det::barrier().await;
        let results: Arc<Mutex<QueueResults>> = Arc::default();
        // model
        let mut accepted: BTreeMap<u64, Block> = BTreeMap::new(); // what the store holds per number (this incarnation + durable)
        let mut candidates: BTreeMap<u64, Vec<Block>> = BTreeMap::new(); // valid blocks offered per number
        let mut tasks: Vec<(usize, u64, bool, tokio::task::JoinHandle<()>)> = vec![]; // (id, number, valid, handle)
        let mut next_task = 0usize;
        let mut last_queued_next = node.mgr.queued().next().0;
        let mut subs_checked = 0usize;
        let (mut lag_over_cache, mut jump_overtook, mut restart_lost, mut out_of_order) = (false, false, false, false);
        let mut jump_and_queue = false;
        let mut all_runner: Vec<tokio::task::JoinHandle<anyhow::Result<()>>> = vec![];

        let res: Result<(), String> = async {
            for (i, op) in case.ops.iter().enumerate() {
                let what = format!("step {i} {op:?}");
                let mut spawn_queue = |node: &Node, n: u64, v: Variant, tasks: &mut Vec<(usize, u64, bool, tokio::task::JoinHandle<()>)>, candidates: &mut BTreeMap<u64, Vec<Block>>| {
                    let Some((b, valid)) = block(n, v) else { return };
                    if valid {
                        candidates.entry(n).or_default().push(b.clone());
                    }
                    let id = next_task;
                    next_task += 1;
                    let (mgr, ctx, results) = (node.mgr.clone(), node.life.child(), results.clone());
                    tasks.push((
                        id,
                        n,
                        valid,
                        tokio::spawn(async move {
                            let r = mgr.queue_block(&ctx, b).await.map_err(|e| format!("{e:?}"));
                            results.lock().unwrap().done.insert(id, r);
                        }),
                    ));
                };
                match op {
                    Op::Queue(n, v) => spawn_queue(&node, *n, *v, &mut tasks, &mut candidates),
                    Op::QueueRange(from, to, rev) => {
                        let mut ns: Vec<u64> = (*from..*to).collect();
                        if *rev {
                            ns.reverse();
                            out_of_order = true;
                        }
                        for n in ns {
                            spawn_queue(&node, n, Variant::Canonical, &mut tasks, &mut candidates);
                        }
                    }
                    Op::Persist(k) => {
                        engine.persist(*k as usize);
                    }
                    Op::Jump(to) => {
                        let from = engine.durable_next();
                        if *to > node.mgr.queued().next().0 {
                            jump_overtook = true;
                        }
                        let blocks: Vec<Block> = (from..*to).filter_map(|n| ch.canonical.get((n - FIRST_PRE) as usize).cloned()).collect();
                        // if the store already accepted a conflicting block for one of these numbers, storage wins after the jump
                        engine.side_append(blocks);
                    }
                    Op::JumpQueue(to, n, v) => {
                        let from = engine.durable_next();
                        if *to > node.mgr.queued().next().0 {
                            jump_overtook = true;
                        }
                        let blocks: Vec<Block> = (from..*to).filter_map(|n| ch.canonical.get((n - FIRST_PRE) as usize).cloned()).collect();
                        engine.side_append(blocks);
                        // no await between the jump and the first poll of queue_block: the manager's view of storage is stale
                        if let Some((b, valid)) = block(*n, *v) {
                            if valid {
                                candidates.entry(*n).or_default().push(b.clone());
                            }
                            jump_and_queue = true;
                            let id = next_task;
                            next_task += 1;
                            let (mgr, ctx, results) = (node.mgr.clone(), node.life.child(), results.clone());
                            let mut fut = Box::pin(async move { mgr.queue_block(&ctx, b).await.map_err(|e| format!("{e:?}")) });
                            let first = tokio::select! {
                                biased;
                                r = &mut fut => Some(r),
                                _ = std::future::ready(()) => None,
                            };
                            let handle = match first {
                                Some(r) => {
                                    results.lock().unwrap().done.insert(id, r);
                                    tokio::spawn(async {})
                                }
                                None => tokio::spawn(async move {
                                    let r = fut.await;
                                    results.lock().unwrap().done.insert(id, r);
                                }),
                            };
                            tasks.push((id, *n, valid, handle));
                        }
                    }
                    Op::Prune(to) => engine.prune(*to),
                    Op::Defer(d) => engine.st.lock().unwrap().defer = *d,
                    Op::Restart => {
                        let lost = engine.st.lock().unwrap().pending.len();
                        if lost > 0 || node.mgr.queued().next().0 > engine.durable_next() {
                            restart_lost = true;
                        }
                        // stop the old incarnation
                        let old = std::mem::replace(&mut node, {
                            engine.restart();
                            start_node(&engine).await?
                        });
                        let handles: Vec<_> = tasks.drain(..).map(|t| t.3).collect();
                        old.life.end(handles).await;
                        all_runner.push(old.runner);
                        results.lock().unwrap().done.clear();
                        // a new incarnation only knows what is durable
                        let durable: BTreeSet<u64> = engine.st.lock().unwrap().blocks.keys().copied().collect();
                        accepted.retain(|n, _| durable.contains(n));
                        candidates.clear();
                        last_queued_next = node.mgr.queued().next().0;
                    }
                    Op::Get(_) => {}
                }
                det::barrier().await;
                if node.runner.is_finished() {
                    return Err(format!("{what}: the engine manager's background tasks ended"));
                }
                // --- observations
                let queued = node.mgr.queued();
                let persisted = node.mgr.persisted();
                let (qf, qn, pf, pn) = (queued.first.0, queued.next().0, persisted.first.0, persisted.next().0);
                if qn < last_queued_next {
                    return Err(format!("{what}: queued.next() went back from {last_queued_next} to {qn}"));
                }
                last_queued_next = qn;
                if pn > qn || pf > qf && qf < pf {
                    return Err(format!("{what}: persisted range {pf}..{pn} is not inside the queued range {qf}..{qn}"));
                }
                if qn.saturating_sub(pn) > 100 {
                    lag_over_cache = true;
                }
                // storage submissions: in order, no gaps, content = what the store accepted
                {
                    let es = engine.st.lock().unwrap();
                    let subs = &es.submissions;
                    for k in subs_checked..subs.len() {
                        let s = &subs[k];
                        let prev_same_incarnation = (k > 0 && subs[k - 1].incarnation == s.incarnation).then(|| subs[k - 1].number);
                        let follows_prev = prev_same_incarnation == Some(s.number.wrapping_sub(1));
                        let follows_head = s.number == s.durable_next;
                        if !follows_prev && !follows_head {
                            return Err(format!(
                                "{what}: block {} was handed to storage after block {:?} while the durable head was {} - a gap or a repetition",
                                s.number,
                                prev_same_incarnation,
                                s.durable_next.wrapping_sub(1)
                            ));
                        }
                    }
                    subs_checked = subs.len();
                }
                // at quiescence every queued block has been handed to storage (or is already durable)
                {
                    let es = engine.st.lock().unwrap();
                    let durable_next = es.blocks.keys().next_back().map(|x| x + 1).unwrap_or(es.first);
                    let handed_next = es.submissions.iter().filter(|s| s.incarnation == es.incarnation).map(|s| s.number + 1).max().unwrap_or(0).max(durable_next);
                    if handed_next < qn {
                        return Err(format!("{what}: blocks up to {} are queued but storage was only handed blocks up to {}", qn - 1, handed_next.wrapping_sub(1)));
                    }
                }
                // every queued block can be read back and never changes; it is one of the verified candidates
                for n in qf.max(pf)..qn {
                    let got = node.mgr.get_block(&node.life.ctx, BlockNumber(n)).await.map_err(|e| format!("{what}: get_block({n}) failed although {qf}..{qn} is reported as available: {e:?}"))?;
                    let Some(got) = got else {
                        return Err(format!("{what}: get_block({n}) returned None although {qf}..{qn} is reported as available"));
                    };
                    if got.number().0 != n {
                        return Err(format!("{what}: get_block({n}) returned block {}", got.number()));
                    }
                    match accepted.get(&n) {
                        Some(prev) if *prev != got => {
                            // the only legitimate replacement: storage (side channel) made another block durable for a number the manager held only in its queue
                            let durable = engine.st.lock().unwrap().blocks.get(&n).cloned();
                            if durable.as_ref() != Some(&got) {
                                return Err(format!("{what}: block {n} changed after it had been accepted ({:?} -> {:?})", prev.payload(), got.payload()));
                            }
                            accepted.insert(n, got);
                        }
                        Some(_) => {}
                        None => {
                            let canon = &ch.canonical[(n - FIRST_PRE) as usize];
                            let ok = got == *canon || candidates.get(&n).is_some_and(|c| c.contains(&got));
                            if !ok {
                                return Err(format!("{what}: the store holds a block {n} that was never offered as a verified block (payload {:?})", got.payload()));
                            }
                            accepted.insert(n, got);
                        }
                    }
                }
                // what is handed to storage is a verified block, and never two different blocks for one number
                {
                    let es = engine.st.lock().unwrap();
                    let mut per_number: BTreeMap<u64, &Payload> = BTreeMap::new();
                    for s in es.submissions.iter().filter(|s| s.incarnation == es.incarnation) {
                        let idx = (s.number - FIRST_PRE) as usize;
                        let verified = [Some(&ch.canonical[idx]), ch.conflicting[idx].as_ref()].into_iter().flatten().any(|b| b.payload() == &s.payload);
                        if !verified {
                            return Err(format!("{what}: storage was handed an unverified payload {:?} for block {}", s.payload, s.number));
                        }
                        if let Some(prev) = per_number.insert(s.number, &s.payload) {
                            if prev != &s.payload {
                                return Err(format!("{what}: storage was handed two different blocks for number {} ({prev:?} then {:?})", s.number, s.payload));
                            }
                        }
                    }
                }
                // explicit read
                if let Op::Get(n) = op {
                    let got = node.mgr.get_block(&node.life.ctx, BlockNumber(*n)).await;
                    let in_range = *n >= qf && *n < qn;
                    match got {
                        Ok(Some(b)) if in_range && Some(&b) == accepted.get(n) => {}
                        Ok(None) if !in_range => {}
                        other => return Err(format!("{what}: get_block({n}) = {:?} with queued range {qf}..{qn}", other.map(|b| b.map(|b| b.number())))),
                    }
                }
                // queue_block futures: invalid -> Err; valid -> completed iff its predecessor exists
                let done = results.lock().unwrap().done.clone();
                for (id, n, valid, _) in &tasks {
                    match (done.get(id), valid) {
                        (Some(Ok(())), false) => return Err(format!("{what}: an invalid block {n} was accepted by queue_block")),
                        (Some(Err(e)), true) => return Err(format!("{what}: a valid block {n} was refused: {e}")),
                        (None, false) => return Err(format!("{what}: queue_block of an invalid block {n} is still pending (it must fail at once)")),
                        (None, true) if qn >= *n => return Err(format!("{what}: queue_block({n}) is still pending although blocks up to {} are queued", qn.wrapping_sub(1))),
                        (Some(Ok(())), true) if qn < *n => return Err(format!("{what}: queue_block({n}) completed although its predecessor is not queued (queued.next() = {qn})")),
                        _ => {}
                    }
                }
            }
            Ok(())
        }
        .await;
        let concurrent = tasks.len() >= 2;
        for (c, name) in [(lag_over_cache, "persistence_lag_over_cache_capacity"), (jump_overtook, "jump_overtakes_queue"), (restart_lost, "restart_with_unpersisted_blocks"), (out_of_order, "out_of_order_submitters"), (jump_and_queue, "block_offered_at_the_instant_of_a_side_channel_jump")] {
            if c {
                st.class(name);
            }
        }
        if (concurrent || out_of_order) && (lag_over_cache || jump_overtook || restart_lost) {
            st.nontrivial(common::fingerprint(case));
        }
        st.max("max_queued_next", last_queued_next);
        st.sample(|| serde_json::to_value(case).unwrap());
        // shut down
        let handles: Vec<_> = tasks.into_iter().map(|t| t.3).collect();
        node.life.end(handles).await;
        let _ = node.runner.await;
        for r in all_runner {
            let _ = r.await;
        }
        res
    })
}

pub fn main(env: &Env) -> i32 {
    if let Mode::Replay(path) = env.mode() {
        let (_, case) = Env::read_replay(&path);
        return env.finish_replay(&path, common::replay_case::<Case>(case, check));
    }
    let _ = chain();
    let mut parts: Vec<PartReport> = vec![];
    parts.extend(common::run_regress::<Case>(env, "store", check));
    parts.push(run_proptest(
        env,
        "store",
        "the real EngineManager and its background tasks over a harness storage layer (deferred persistence, side-channel appends, pruning, restart), a pre-signed 260-block chain (3 pre-genesis + blocks certified by a 3-validator committee) and per block 6 variants (canonical, validly certified conflicting payload, payload/hash mismatch, under-weight, foreign genesis, unknown epoch, bad pre-genesis); \
         programs of 3-42 operations {queue one block near the frontier, queue a range of 3-120 blocks in or against order (each from its own task), persist k, jump, jump and - before the manager has noticed it - offer a (valid or invalid) block for a number around the jumped range, prune, restart, read, toggle deferred persistence} with a quiescence barrier after each; \
         oracle after every step: queued/persisted are nested ranges and queued.next never decreases; every block in the reported range reads back, carries its number, is a verified offered block and never changes (except that storage wins after a side-channel jump); \
         storage submissions follow the previous submission or the durable head; invalid blocks fail at once and change nothing; queue_block(n) completes exactly when block n-1 is queued. \
         Non-trivial = concurrent / out-of-order submitters together with persistence lag > 100, a jump overtaking the queue, or a restart losing unpersisted blocks",
        PartOpts { cases: env.tier.pick(2_500, 40_000), max_shrink_iters: 600, samples: 2 },
        || Choices::strategy(300).prop_map(|mut ch| gen_case(&mut ch)),
        check,
    ));
    env.finish(
        "exploration",
        "generated operation sequences against the real block store with a model and history invariants; the peer path (a fetched block must carry the requested number) belongs to C19",
        &["the harness storage layer honours the EngineInterface contract (accepts the block following the previously queued one, persists in order)"],
        parts,
    )
}
