//! Simulator-based checks over the real replica, block store and input channel.
mod c08;
pub mod engine;

fn main() {
    let env = common::Env::from_args();
    let code = match env.property.as_str() {
        "C08" => c08::main(&env),
        p => {
            eprintln!("bftsim: unknown property {p}");
            2
        }
    };
    std::process::exit(code);
}
