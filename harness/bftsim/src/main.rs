fn main() {
    bftsim::engine_main()
}
