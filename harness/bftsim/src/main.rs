//! Simulator-based checks over the real replica, block store and input channel.
pub mod engine;

fn main() {
    let env = common::Env::from_args();
    let code = match env.property.as_str() {
        p => {
            eprintln!("bftsim: unknown property {p}");
            2
        }
    };
    std::process::exit(code);
}
