//! Simulator-based checks over the real replica, block store and input channel.
mod act;
mod adv;
mod c08;
pub mod engine;
mod monitors;
mod props;
mod sim;

fn main() {
    let env = common::Env::from_args();
    let code = match env.property.as_str() {
        "C01" => props::c01(&env),
        "C08" => c08::main(&env),
        p => {
            eprintln!("bftsim: unknown property {p}");
            2
        }
    };
    std::process::exit(code);
}
