//! Simulator-based checks over the real replica, block store and input channel.
mod act;
mod adv;
pub mod c08;
pub mod engine;
mod model;
mod monitors;
mod props;
pub mod runloop;
mod sim;

/// Entry point of the engine binary.
pub fn engine_main() -> ! {
    let env = common::Env::from_args();
    let code = match env.property.as_str() {
        "C01" => props::c01(&env),
        "C02" => props::c02(&env),
        "C03" => props::c03(&env),
        "C05" => props::c05(&env),
        "C06" => props::c06(&env),
        "C16" => props::c16(&env),
        "C10" => props::c10_handlers(&env),
        "C08" => c08::main(&env),
        p => {
            eprintln!("bftsim: unknown property {p}");
            2
        }
    };
    std::process::exit(code);
}
