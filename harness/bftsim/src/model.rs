//! Reference replica (DESIGN.md §4.1): an independent re-statement of `spec/informal-spec/replica.rs`
//! + `proposer.rs` with the implementation's documented refinements. For every input it predicts
//! accept / reject, the resulting state and the messages emitted; the real replica must match.
//!
//! Trusted here (each judged by its own check): certificate / message verification of the roles
//! crate (C04), leader selection (C11), `get_implied_block` (C02a).
use std::collections::{BTreeMap, BTreeSet};

use zksync_consensus_bft::verif::{Outcome, Snapshot};
use zksync_consensus_roles::validator::{self, v2, ConsensusMsg, Payload, Signed};

use crate::{
    engine::SimEngine,
    sim::{just_view, Input, StepOut, StepRecord, World},
};

#[derive(Debug, Clone)]
pub struct Model {
    pub incarnation: u32,
    v: u64,
    phase: v2::Phase,
    hv: Option<v2::ReplicaCommit>,
    hc: Option<v2::CommitQC>,
    ht: Option<v2::TimeoutQC>,
    cache: BTreeSet<(u64, validator::PayloadHash)>,
    latest_c: BTreeMap<usize, u64>,
    acc_c: BTreeMap<u64, BTreeMap<v2::ReplicaCommit, BTreeMap<usize, Signed<v2::ReplicaCommit>>>>,
    latest_t: BTreeMap<usize, u64>,
    acc_t: BTreeMap<u64, BTreeMap<usize, Signed<v2::ReplicaTimeout>>>,
    published: Option<v2::ProposalJustification>,
}

#[derive(Debug, Clone, PartialEq)]
pub enum Emit {
    Commit(v2::ReplicaCommit),
    Timeout(v2::ReplicaTimeout),
    NewView(v2::ProposalJustification),
    Proposal(v2::LeaderProposal),
}

fn emit_of(m: &crate::sim::Msg) -> Emit {
    let ConsensusMsg::V2(x) = &m.msg;
    match x {
        v2::ChonkyMsg::ReplicaCommit(c) => Emit::Commit(c.clone()),
        v2::ChonkyMsg::ReplicaTimeout(t) => Emit::Timeout(t.clone()),
        v2::ChonkyMsg::ReplicaNewView(n) => Emit::NewView(n.justification.clone()),
        v2::ChonkyMsg::LeaderProposal(p) => Emit::Proposal(p.clone()),
    }
}

fn short(e: &Emit) -> String {
    match e {
        Emit::Commit(c) => format!("commit(view {}, block {})", c.view.number.0, c.proposal.number.0),
        Emit::Timeout(t) => format!("timeout(view {})", t.view.number.0),
        Emit::NewView(j) => format!("new-view(view {}, {})", just_view(j), if matches!(j, v2::ProposalJustification::Commit(_)) { "commit cert" } else { "timeout cert" }),
        Emit::Proposal(p) => format!("proposal(view {}, payload {})", just_view(&p.justification), p.proposal_payload.is_some()),
    }
}

impl Model {
    pub fn from_snapshot(incarnation: u32, s: &Snapshot) -> Self {
        Self {
            incarnation,
            v: s.view.0,
            phase: s.phase,
            hv: s.high_vote.clone(),
            hc: s.high_commit_qc.clone(),
            ht: s.high_timeout_qc.clone(),
            cache: s.cached.iter().map(|(n, h)| (n.0, *h)).collect(),
            latest_c: BTreeMap::new(),
            acc_c: BTreeMap::new(),
            latest_t: BTreeMap::new(),
            acc_t: BTreeMap::new(),
            published: None,
        }
    }

    fn justification(&self) -> v2::ProposalJustification {
        match (&self.hc, &self.ht) {
            (Some(c), Some(t)) if t.view.number > c.view().number => v2::ProposalJustification::Timeout(t.clone()),
            (Some(c), _) => v2::ProposalJustification::Commit(c.clone()),
            (None, Some(t)) => v2::ProposalJustification::Timeout(t.clone()),
            (None, None) => panic!("model: no certificate to justify a view"),
        }
    }

    fn absorb_commit(&mut self, c: &v2::CommitQC) {
        if self.hc.as_ref().is_none_or(|h| h.view().number < c.view().number) {
            self.hc = Some(c.clone());
        }
    }

    fn absorb_timeout(&mut self, t: &v2::TimeoutQC) {
        // the highest certificate reported inside the timeout certificate (selection by the roles crate, judged by C02)
        if let Some(c) = t.high_qc().cloned() {
            self.absorb_commit(&c);
        }
        if self.ht.as_ref().is_none_or(|h| h.view.number < t.view.number) {
            self.ht = Some(t.clone());
        }
    }

    fn absorb(&mut self, j: &v2::ProposalJustification) {
        match j {
            v2::ProposalJustification::Commit(c) => self.absorb_commit(c),
            v2::ProposalJustification::Timeout(t) => self.absorb_timeout(t),
        }
    }

    fn start_view(&mut self, b: u64, out: &mut Vec<Emit>) {
        self.v = b;
        self.phase = v2::Phase::Prepare;
        let j = self.justification();
        self.published = Some(j.clone());
        if let Some(hc) = &self.hc {
            let n = hc.header().number.0;
            self.cache.retain(|(k, _)| *k > n);
        }
        out.push(Emit::NewView(j));
    }

    /// Applies the input; returns (accepted, emitted).
    fn step(&mut self, w: &World, me: usize, engine: &SimEngine, input: &Input) -> Result<(bool, Vec<Emit>), String> {
        let (gh, ep, sch) = (w.committee.gh(), w.committee.epoch, &w.committee.schedule);
        let q = w.quorum();
        let mut out = vec![];
        let member = |k: &validator::PublicKey| w.index.get(k).copied();
        match input {
            Input::Timer => {
                self.phase = v2::Phase::Timeout;
                if self.v != 0 {
                    out.push(Emit::NewView(self.justification()));
                }
                out.push(Emit::Timeout(v2::ReplicaTimeout { view: w.committee.view(self.v), high_vote: self.hv.clone(), high_qc: self.hc.clone() }));
                Ok((true, out))
            }
            Input::Propose => {
                let Some(j) = self.published.clone() else { return Ok((true, out)) };
                if w.leader(just_view(&j)) != me {
                    return Ok((true, out));
                }
                let (number, forced) = j.get_implied_block(sch, w.first_block());
                let payload = match forced {
                    Some(_) => None,
                    None => {
                        if number.0 > 0 && engine.durable_next() < number.0 {
                            return Ok((false, out)); // cannot propose before the previous block is stored
                        }
                        let st = engine.st.lock().unwrap();
                        Some(SimEngine::payload_for(number.0, st.tag, st.propose_size))
                    }
                };
                out.push(Emit::Proposal(v2::LeaderProposal { proposal_payload: payload, justification: j }));
                Ok((true, out))
            }
            Input::Msg(m) => {
                let msg = &w.pool[*m].msg;
                let sig_ok = msg.verify().is_ok();
                let ConsensusMsg::V2(inner) = &msg.msg;
                match inner {
                    v2::ChonkyMsg::LeaderProposal(p) => {
                        let mv = just_view(&p.justification);
                        if mv < self.v || (mv == self.v && self.phase != v2::Phase::Prepare) {
                            return Ok((false, out));
                        }
                        if member(&msg.key) != Some(w.leader(mv)) || !sig_ok || p.justification.verify(gh, ep, sch).is_err() {
                            return Ok((false, out));
                        }
                        let (number, forced) = p.justification.get_implied_block(sch, w.first_block());
                        if number.0 < engine.st.lock().unwrap().first {
                            return Ok((false, out));
                        }
                        let hash = match (forced, &p.proposal_payload) {
                            (Some(_), Some(_)) => return Ok((false, out)),
                            (Some(h), None) => h,
                            (None, None) => return Ok((false, out)),
                            (None, Some(pl)) => {
                                if pl.len() > w.cfg.max_payload || (number.0 > 0 && engine.durable_next() < number.0) || rejects(pl) {
                                    return Ok((false, out));
                                }
                                self.cache.insert((number.0, pl.hash()));
                                pl.hash()
                            }
                        };
                        self.v = mv;
                        self.phase = v2::Phase::Commit;
                        let vote = v2::ReplicaCommit { view: w.committee.view(mv), proposal: v2::BlockHeader { number, payload: hash } };
                        self.hv = Some(vote.clone());
                        self.absorb(&p.justification);
                        out.push(Emit::Commit(vote));
                        Ok((true, out))
                    }
                    v2::ChonkyMsg::ReplicaCommit(c) => {
                        let Some(a) = member(&msg.key) else { return Ok((false, out)) };
                        let mv = c.view.number.0;
                        if mv < self.v || self.latest_c.get(&a).is_some_and(|l| *l >= mv) || !sig_ok || c.verify(gh, ep).is_err() {
                            return Ok((false, out));
                        }
                        self.acc_c.entry(mv).or_default().entry(c.clone()).or_default().insert(a, msg.clone().cast().unwrap());
                        self.latest_c.insert(a, mv);
                        let active: BTreeSet<u64> = self.latest_c.values().copied().collect();
                        self.acc_c.retain(|v, _| active.contains(v));
                        let signers = &self.acc_c[&mv][c];
                        if w.weight_of(signers.keys().copied()) >= q {
                            let mut qc = v2::CommitQC::new(c.clone(), sch);
                            for s in signers.values() {
                                qc.add(s, gh, ep, sch).map_err(|e| format!("model: cannot assemble certificate: {e:#}"))?;
                            }
                            self.acc_c.remove(&mv);
                            self.absorb_commit(&qc);
                            self.start_view(mv + 1, &mut out);
                        }
                        Ok((true, out))
                    }
                    v2::ChonkyMsg::ReplicaTimeout(t) => {
                        let Some(a) = member(&msg.key) else { return Ok((false, out)) };
                        let mv = t.view.number.0;
                        if mv < self.v || self.latest_t.get(&a).is_some_and(|l| *l >= mv) || !sig_ok || t.verify(gh, ep, sch).is_err() {
                            return Ok((false, out));
                        }
                        self.acc_t.entry(mv).or_default().insert(a, msg.clone().cast().unwrap());
                        self.latest_t.insert(a, mv);
                        let active: BTreeSet<u64> = self.latest_t.values().copied().collect();
                        self.acc_t.retain(|v, _| active.contains(v));
                        let signers = &self.acc_t[&mv];
                        if w.weight_of(signers.keys().copied()) >= q {
                            let mut qc = v2::TimeoutQC::new(t.view);
                            for s in signers.values() {
                                qc.add(s, gh, ep, sch).map_err(|e| format!("model: cannot assemble timeout certificate: {e:#}"))?;
                            }
                            self.acc_t.remove(&mv);
                            self.absorb_timeout(&qc);
                            self.start_view(mv + 1, &mut out);
                        }
                        Ok((true, out))
                    }
                    v2::ChonkyMsg::ReplicaNewView(n) => {
                        let mv = just_view(&n.justification);
                        if mv < self.v || (mv == self.v && member(&msg.key) != Some(w.leader(self.v))) {
                            return Ok((false, out));
                        }
                        if member(&msg.key).is_none() || !sig_ok || n.justification.verify(gh, ep, sch).is_err() {
                            return Ok((false, out));
                        }
                        self.absorb(&n.justification);
                        if mv > self.v {
                            self.start_view(mv, &mut out);
                        }
                        Ok((true, out))
                    }
                }
            }
        }
    }
}

fn rejects(p: &Payload) -> bool {
    p.0.first() == Some(&0xBD)
}

/// One model per correct node; `check` advances the node's model by the recorded step and compares.
#[derive(Default)]
pub struct ModelBank {
    models: BTreeMap<usize, Model>,
    pub compared: u64,
    pub skipped_internal: u64,
}

impl ModelBank {
    pub fn check(&mut self, w: &World, rec: &StepRecord) -> Result<(), String> {
        let me = rec.node;
        let fresh = self.models.get(&me).is_none_or(|m| m.incarnation != rec.incarnation);
        if fresh {
            self.models.insert(me, Model::from_snapshot(rec.incarnation, &rec.before));
        }
        let internal = matches!(&rec.out, StepOut::Handled(Outcome::Internal(_)) | StepOut::Timer(Err(_)) | StepOut::Proposed(Err(_)));
        if internal {
            // a storage failure / cancellation aborts the handler half-way: the process is gone, nothing to compare
            self.skipped_internal += 1;
            self.models.remove(&me);
            return Ok(());
        }
        let model = self.models.get_mut(&me).unwrap();
        let who = format!("node {me} step {} input {}", rec.seq, describe(w, &rec.input));
        // the model must agree with where the replica was before the step
        if (model.v, model.phase, &model.hv) != (rec.before.view.0, rec.before.phase, &rec.before.high_vote) {
            return Err(format!("{who}: harness model out of sync before the step (model view {} {:?}, replica view {} {:?})", model.v, model.phase, rec.before.view.0, rec.before.phase));
        }
        let engine = &w.node(me).engine;
        let (accept, emits) = model.step(w, me, engine, &rec.input)?;
        let real_accept = match &rec.out {
            StepOut::Handled(Outcome::Accepted) => true,
            StepOut::Handled(Outcome::Rejected(_)) => false,
            StepOut::Timer(Ok(())) => true,
            StepOut::Proposed(Ok(_)) => true,
            _ => unreachable!(),
        };
        self.compared += 1;
        if let Input::Propose = rec.input {
            // a proposer that cannot build a proposal yet simply produces nothing
            let real: Vec<Emit> = rec.emitted.iter().map(|e| emit_of(&w.pool[*e].msg)).collect();
            if real != emits && !(real.is_empty() && !accept) {
                return Err(format!("{who}: the specification prescribes {:?}, the proposer produced {:?}", emits.iter().map(short).collect::<Vec<_>>(), real.iter().map(short).collect::<Vec<_>>()));
            }
            return Ok(());
        }
        if accept != real_accept {
            return Err(format!(
                "{who}: the specification says {} but the replica {} it ({:?})",
                if accept { "ACCEPT" } else { "REJECT" },
                if real_accept { "accepted" } else { "rejected" },
                rec.out
            ));
        }
        let a = &rec.after;
        if model.v != a.view.0 || model.phase != a.phase {
            return Err(format!("{who}: specification -> view {} phase {:?}; replica -> view {} phase {:?}", model.v, model.phase, a.view.0, a.phase));
        }
        if model.hv != a.high_vote {
            return Err(format!("{who}: high vote differs from the specification: {:?} vs {:?}", model.hv.as_ref().map(|v| (v.view.number.0, v.proposal.number.0)), a.high_vote.as_ref().map(|v| (v.view.number.0, v.proposal.number.0))));
        }
        if model.hc != a.high_commit_qc {
            return Err(format!("{who}: highest commit certificate differs from the specification: view {:?} vs {:?}", model.hc.as_ref().map(|q| q.view().number.0), a.high_commit_qc.as_ref().map(|q| q.view().number.0)));
        }
        if model.ht != a.high_timeout_qc {
            return Err(format!("{who}: highest timeout certificate differs from the specification: view {:?} vs {:?}", model.ht.as_ref().map(|q| q.view.number.0), a.high_timeout_qc.as_ref().map(|q| q.view.number.0)));
        }
        let cached: BTreeSet<(u64, validator::PayloadHash)> = a.cached.iter().map(|(n, h)| (n.0, *h)).collect();
        if model.cache != cached {
            return Err(format!("{who}: cached proposal payloads differ from the specification: blocks {:?} vs {:?}", model.cache.iter().map(|x| x.0).collect::<Vec<_>>(), cached.iter().map(|x| x.0).collect::<Vec<_>>()));
        }
        if model.latest_c.len() != a.commit_views || model.latest_t.len() != a.timeout_views || model.acc_c.len() != a.commit_qc_views || model.acc_t.len() != a.timeout_qc_views {
            return Err(format!(
                "{who}: vote bookkeeping differs from the specification (latest votes {} / {} vs {} / {}, views with partial certificates {} / {} vs {} / {})",
                model.latest_c.len(), model.latest_t.len(), a.commit_views, a.timeout_views, model.acc_c.len(), model.acc_t.len(), a.commit_qc_views, a.timeout_qc_views
            ));
        }
        let real: Vec<Emit> = rec.emitted.iter().map(|e| emit_of(&w.pool[*e].msg)).collect();
        if real != emits {
            return Err(format!(
                "{who}: the specification prescribes the messages {:?}, the replica emitted {:?}",
                emits.iter().map(short).collect::<Vec<_>>(),
                real.iter().map(short).collect::<Vec<_>>()
            ));
        }
        Ok(())
    }
}

fn describe(w: &World, i: &Input) -> String {
    match i {
        Input::Msg(m) => format!("{:?}(view {}) from {:?}{}", crate::sim::kind_of(&w.pool[*m].msg), crate::sim::view_of(&w.pool[*m].msg), w.pool[*m].from, if w.pool[*m].crafted { " [crafted]" } else { "" }),
        other => format!("{other:?}"),
    }
}
