fn main() {
    concprop::engine_main()
}
