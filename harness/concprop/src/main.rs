//! Checks over the structured-concurrency runtime: C17.
mod c17;

fn main() {
    let env = common::Env::from_args();
    let code = match env.property.as_str() {
        "C17" => c17::main(&env),
        p => {
            eprintln!("concprop: unknown property {p}");
            2
        }
    };
    std::process::exit(code);
}
