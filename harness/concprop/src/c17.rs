//! C17 Task scopes join every task, report a first failure and cancel the rest.
//!
//! Generated task trees are interpreted on the real `scope::run!` on the deterministic runtime
//! (generator-owned schedule: yield counts, virtual sleeps on a manual clock). Every task logs its
//! start, observed cancellation and end with a global sequence number; the oracle is an invariant
//! over that log, judged per scope (nested scopes included).
use std::{
    collections::{BTreeMap, BTreeSet},
    future::Future,
    pin::Pin,
    sync::{Arc, Mutex},
};

use common::{det, run_proptest, Choices, Env, Mode, PartOpts, PartReport, Stats};
use proptest::prelude::*;
use serde::{Deserialize, Serialize};
use zksync_concurrency::{ctx, scope, time};

#[derive(Debug, Clone, Serialize, Deserialize, Hash)]
pub enum Step {
    Yield(u8),
    /// Sleep this many ms on the (manual) clock of the context.
    Sleep(u8),
    /// Spawn a main task.
    Spawn(TaskSpec),
    /// Spawn a background task.
    SpawnBg(TaskSpec),
    /// Join the k-th task spawned by this task so far (if any).
    Join(u8),
    /// Park until the context is cancelled.
    WaitCancel,
    /// Run a nested scope whose root task has this body; an error of the nested scope is returned by this task.
    Nested(TaskSpec),
    /// A child context with a deadline this many ms from now; park until it is cancelled.
    WaitChildDeadline(u8),
}

#[derive(Debug, Clone, Copy, Serialize, Deserialize, Hash, PartialEq)]
pub enum Ret {
    Ok,
    Err,
    Panic,
}

#[derive(Debug, Clone, Serialize, Deserialize, Hash)]
pub struct TaskSpec {
    steps: Vec<Step>,
    ret: Ret,
}

#[derive(Debug, Clone, Serialize, Deserialize, Hash)]
pub struct Case {
    root: TaskSpec,
    /// The caller's context is cancelled (deadline) at this time (ms).
    ext_cancel_at: u8,
}

const CANCEL_BASE: u32 = 1_000_000;

#[derive(Debug, Clone, PartialEq)]
enum Out {
    Ok(u32),
    Err(u32),
    Panic,
}

#[derive(Debug, Clone)]
enum Ev {
    ScopeStart { scope: u32, parent_scope: Option<u32> },
    Start { task: u32, scope: u32, main: bool },
    /// The task starts waiting for the cancellation of its context.
    Parked { task: u32, scope: u32 },
    CancelSeen { task: u32, scope: u32 },
    /// Released from a wait on a child context (own deadline or inherited cancellation).
    Unparked { task: u32 },
    End { task: u32, scope: u32, out: Out },
    ScopeRet { scope: u32, out: Out },
    ExtCancel,
}

#[derive(Default)]
struct Log {
    ev: Vec<Ev>,
    next_task: u32,
    next_scope: u32,
}

type L = Arc<Mutex<Log>>;

fn gen_task(ch: &mut Choices, depth: usize, budget: &mut usize, allow_panic: bool) -> TaskSpec {
    let n = ch.below(5);
    let mut steps = vec![];
    for _ in 0..n {
        let k = ch.below(12);
        steps.push(match k {
            0 | 1 => Step::Yield(ch.below(4) as u8),
            2 => Step::Sleep(ch.below(20) as u8),
            3 | 4 if depth < 3 && *budget > 0 => {
                *budget -= 1;
                Step::Spawn(gen_task(ch, depth + 1, budget, allow_panic))
            }
            5 | 6 if depth < 3 && *budget > 0 => {
                *budget -= 1;
                Step::SpawnBg(gen_task(ch, depth + 1, budget, allow_panic))
            }
            7 => Step::Join(ch.below(3) as u8),
            8 => Step::WaitCancel,
            9 if depth < 2 && *budget > 0 => {
                *budget -= 1;
                Step::Nested(gen_task(ch, depth + 1, budget, allow_panic))
            }
            10 => Step::WaitChildDeadline(ch.below(15) as u8),
            _ => Step::Yield(1),
        });
    }
    let ret = ch.weighted(&[(6, Ret::Ok), (3, Ret::Err), (if allow_panic { 1 } else { 0 }, Ret::Panic)]);
    TaskSpec { steps, ret }
}

pub fn gen_case(ch: &mut Choices) -> Case {
    let mut budget = 11;
    let allow_panic = ch.chance(1, 3);
    Case { root: gen_task(ch, 0, &mut budget, allow_panic), ext_cancel_at: ch.pick(&[0u8, 1, 5, 10, 30, 60, 60, 60]) }
}

type BoxFut<'a, T> = Pin<Box<dyn 'a + Send + Future<Output = T>>>;

/// Logs `ev` when dropped unless defused: records the end of a task / the return of a nested scope
/// when a panic unwinds through it.
struct OnUnwind<'a> {
    log: &'a L,
    ev: Option<Ev>,
}
impl Drop for OnUnwind<'_> {
    fn drop(&mut self) {
        if let Some(ev) = self.ev.take() {
            self.log.lock().unwrap().ev.push(ev);
        }
    }
}

/// Interprets the body of one task.
fn run_body<'a>(ctx: &'a ctx::Ctx, s: &'a scope::Scope<'a, u32>, spec: &'a TaskSpec, task: u32, scope_id: u32, log: &'a L) -> BoxFut<'a, Result<u32, u32>> {
    Box::pin(async move {
        let mut children: Vec<Option<scope::JoinHandle<'a, u32>>> = vec![];
        let mut unwind = OnUnwind { log, ev: Some(Ev::End { task, scope: scope_id, out: Out::Panic }) };
        let mut end = |out: Out| {
            unwind.ev = None;
            log.lock().unwrap().ev.push(Ev::End { task, scope: scope_id, out });
        };
        for step in &spec.steps {
            match step {
                Step::Yield(k) => det::yields(*k as usize).await,
                Step::Sleep(ms) => {
                    if ctx.sleep(time::Duration::milliseconds(*ms as i64)).await.is_err() {
                        log.lock().unwrap().ev.push(Ev::CancelSeen { task, scope: scope_id });
                        end(Out::Err(CANCEL_BASE + task));
                        return Err(CANCEL_BASE + task);
                    }
                }
                Step::Spawn(t) | Step::SpawnBg(t) => {
                    let main = matches!(step, Step::Spawn(_));
                    let id = {
                        let mut g = log.lock().unwrap();
                        g.next_task += 1;
                        let id = g.next_task;
                        g.ev.push(Ev::Start { task: id, scope: scope_id, main });
                        id
                    };
                    let fut = run_body(ctx, s, t, id, scope_id, log);
                    children.push(Some(if main { s.spawn(fut) } else { s.spawn_bg(fut) }));
                }
                Step::Join(k) => {
                    if let Some(slot) = children.get_mut(*k as usize) {
                        if let Some(h) = slot.take() {
                            if h.join(ctx).await.is_err() {
                                log.lock().unwrap().ev.push(Ev::CancelSeen { task, scope: scope_id });
                                end(Out::Err(CANCEL_BASE + task));
                                return Err(CANCEL_BASE + task);
                            }
                        }
                    }
                }
                Step::WaitCancel => {
                    log.lock().unwrap().ev.push(Ev::Parked { task, scope: scope_id });
                    ctx.canceled().await;
                    log.lock().unwrap().ev.push(Ev::CancelSeen { task, scope: scope_id });
                }
                Step::WaitChildDeadline(ms) => {
                    let child = ctx.with_timeout(time::Duration::milliseconds(*ms as i64));
                    log.lock().unwrap().ev.push(Ev::Parked { task, scope: scope_id });
                    child.canceled().await;
                    log.lock().unwrap().ev.push(Ev::Unparked { task });
                }
                Step::Nested(root) => {
                    let (inner, root_id) = {
                        let mut g = log.lock().unwrap();
                        g.next_scope += 1;
                        g.next_task += 1;
                        let (sc, id) = (g.next_scope, g.next_task);
                        g.ev.push(Ev::ScopeStart { scope: sc, parent_scope: Some(scope_id) });
                        g.ev.push(Ev::Start { task: id, scope: sc, main: true });
                        (sc, id)
                    };
                    let mut ret_guard = OnUnwind { log, ev: Some(Ev::ScopeRet { scope: inner, out: Out::Panic }) };
                    let r: Result<u32, u32> = scope::run!(ctx, |ctx, s| run_body(ctx, s, root, root_id, inner, log)).await;
                    ret_guard.ev = None;
                    log.lock().unwrap().ev.push(Ev::ScopeRet { scope: inner, out: match r { Ok(v) => Out::Ok(v), Err(e) => Out::Err(e) } });
                    if let Err(e) = r {
                        end(Out::Err(e));
                        return Err(e);
                    }
                }
            }
        }
        match spec.ret {
            Ret::Ok => {
                end(Out::Ok(task));
                Ok(task)
            }
            Ret::Err => {
                end(Out::Err(task));
                Err(task)
            }
            Ret::Panic => {
                end(Out::Panic);
                panic!("scripted panic of task {task}");
            }
        }
    })
}

/// Whether the context of `scope` must be cancelled given the events so far: a task of the scope (or of
/// an enclosing scope) has failed, or every main task started so far had finished at some point, or
/// the caller cancelled. Cancellation is permanent.
fn cause_exists(log: &[Ev], scope: u32, parent: &BTreeMap<u32, Option<u32>>) -> bool {
    if log.iter().any(|e| matches!(e, Ev::ExtCancel)) {
        return true;
    }
    let mut sc = Some(scope);
    while let Some(s) = sc {
        let mut open_mains: BTreeSet<u32> = BTreeSet::new();
        let mut seen_main = false;
        for e in log {
            match e {
                Ev::Start { task, scope, main: true } if *scope == s => {
                    open_mains.insert(*task);
                    seen_main = true;
                }
                Ev::End { task, scope, out } if *scope == s => {
                    if !matches!(out, Out::Ok(_)) {
                        return true;
                    }
                    open_mains.remove(task);
                    if seen_main && open_mains.is_empty() {
                        return true;
                    }
                }
                _ => {}
            }
        }
        sc = parent.get(&s).copied().flatten();
    }
    false
}

/// At a quiescent point: no task may still be parked on a context that must already be cancelled.
fn parked_despite_cause(log: &[Ev]) -> Option<(u32, u32)> {
    let mut parent: BTreeMap<u32, Option<u32>> = BTreeMap::new();
    let mut parked: BTreeMap<u32, u32> = BTreeMap::new();
    for e in log {
        match e {
            Ev::ScopeStart { scope, parent_scope } => {
                parent.insert(*scope, *parent_scope);
            }
            Ev::Parked { task, scope } => {
                parked.insert(*task, *scope);
            }
            Ev::CancelSeen { task, .. } | Ev::Unparked { task } => {
                parked.remove(task);
            }
            _ => {}
        }
    }
    parked.into_iter().find(|(_, sc)| cause_exists(log, *sc, &parent))
}

fn judge(log: &[Ev], top: Out) -> Result<(), String> {
    // collect scopes
    let mut parent: BTreeMap<u32, Option<u32>> = BTreeMap::new();
    for e in log {
        if let Ev::ScopeStart { scope, parent_scope } = e {
            parent.insert(*scope, *parent_scope);
        }
    }
    let mut rets: BTreeMap<u32, (usize, Out)> = BTreeMap::new();
    for (i, e) in log.iter().enumerate() {
        if let Ev::ScopeRet { scope, out } = e {
            rets.insert(*scope, (i, out.clone()));
        }
    }
    rets.insert(0, (log.len(), top));
    for (&sc, (ret_at, out)) in &rets {
        let mut started: BTreeMap<u32, bool> = BTreeMap::new();
        let mut ended: BTreeSet<u32> = BTreeSet::new();
        let mut first_err: Option<u32> = None;
        let mut panicked = false;
        let mut root_value = None;
        for e in &log[..*ret_at] {
            match e {
                Ev::Start { task, scope, main } if *scope == sc => {
                    started.insert(*task, *main);
                }
                Ev::End { task, scope, out } if *scope == sc => {
                    ended.insert(*task);
                    match out {
                        Out::Err(e) if first_err.is_none() => first_err = Some(*e),
                        Out::Panic => panicked = true,
                        Out::Ok(v) if root_value.is_none() && started.keys().next() == Some(task) => root_value = Some(*v),
                        _ => {}
                    }
                }
                _ => {}
            }
        }
        // (1) every task of the scope has finished before the scope returns
        let unfinished: Vec<_> = started.keys().filter(|t| !ended.contains(t)).collect();
        if !unfinished.is_empty() {
            return Err(format!("scope {sc} returned while its tasks {unfinished:?} had not finished"));
        }
        for e in &log[*ret_at..] {
            if let Ev::Start { task, scope, .. } | Ev::End { task, scope, .. } = e {
                if *scope == sc {
                    return Err(format!("task {task} of scope {sc} was still active after the scope returned"));
                }
            }
        }
        // (2)-(4) result
        let want = if panicked {
            Out::Panic
        } else if let Some(e) = first_err {
            Out::Err(e)
        } else {
            Out::Ok(root_value.ok_or_else(|| format!("harness: scope {sc} has no root value"))?)
        };
        if *out != want {
            return Err(format!("scope {sc} returned {out:?}; by the log (first failure in execution order, panic overrides) it must return {want:?}"));
        }
    }
    // (5) cancellation is observed only after a cause
    for (i, e) in log.iter().enumerate() {
        let Ev::CancelSeen { task, scope } = e else { continue };
        if !cause_exists(&log[..i], *scope, &parent) {
            return Err(format!("task {task} (scope {scope}) saw its context cancelled although no task had failed, a main task was still running and the caller had not cancelled"));
        }
    }
    Ok(())
}

pub fn check(case: &Case, st: &mut Stats) -> Result<(), String> {
    // the scope implementation contains unsafe code (lifetime erasure): if it ever returned while tasks
    // still run, the process may die; the case being executed is kept for the crash handler
    common::crashdump::set_current(&serde_json::to_vec(&serde_json::json!({"property": "C17", "part": "scopes", "reason": "the process died (SIGSEGV/SIGABRT) while executing this case", "case": case})).unwrap());
    let r = check_inner(case, st);
    common::crashdump::clear_current();
    r
}

fn check_inner(case: &Case, st: &mut Stats) -> Result<(), String> {
    det::run(|| async {
        let life = det::Life::new();
        let log: L = Arc::new(Mutex::new(Log::default()));
        let caller = life.ctx.with_deadline((life.clock.now() + time::Duration::milliseconds(case.ext_cancel_at as i64)).into());
        log.lock().unwrap().ev.push(Ev::ScopeStart { scope: 0, parent_scope: None });
        log.lock().unwrap().ev.push(Ev::Start { task: 0, scope: 0, main: true });
        if case.ext_cancel_at == 0 {
            log.lock().unwrap().ev.push(Ev::ExtCancel);
        }
        let case2 = case.clone();
        let log2 = log.clone();
        let mut top = tokio::spawn(async move {
            let r: Result<u32, u32> = scope::run!(&caller, |ctx, s| run_body(ctx, s, &case2.root, 0, 0, &log2)).await;
            r
        });
        let mut result = None;
        let mut prompt_violation: Option<String> = None;
        for t in 0..=90u32 {
            if let Some(r) = det::until_quiescent(&mut top).await {
                result = Some(r);
                break;
            }
            // quiescent: cancellation must have reached every waiter of a scope that has a cause
            if let Some((task, sc)) = parked_despite_cause(&log.lock().unwrap().ev) {
                prompt_violation = Some(format!(
                    "at a quiescent point task {task} (scope {sc}) is still waiting for cancellation although a task of its scope has failed / all main tasks have finished / the caller has cancelled"
                ));
            }
            // the advance below moves the clock to t+1 ms
            if t + 1 == case.ext_cancel_at as u32 {
                log.lock().unwrap().ev.push(Ev::ExtCancel);
            }
            life.clock.advance(time::Duration::milliseconds(1));
        }
        let Some(result) = result else {
            // An unfinished scope cannot be dropped (it aborts the process by design): report and exit.
            common::emergency_violation(
                "scopes",
                serde_json::to_value(case).unwrap(),
                "the scope did not return although its caller's context was cancelled 30+ ms ago and every sleep has expired (lost cancellation / lost termination signal)",
            );
        };
        let top_out = match result {
            Ok(Ok(v)) => Out::Ok(v),
            Ok(Err(e)) => Out::Err(e),
            Err(e) if e.is_panic() => Out::Panic,
            Err(e) => return Err(format!("harness: {e}")),
        };
        let g = log.lock().unwrap();
        let n_tasks = g.ev.iter().filter(|e| matches!(e, Ev::Start { .. })).count();
        let failures = g.ev.iter().filter(|e| matches!(e, Ev::End { out: Out::Err(_) | Out::Panic, .. })).count();
        let waiters = g.ev.iter().filter(|e| matches!(e, Ev::CancelSeen { .. })).count();
        let nested = g.ev.iter().filter(|e| matches!(e, Ev::ScopeStart { .. })).count() - 1;
        st.class(match &top_out {
            Out::Ok(_) => "returns_ok",
            Out::Err(e) if *e >= CANCEL_BASE => "returns_cancellation_error",
            Out::Err(_) => "returns_task_error",
            Out::Panic => "panics",
        });
        if nested > 0 {
            st.class("nested_scope");
        }
        if n_tasks >= 3 && waiters >= 1 && failures >= 1 {
            st.nontrivial(common::fingerprint(case));
        }
        st.max("max_tasks", n_tasks as u64);
        st.sample(|| serde_json::json!({"case": case, "result": format!("{top_out:?}"), "events": g.ev.len()}));
        let verdict = match prompt_violation {
            Some(v) => Err(v),
            None => judge(&g.ev, top_out),
        };
        drop(g);
        life.end(Vec::<tokio::task::JoinHandle<()>>::new()).await;
        verdict
    })
}

// ---------------------------------------------------------------------------------------------
// real threads: programs whose outcome is the same under EVERY interleaving

/// One task fails of its own accord (`Err(1)`); every other task only reacts to the cancellation that this
/// failure causes (async waiters on `ctx.canceled()`, blocking tasks spinning on `ctx.is_active()`), some of them
/// by failing too (`Err(2)`, `Err(3)`). Whatever the OS schedule, no task can fail strictly before the first one,
/// so the scope must return `Err(1)`.
#[derive(Debug, Clone, Serialize, Deserialize, Hash)]
pub struct ThreadsCase {
    /// 0: the root task fails (it is the only main task); 1: the root returns Ok after spawning a main task which fails a little later;
    /// 2: as 1, but the failing main task is a blocking task.
    shape: u8,
    /// Async background tasks waiting for cancellation; `waiters_fail` of them then return Err(3).
    waiters: u32,
    waiters_fail: u32,
    /// Blocking background tasks spinning on `is_active()`, then returning Err(2).
    spinners: u8,
    /// Worker threads of the runtime.
    workers: u8,
    /// Yields of the failing task before it fails.
    delay_yields: u16,
    reps: u16,
}

pub fn gen_threads(ch: &mut Choices) -> ThreadsCase {
    let waiters = ch.pick(&[0u32, 1, 10, 300, 3000, 20000]);
    ThreadsCase {
        shape: ch.below(3) as u8,
        waiters,
        waiters_fail: if waiters > 0 { ch.below(1 + waiters.min(50) as usize) as u32 } else { 0 },
        spinners: 1 + ch.below(3) as u8,
        workers: ch.pick(&[2u8, 4, 8]),
        delay_yields: ch.pick(&[0u16, 1, 10, 100]),
        reps: 12,
    }
}

pub fn check_threads(case: &ThreadsCase, st: &mut Stats) -> Result<(), String> {
    use std::sync::atomic::{AtomicU32, Ordering};
    use zksync_concurrency::{ctx, scope};
    let rt = tokio::runtime::Builder::new_multi_thread().worker_threads(case.workers.clamp(1, 16) as usize).enable_all().build().map_err(|e| format!("INFRA: runtime: {e}"))?;
    let mut verdict = Ok(());
    for rep in 0..case.reps.max(1) {
        let res: Result<u32, u32> = rt.block_on(async {
            let ctx = &ctx::root();
            let waiting = &AtomicU32::new(0);
            let n = case.waiters;
            scope::run!(ctx, |ctx, s| async move {
                for k in 0..n {
                    let fail = k < case.waiters_fail;
                    s.spawn_bg(async move {
                        waiting.fetch_add(1, Ordering::SeqCst);
                        ctx.canceled().await;
                        if fail {
                            Err(3)
                        } else {
                            Ok(())
                        }
                    });
                }
                for _ in 0..case.spinners {
                    s.spawn_bg_blocking(move || {
                        while ctx.is_active() {
                            std::hint::spin_loop();
                        }
                        Result::<(), u32>::Err(2)
                    });
                }
                // the failing task: waits until every waiter is registered, idles a little, fails
                let fail_later = async move {
                    while waiting.load(Ordering::SeqCst) < n {
                        tokio::task::yield_now().await;
                    }
                    for _ in 0..case.delay_yields {
                        tokio::task::yield_now().await;
                    }
                    Result::<u32, u32>::Err(1)
                };
                match case.shape % 3 {
                    0 => fail_later.await,
                    1 => {
                        s.spawn(async move { fail_later.await.map(|_| ()) });
                        Ok(7)
                    }
                    _ => {
                        s.spawn_blocking(move || {
                            while waiting.load(Ordering::SeqCst) < n {
                                std::thread::yield_now();
                            }
                            for _ in 0..case.delay_yields {
                                std::thread::yield_now();
                            }
                            Result::<(), u32>::Err(1)
                        });
                        Ok(7)
                    }
                }
            })
            .await
        });
        if res != Err(1) {
            verdict = Err(format!(
                "repetition {rep}: the scope returned {res:?}; the only task that fails before the scope is cancelled returns Err(1), the others fail only after observing the cancellation it causes"
            ));
            break;
        }
    }
    rt.shutdown_timeout(std::time::Duration::from_secs(5));
    if case.waiters >= 300 {
        st.class("many_cancellation_waiters");
        st.nontrivial(common::fingerprint(case));
    }
    st.class(match case.shape % 3 {
        0 => "root_fails_first",
        1 => "last_main_task_fails_first",
        _ => "last_blocking_main_task_fails_first",
    });
    st.sample(|| serde_json::to_value(case).unwrap());
    verdict
}


// ---------------------------------------------------------------------------------------------
// blocking scopes (`run_blocking!`) on real threads

/// A `scope::run_blocking!` call on a blocking thread. Its root task (a closure, not a future) spawns the children,
/// waits until all of them have started and then ends as scripted. Every child waits for the cancellation of the
/// scope, lingers for a few milliseconds, marks itself done and returns Ok or Err(2). Whatever the OS schedule:
/// when the call returns or unwinds, every child is done; a root panic is re-raised; a root error is the first error.
#[derive(Debug, Clone, Serialize, Deserialize, Hash)]
pub struct BlockingCase {
    /// How the root ends: 0 Ok(7), 1 Err(1), 2 panic.
    root: u8,
    /// (blocking task?, background task?, milliseconds it lingers after the cancellation, 0 = returns Ok / 1 = returns Err(2))
    children: Vec<(bool, bool, u8, u8)>,
    /// The scripted scope is a nested `run_blocking!` inside the root task of an outer `run_blocking!`.
    nested: bool,
    workers: u8,
    reps: u16,
}

pub fn gen_blocking(ch: &mut Choices) -> BlockingCase {
    let root = ch.pick(&[2u8, 0, 1, 2, 1]);
    let n = 1 + ch.below(5);
    let children = (0..n)
        .map(|_| {
            // with a root that returns Ok only background tasks may wait for the cancellation (a main task would wait for ever)
            let bg = root == 0 || ch.bool();
            (ch.bool(), bg, ch.pick(&[0u8, 1, 5, 20, 40]), ch.chance(1, 3) as u8)
        })
        .collect();
    BlockingCase { root, children, nested: ch.chance(1, 3), workers: ch.pick(&[2u8, 4]), reps: 4 }
}

pub fn check_blocking(case: &BlockingCase, st: &mut Stats) -> Result<(), String> {
    use std::sync::atomic::{AtomicU32, Ordering};
    use zksync_concurrency::{ctx, scope};
    let rt = tokio::runtime::Builder::new_multi_thread().worker_threads(case.workers.clamp(1, 16) as usize).enable_all().build().map_err(|e| format!("INFRA: runtime: {e}"))?;
    let n = case.children.len() as u32;
    let mut verdict = Ok(());
    for rep in 0..case.reps.max(1) {
        let started = Arc::new(AtomicU32::new(0));
        let done = Arc::new(AtomicU32::new(0));
        let (started2, done2, case2) = (started.clone(), done.clone(), case.clone());
        // the scripted scope; returns (result or panic, children done at the instant the call ended)
        let scripted = move |ctx: &ctx::Ctx| -> (std::thread::Result<Result<u32, u32>>, u32) {
            let (started, done, case) = (&started2, &done2, &case2);
            let r = std::panic::catch_unwind(std::panic::AssertUnwindSafe(|| {
                scope::run_blocking!(ctx, |ctx, s| {
                    for (blocking, bg, linger, fails) in case.children.iter().copied() {
                        let (started, done) = (started.clone(), done.clone());
                        let ret = move || if fails == 1 { Result::<(), u32>::Err(2) } else { Ok(()) };
                        if blocking {
                            let f = move || {
                                started.fetch_add(1, Ordering::SeqCst);
                                ctx.canceled().block();
                                std::thread::sleep(std::time::Duration::from_millis(linger as u64));
                                done.fetch_add(1, Ordering::SeqCst);
                                ret()
                            };
                            if bg {
                                s.spawn_bg_blocking(f);
                            } else {
                                s.spawn_blocking(f);
                            }
                        } else {
                            let f = async move {
                                started.fetch_add(1, Ordering::SeqCst);
                                ctx.canceled().await;
                                tokio::time::sleep(std::time::Duration::from_millis(linger as u64)).await;
                                done.fetch_add(1, Ordering::SeqCst);
                                ret()
                            };
                            if bg {
                                s.spawn_bg(f);
                            } else {
                                s.spawn(f);
                            }
                        }
                    }
                    while started.load(Ordering::SeqCst) < case.children.len() as u32 {
                        std::thread::yield_now();
                    }
                    match case.root {
                        0 => Ok(7),
                        1 => Err(1),
                        _ => panic!("scripted panic of the root task of a blocking scope"),
                    }
                })
            }));
            let d = done.load(Ordering::SeqCst);
            (r, d)
        };
        let nested = case.nested;
        let outcome = rt.block_on(async move {
            tokio::task::spawn_blocking(move || {
                let ctx = &ctx::root();
                if !nested {
                    return scripted(ctx);
                }
                // the scripted scope runs inside the root task of an outer blocking scope and its outcome is forwarded
                let seen: std::sync::Mutex<Option<u32>> = std::sync::Mutex::new(None);
                let outer = std::panic::catch_unwind(std::panic::AssertUnwindSafe(|| {
                    scope::run_blocking!(ctx, |ctx, _s| {
                        let (r, d) = scripted(ctx);
                        *seen.lock().unwrap() = Some(d);
                        match r {
                            Ok(r) => r,
                            Err(p) => std::panic::resume_unwind(p),
                        }
                    })
                }));
                let d = seen.lock().unwrap().unwrap_or(0);
                (outer, d)
            })
            .await
        });
        let (res, done_at_return) = match outcome {
            Ok(x) => x,
            Err(e) => {
                verdict = Err(format!("harness: the thread running the blocking scope failed: {e}"));
                break;
            }
        };
        // let lingering tasks finish before anything is judged or dropped
        let t0 = std::time::Instant::now();
        while done.load(Ordering::SeqCst) < n && t0.elapsed() < std::time::Duration::from_secs(5) {
            std::thread::sleep(std::time::Duration::from_millis(1));
        }
        let reactive_errors = case.children.iter().any(|c| c.3 == 1);
        let res_txt = match &res {
            Ok(r) => format!("{r:?}"),
            Err(_) => "panic".to_string(),
        };
        if done_at_return < n {
            verdict = Err(format!("repetition {rep}: run_blocking! ended ({res_txt}) while only {done_at_return} of its {n} tasks had finished"));
            break;
        }
        let ok = match (case.root, &res) {
            (2, Err(_)) => true,
            (1, Ok(Err(1))) => true,
            (0, Ok(Ok(7))) => !reactive_errors,
            (0, Ok(Err(2))) => reactive_errors,
            _ => false,
        };
        if !ok {
            verdict = Err(format!(
                "repetition {rep}: run_blocking! ended with {res_txt}; the root task ends with {} after all tasks have started and the other tasks only react to the cancellation{}",
                ["Ok(7)", "Err(1)", "a panic"][case.root.min(2) as usize],
                if reactive_errors { " (some by returning Err(2))" } else { "" }
            ));
            break;
        }
    }
    rt.shutdown_timeout(std::time::Duration::from_secs(5));
    st.class(["root_returns_ok", "root_returns_err", "root_panics"][case.root.min(2) as usize]);
    if case.nested {
        st.class("nested_blocking_scope");
    }
    if case.children.iter().any(|c| c.2 >= 5) {
        st.class("task_lingers_after_cancellation");
        st.nontrivial(common::fingerprint(case));
    }
    st.sample(|| serde_json::to_value(case).unwrap());
    verdict
}

// ---------------------------------------------------------------------------------------------
// sync_root: the synchronous part of the root closure of an async scope spawns tasks and then panics.
// A correct scope either never gives control back (the documented must-complete guard aborts the process) or gives it
// back only after every spawned task has finished; it must never return while a task is still running. Since the
// outcome on a correct implementation is a process abort, every case runs in a child process.

#[derive(Debug, Clone, Serialize, Deserialize, Hash)]
pub struct SyncRootCase {
    /// (blocking, background, linger ms after the cancellation)
    children: Vec<(bool, bool, u8)>,
    /// 0 = the closure panics after its spawns, 1 = before them (control), 2 = the root *future* panics at its first poll (control)
    mode: u8,
    /// The scope runs inside a task of an outer scope.
    nested: bool,
    workers: u8,
}

pub fn gen_sync_root(ch: &mut Choices) -> SyncRootCase {
    let k = 1 + ch.below(4);
    SyncRootCase {
        children: (0..k).map(|_| (ch.chance(1, 3), ch.bool(), ch.pick(&[0u8, 0, 5, 30]))).collect(),
        mode: ch.weighted(&[(6, 0u8), (1, 1), (1, 2)]),
        nested: ch.chance(1, 3),
        workers: 1 + ch.below(3) as u8,
    }
}

/// Child process: runs the program; exit 0 = control came back with every task finished, 17 = it came back early,
/// death by SIGABRT = it never came back.
pub fn sync_root_child(spec: &str) -> ! {
    use std::sync::atomic::{AtomicU32, Ordering};
    use zksync_concurrency::{ctx, scope};
    let case: SyncRootCase = serde_json::from_str(spec).expect("child spec");
    std::panic::set_hook(Box::new(|_| {}));
    common::crashdump::no_core_dumps();
    let rt = tokio::runtime::Builder::new_multi_thread().worker_threads(case.workers.clamp(1, 8) as usize).enable_all().build().unwrap();
    let n = case.children.len() as u32;
    let started = Arc::new(AtomicU32::new(0));
    let done = Arc::new(AtomicU32::new(0));
    let (started2, done2, case2) = (started.clone(), done.clone(), case.clone());
    async fn scripted(ctx: &ctx::Ctx, started: Arc<AtomicU32>, done: Arc<AtomicU32>, case: SyncRootCase) -> Result<(), u32> {
        let (started, done, case) = (&started, &done, &case);
        let res: Result<(), u32> = scope::run!(ctx, |ctx, s| {
            if case.mode == 1 {
                panic!("scripted panic of the root closure before its spawns");
            }
            for (blocking, bg, linger) in case.children.iter().copied() {
                let (started, done) = (started.clone(), done.clone());
                if blocking {
                    let f = move || {
                        started.fetch_add(1, Ordering::SeqCst);
                        ctx.canceled().block();
                        std::thread::sleep(std::time::Duration::from_millis(linger as u64));
                        done.fetch_add(1, Ordering::SeqCst);
                        Ok(())
                    };
                    if bg {
                        s.spawn_bg_blocking(f);
                    } else {
                        s.spawn_blocking(f);
                    }
                } else {
                    let f = async move {
                        started.fetch_add(1, Ordering::SeqCst);
                        ctx.canceled().await;
                        tokio::time::sleep(std::time::Duration::from_millis(linger as u64)).await;
                        done.fetch_add(1, Ordering::SeqCst);
                        Ok(())
                    };
                    if bg {
                        s.spawn_bg(f);
                    } else {
                        s.spawn(f);
                    }
                }
            }
            if case.mode == 0 {
                // let the tasks start: they are really running when the closure panics
                let t0 = std::time::Instant::now();
                while started.load(Ordering::SeqCst) < case.children.len() as u32 && t0.elapsed() < std::time::Duration::from_millis(200) {
                    std::thread::yield_now();
                }
                panic!("scripted panic of the root closure after its spawns");
            }
            async move {
                if case.mode == 2 {
                    panic!("scripted panic of the root future");
                }
                Ok(())
            }
        })
        .await;
        res
    }
    let nested = case.nested;
    let mode = case.mode;
    let came_back: bool = rt.block_on(async move {
        let h = tokio::spawn(async move {
            let root = ctx::root();
            if !nested {
                return scripted(&root, started2, done2, case2).await;
            }
            scope::run!(&root, |ctx, s| async move {
                let inner = s.spawn(async move { scripted(ctx, started2, done2, case2).await });
                inner.join(ctx).await.map_err(|_| 9u32)?;
                Ok(())
            })
            .await
        });
        // the scope gave control back to its caller (by unwinding into the tokio task) if the join handle resolves
        let _ = h.await;
        true
    });
    let d = done.load(Ordering::SeqCst);
    let spawned = if mode == 1 { 0 } else { n };
    let s = started.load(Ordering::SeqCst);
    if came_back && d < spawned.min(s.max(if mode == 0 { spawned } else { 0 })) {
        println!("RETURNED-EARLY done={d} started={s} spawned={spawned}");
        std::process::exit(17);
    }
    std::process::exit(0);
}

pub fn check_sync_root(case: &SyncRootCase, st: &mut Stats) -> Result<(), String> {
    let exe = std::env::current_exe().map_err(|e| format!("INFRA: current_exe: {e}"))?;
    let spec = serde_json::to_string(case).unwrap();
    let mut child = std::process::Command::new(exe)
        .env("VERIF_C17_CHILD", &spec)
        .stdin(std::process::Stdio::null())
        .stdout(std::process::Stdio::piped())
        .stderr(std::process::Stdio::null())
        .spawn()
        .map_err(|e| format!("INFRA: cannot start the child process: {e}"))?;
    let t0 = std::time::Instant::now();
    let status = loop {
        match child.try_wait() {
            Ok(Some(s)) => break s,
            Ok(None) if t0.elapsed() > std::time::Duration::from_secs(60) => {
                let _ = child.kill();
                let _ = child.wait();
                return Err("INFRA: the child process did not end within 60 s".into());
            }
            Ok(None) => std::thread::sleep(std::time::Duration::from_millis(2)),
            Err(e) => return Err(format!("INFRA: wait: {e}")),
        }
    };
    let mut out = String::new();
    if let Some(mut o) = child.stdout.take() {
        use std::io::Read as _;
        let _ = o.read_to_string(&mut out);
    }
    use std::os::unix::process::ExitStatusExt as _;
    st.class(match case.mode {
        0 => "closure_panics_after_its_spawns",
        1 => "closure_panics_before_its_spawns",
        _ => "root_future_panics",
    });
    match (status.code(), status.signal()) {
        (Some(0), _) => {
            st.class("control_came_back_with_every_task_finished");
        }
        (None, Some(6)) => {
            st.class("process_aborted(never_returned)");
        }
        (Some(17), _) => {
            return Err(format!("the scope gave control back to its caller while tasks spawned in it were still running: {}", out.trim()));
        }
        (None, Some(sig @ (11 | 7 | 4))) => {
            // the program is safe Rust: a memory fault means that tasks outlived the environment the scope had borrowed for them
            return Err(format!("the child process died with signal {sig} (memory fault): tasks of the scope were still running after the scope had let go of its environment"));
        }
        (c, sig) => return Err(format!("INFRA: unexpected end of the child process: code {c:?} signal {sig:?}")),
    }
    if case.mode == 0 {
        st.nontrivial(common::fingerprint(case));
    }
    st.sample(|| serde_json::to_value(case).unwrap());
    Ok(())
}

pub fn main(env: &Env) -> i32 {
    env.arm_emergency();
    common::crashdump::arm(&env.property);
    if let Mode::Replay(path) = env.mode() {
        let (part, case) = Env::read_replay(&path);
        if part == "threads" {
            return env.finish_replay(&path, common::replay_case::<ThreadsCase>(case, check_threads));
        }
        if part == "sync_root" {
            return env.finish_replay(&path, common::replay_case::<SyncRootCase>(case, check_sync_root));
        }
        if part == "blocking_scopes" {
            return env.finish_replay(&path, common::replay_case::<BlockingCase>(case, check_blocking));
        }
        return env.finish_replay(&path, common::replay_case::<Case>(case, check));
    }
    let mut parts: Vec<PartReport> = vec![];
    parts.extend(common::run_regress::<Case>(env, "scopes", check));
    parts.extend(common::run_regress::<ThreadsCase>(env, "threads", check_threads));
    parts.extend(common::run_regress::<BlockingCase>(env, "blocking_scopes", check_blocking));
    parts.push(run_proptest(
        env,
        "scopes",
        "task trees of up to 12 tasks, depth <= 3: main / background tasks, nested scopes whose error is forwarded, bodies made of yield k, sleep d (manual clock), spawn, join child, wait-for-cancel, wait on a child context with a deadline, ending in Ok / Err(id) / panic; the caller's context is cancelled at {0,1,5,10,30,60} ms; \
         the schedule is owned by the generator (yield counts, virtual time, deterministic single-thread runtime). Oracle over the event log, per scope: every task ended before the scope returned and none ran after; result = Ok(root value) if nothing failed, panic if any task panicked, else exactly the first error in execution order; \
         cancellation is observed only after a cause (a failure, all main tasks finished, caller cancelled, or an enclosing scope's cause); the scope always returns once the caller is cancelled (a stuck scope is reported before anything is dropped). Non-trivial = >= 3 tasks, a cancelled waiter and a failure",
        PartOpts { cases: env.tier.pick(600_000, 10_000_000), max_shrink_iters: 4000, samples: 2 },
        || Choices::strategy(150).prop_map(|mut ch| gen_case(&mut ch)),
        check,
    ));
    {
        // real threads: two shards only, so that the worker threads of a case really run in parallel
        let mut seq = env.clone_for_part();
        seq.shards = 2;
        parts.push(run_proptest(
            &seq,
            "threads",
            "the real scope on a multi-thread tokio runtime (2-8 workers) with blocking tasks: one task (the root, the last main task, or a blocking last main task) fails with Err(1) after 0-100 yields; 0-20000 async background tasks wait on ctx.canceled() (some then fail with Err(3)) and 1-3 blocking background tasks spin on ctx.is_active() and then fail with Err(2); 12 repetitions per case; \
             oracle valid under every OS schedule: nothing can fail before the scope is cancelled except the first task, so the scope must return Err(1). Non-trivial = at least 300 cancellation waiters (cancelling takes long enough for the other threads to react while the first failure is still being recorded)",
            PartOpts { cases: env.tier.pick(120, 3_000), max_shrink_iters: 40, samples: 2 },
            || Choices::strategy(20).prop_map(|mut ch| gen_threads(&mut ch)),
            check_threads,
        ));
    }
    {
        let mut seq = env.clone_for_part();
        seq.shards = 4;
        parts.push(run_proptest(
            &seq,
            "blocking_scopes",
            "scope::run_blocking! on a blocking thread of a multi-thread runtime (directly, or nested inside the root task of an outer run_blocking!): the root closure spawns 1-5 tasks (blocking / async, main / background), waits until all have started and ends with Ok, Err(1) or a panic; every task waits for the cancellation of the scope, lingers 0-40 ms, marks itself done and returns Ok or Err(2); 4 repetitions per case; \
             oracle valid under every OS schedule: at the instant the call returns or unwinds every task is done; a root panic is re-raised, a root error is returned as Err(1), and with a root Ok the result is Ok(7) unless a task reacted with Err(2). Non-trivial = a task lingers >= 5 ms after the cancellation",
            PartOpts { cases: env.tier.pick(160, 4_000), max_shrink_iters: 40, samples: 2 },
            || Choices::strategy(40).prop_map(|mut ch| gen_blocking(&mut ch)),
            check_blocking,
        ));
    }
    parts.extend(common::run_regress::<SyncRootCase>(env, "sync_root", check_sync_root));
    {
        let mut seq = env.clone_for_part();
        seq.shards = 4;
        parts.push(run_proptest(
            &seq,
            "sync_root",
            "an async scope (directly in a tokio task, or inside a task of an outer scope) whose root CLOSURE - the synchronous part that runs before the root future exists - spawns 1-4 tasks (async / blocking, main / background, each waits for the cancellation of the scope and lingers 0-30 ms) and then panics; controls: the closure panics before its spawns, the root future panics at its first poll. \
             Every case runs in a child process, because the documented reaction is the must-complete guard (process abort). Oracle: the scope never gives control back to its caller while a task spawned in it is still running - the child either dies by SIGABRT (never returned) or reports that every task had finished when control came back. Non-trivial = the closure panics after its spawns",
            PartOpts { cases: env.tier.pick(160, 3_000), max_shrink_iters: 30, samples: 2 },
            || Choices::strategy(30).prop_map(|mut ch| gen_sync_root(&mut ch)),
            check_sync_root,
        ));
    }
    env.finish(
        "exploration",
        "generated programs with generator-owned schedules on a deterministic runtime, plus a thread-parallel part whose oracle holds under every OS schedule (schedules there are sampled by the OS, not enumerated)",
        &["on the single-threaded runtime 'body returns Err' and 'error recorded + scope cancelled' happen within one poll, so the reported error must be exactly the first failure in log order"],
        parts,
    )
}
