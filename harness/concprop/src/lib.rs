//! Checks over the structured-concurrency runtime: C17.
pub mod c17;

/// Entry point of the engine binary.
pub fn engine_main() -> ! {
    if let Ok(spec) = std::env::var("VERIF_C17_CHILD") {
        c17::sync_root_child(&spec);
    }
    common::set_fuzz_registry(fuzz_registry());
    let env = common::Env::from_args();
    let code = match env.property.as_str() {
        "C17" => c17::main(&env),
        p => {
            eprintln!("concprop: unknown property {p}");
            2
        }
    };
    std::process::exit(code);
}

/// Parts that the libFuzzer bridge (`/verif/fuzz`) can drive.
pub fn fuzz_registry() -> Vec<common::FuzzEntry> {
    use common::fuzz_entry;
    vec![
        fuzz_entry!("C17", "scopes", 150, c17::gen_case, c17::check),
    ]
}
