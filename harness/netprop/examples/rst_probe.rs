use zksync_concurrency::ctx;
use zksync_consensus_network::verif as hook;
#[tokio::main]
async fn main() {
    let ctx = &ctx::root();
    let mut l = hook::TcpListener::bind().await.unwrap();
    let addr = l.addr();
    let s = tokio::net::TcpStream::connect(addr).await.unwrap();
    s.set_linger(Some(std::time::Duration::from_secs(0))).unwrap();
    drop(s);
    tokio::time::sleep(std::time::Duration::from_millis(100)).await;
    let r = l.accept(ctx).await;
    println!("accept after RST: {:?}", r.map(|_| "ok"));
    // a normal connection afterwards
    let _s2 = tokio::net::TcpStream::connect(addr).await.unwrap();
    let r = l.accept(ctx).await;
    println!("accept of a normal connection: {:?}", r.map(|_| "ok"));
}
