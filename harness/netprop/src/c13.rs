//! C13 The encrypted transport delivers exactly the bytes written, or fails.
use std::sync::{Arc, Mutex};

use common::{det, run_proptest, Choices, Env, Mode, PartOpts, PartReport, Stats};
use proptest::prelude::*;
use serde::{Deserialize, Serialize};
use tokio::io::{AsyncReadExt, AsyncWriteExt};
use zksync_concurrency::ctx;
use zksync_consensus_network::verif::NoiseStream;

use crate::pipe::{duplex, prg_bytes, End, Pipe};

#[derive(Debug, Clone, Serialize, Deserialize, Hash, PartialEq)]
pub enum Op {
    Write(usize),
    Flush,
    Shutdown,
}

#[derive(Debug, Clone, Serialize, Deserialize, Hash)]
pub struct Dir {
    ops: Vec<Op>,
    capacity: usize,
    write_script: Vec<u16>,
    read_script: Vec<u16>,
    /// Sizes of the reader's buffers, cycled.
    read_chunks: Vec<u16>,
}

#[derive(Debug, Clone, Serialize, Deserialize, Hash)]
pub enum Tamper {
    FlipBit { pos: u16, bit: u8 },
    Delete { pos: u16, len: u16 },
    Insert { pos: u16, bytes: Vec<u8> },
    Truncate { pos: u16 },
    DuplicateFrame { frame: u16 },
    SwapFrames { frame: u16 },
    DropFrame { frame: u16 },
    ReplayFrame { frame: u16, at: u16 },
}

#[derive(Debug, Clone, Serialize, Deserialize, Hash)]
pub struct Case {
    a: Dir,
    /// Opposite direction running concurrently (untampered cases only).
    b: Option<Dir>,
    tamper: Option<Tamper>,
    /// Untampered bidirectional cases only: nobody waits for the other side's handshake to finish - each end starts its
    /// write program the moment its own handshake returns, and the transport scripts apply from the very first byte, so
    /// the last handshake message and the first data frames can arrive in one read (or byte by byte).
    #[serde(default)]
    early: bool,
}

const MAX_FRAME_BODY: usize = 65535;
const TAG: usize = 16;

fn gen_script(ch: &mut Choices, frame_aware: bool) -> Vec<u16> {
    let n = ch.below(40);
    (0..n)
        .map(|_| match ch.below(8) {
            0 => 0,
            1 => 1,
            2 => 2,
            3 => 3,
            4 if frame_aware => 65536u32.saturating_sub(ch.range(0, 40) as u32).min(65535) as u16,
            5 => ch.range(1, 300) as u16,
            _ => ch.range(1, 65535) as u16,
        })
        .collect()
}

fn gen_dir(ch: &mut Choices, allow_shutdown: bool) -> Dir {
    let nops = 1 + ch.below(8);
    let mut ops = vec![];
    for _ in 0..nops {
        ops.push(match ch.below(10) {
            0 => Op::Flush,
            1 => Op::Flush,
            2 => Op::Write(0),
            3 => Op::Write(1),
            4 => Op::Write(ch.pick(&[65518usize, 65519, 65520, 65521, 65535, 65536, 65537])),
            5 => Op::Write(ch.pick(&[131038usize, 131072, 131037, 200_000])),
            6 => Op::Write(ch.range(2, 100) as usize),
            _ => Op::Write(ch.range(1, 70_000) as usize),
        });
    }
    if allow_shutdown && ch.chance(2, 3) {
        ops.push(Op::Shutdown);
    } else if ch.chance(2, 3) {
        ops.push(Op::Flush);
    }
    Dir {
        ops,
        capacity: ch.pick(&[1usize, 2, 3, 17, 1000, 65537, 65538, 1 << 20]),
        write_script: gen_script(ch, true),
        read_script: gen_script(ch, true),
        read_chunks: (0..1 + ch.below(4)).map(|_| ch.pick(&[1u16, 2, 7, 100, 4096, 65535])).collect(),
    }
}

pub fn gen_case(ch: &mut Choices) -> Case {
    let tampered = ch.chance(1, 2);
    let a = gen_dir(ch, true);
    if !tampered {
        let b = ch.chance(1, 3).then(|| gen_dir(ch, true));
        let early = b.is_some() && ch.chance(1, 2);
        return Case { a, b, tamper: None, early };
    }
    let pos = ch.raw();
    let tamper = match ch.below(9) {
        0 | 1 => Tamper::FlipBit { pos, bit: ch.below(8) as u8 },
        2 => Tamper::Delete { pos, len: 1 + ch.below(20) as u16 },
        3 => Tamper::Insert { pos, bytes: (0..1 + ch.below(20)).map(|_| ch.raw() as u8).collect() },
        4 => Tamper::Truncate { pos },
        5 => Tamper::DuplicateFrame { frame: pos },
        6 => Tamper::SwapFrames { frame: pos },
        7 => Tamper::DropFrame { frame: pos },
        _ => Tamper::ReplayFrame { frame: pos, at: ch.raw() },
    };
    Case { a, b: None, tamper: Some(tamper), early: false }
}

/// Splits a wire byte string into `len || body` frames; Err if it is not a whole number of frames.
fn parse_frames(wire: &[u8]) -> Result<Vec<(usize, usize)>, String> {
    let mut out = vec![];
    let mut p = 0;
    while p < wire.len() {
        if p + 2 > wire.len() {
            return Err(format!("trailing byte at offset {p}: incomplete length field"));
        }
        let n = u16::from_le_bytes([wire[p], wire[p + 1]]) as usize;
        if p + 2 + n > wire.len() {
            return Err(format!("frame at offset {p} announces {n} bytes but only {} follow", wire.len() - p - 2));
        }
        out.push((p, 2 + n));
        p += 2 + n;
    }
    Ok(out)
}

#[derive(Default, Debug)]
struct Progress {
    accepted: u64,
    flushed: u64,
    shutdown: bool,
    writer_done: bool,
    writer_err: Option<String>,
    received: u64,
    eof: bool,
    reader_err: Option<String>,
    corrupt: Option<String>,
}

async fn writer(mut w: impl AsyncWriteExt + Unpin, stream: u64, ops: Vec<Op>, p: Arc<Mutex<Progress>>) {
    let mut off = 0u64;
    for op in ops {
        let r: std::io::Result<()> = match op {
            Op::Write(n) => {
                let data = prg_bytes(stream, off, n);
                let r = w.write_all(&data).await;
                if r.is_ok() {
                    off += n as u64;
                    p.lock().unwrap().accepted = off;
                }
                r
            }
            Op::Flush => {
                let r = w.flush().await;
                if r.is_ok() {
                    let mut g = p.lock().unwrap();
                    g.flushed = g.accepted;
                }
                r
            }
            Op::Shutdown => {
                let r = w.shutdown().await;
                if r.is_ok() {
                    let mut g = p.lock().unwrap();
                    g.flushed = g.accepted;
                    g.shutdown = true;
                }
                r
            }
        };
        if let Err(e) = r {
            p.lock().unwrap().writer_err = Some(format!("{op:?}: {e}"));
            break;
        }
    }
    p.lock().unwrap().writer_done = true;
    // keep the half alive: dropping it must not be what makes data arrive
    std::future::pending::<()>().await;
}

async fn reader(mut r: impl AsyncReadExt + Unpin, stream: u64, chunks: Vec<u16>, p: Arc<Mutex<Progress>>) {
    let mut off = 0u64;
    let mut i = 0;
    let mut buf = vec![0u8; 65535];
    loop {
        let want = chunks[i % chunks.len()] as usize;
        i += 1;
        match r.read(&mut buf[..want]).await {
            Ok(0) => {
                p.lock().unwrap().eof = true;
                return;
            }
            Ok(n) => {
                let expect = prg_bytes(stream, off, n);
                if buf[..n] != expect[..] {
                    let k = (0..n).find(|k| buf[*k] != expect[*k]).unwrap();
                    p.lock().unwrap().corrupt =
                        Some(format!("plaintext byte {} differs from what was written (got {:#x}, wrote {:#x})", off + k as u64, buf[k], expect[k]));
                    return;
                }
                off += n as u64;
                p.lock().unwrap().received = off;
            }
            Err(e) => {
                p.lock().unwrap().reader_err = Some(e.to_string());
                return;
            }
        }
    }
}

async fn handshake(ctx: &ctx::Ctx, a: End, b: End) -> Result<(NoiseStream<End>, NoiseStream<End>), String> {
    let (ra, rb) = tokio::join!(NoiseStream::client(ctx, a), NoiseStream::server(ctx, b));
    Ok((ra.map_err(|e| format!("client handshake: {e:?}"))?, rb.map_err(|e| format!("server handshake: {e:?}"))?))
}

pub fn check(case: &Case, st: &mut Stats) -> Result<(), String> {
    det::run(|| async {
        let clock = ctx::ManualClock::new();
        let ctx = ctx::test_root(&clock);
        match &case.tamper {
            None => run_clean(&ctx, case, st).await,
            Some(t) => run_tampered(&ctx, case, t, st).await,
        }
    })
}

/// Both ends start writing the moment their own handshake returns; scripts apply to the handshake bytes too.
async fn run_early(ctx: &ctx::Ctx, case: &Case, st: &mut Stats) -> Result<(), String> {
    let Some(bdir) = case.b.clone() else { return Err("harness: early mode needs both directions".into()) };
    // sizes of the two handshake messages on the wire (measured on a scratch session)
    let (hs_a2b, hs_b2a) = {
        let (x, y) = (Pipe::new(1 << 20, vec![], vec![]).recording(), Pipe::new(1 << 20, vec![], vec![]).recording());
        let (ea, eb) = duplex(x.clone(), y.clone());
        let _sessions = handshake(ctx, ea, eb).await?;
        (x.wire().len(), y.wire().len())
    };
    let a2b = Pipe::new(case.a.capacity, case.a.write_script.clone(), case.a.read_script.clone()).recording();
    let b2a = Pipe::new(bdir.capacity, bdir.write_script.clone(), bdir.read_script.clone()).recording();
    let (ea, eb) = duplex(a2b.clone(), b2a.clone());
    let pa = Arc::new(Mutex::new(Progress::default()));
    let pb = Arc::new(Mutex::new(Progress::default()));
    let hs_err: Arc<Mutex<Option<String>>> = Arc::default();
    let mut tasks = vec![];
    // the responder first: it finishes its handshake by writing the last handshake message and goes straight on to its data
    {
        let (ctx, ops, chunks, pa, pb, hs_err) = (ctx.with_deadline(zksync_concurrency::time::Deadline::Infinite), bdir.ops.clone(), case.a.read_chunks.clone(), pa.clone(), pb.clone(), hs_err.clone());
        tasks.push(tokio::spawn(async move {
            match NoiseStream::server(&ctx, eb).await {
                Ok(sb) => {
                    let (rb, wb) = tokio::io::split(sb);
                    tokio::join!(writer(wb, 2, ops, pb), reader(rb, 1, chunks, pa));
                }
                Err(e) => *hs_err.lock().unwrap() = Some(format!("server handshake: {e:?}")),
            }
        }));
    }
    {
        let (ctx, ops, chunks, pa, pb, hs_err) = (ctx.with_deadline(zksync_concurrency::time::Deadline::Infinite), case.a.ops.clone(), bdir.read_chunks.clone(), pa.clone(), pb.clone(), hs_err.clone());
        tasks.push(tokio::spawn(async move {
            match NoiseStream::client(&ctx, ea).await {
                Ok(sa) => {
                    let (ra, wa) = tokio::io::split(sa);
                    tokio::join!(writer(wa, 1, ops, pa), reader(ra, 2, chunks, pb));
                }
                Err(e) => *hs_err.lock().unwrap() = Some(format!("client handshake: {e:?}")),
            }
        }));
    }
    det::barrier().await;
    let res = (|| {
        if let Some(e) = hs_err.lock().unwrap().clone() {
            return Err(format!("handshake over a fragmenting but otherwise honest transport failed: {e}"));
        }
        for (name, p, pipe, hs) in [("a->b", &pa, &a2b, hs_a2b), ("b->a", &pb, &b2a, hs_b2a)] {
            let g = p.lock().unwrap();
            if let Some(c) = &g.corrupt {
                return Err(format!("{name} (data written right after the handshake): {c}"));
            }
            if let Some(e) = &g.writer_err {
                return Err(format!("{name}: writer failed on an untampered connection: {e}"));
            }
            if let Some(e) = &g.reader_err {
                return Err(format!("{name}: reader failed on an untampered connection after {} bytes: {e}", g.received));
            }
            if !g.writer_done {
                return Err(format!("{name}: deadlock: writer still blocked at quiescence (accepted {} flushed {} received {}, {} bytes buffered in the transport)", g.accepted, g.flushed, g.received, pipe.buffered()));
            }
            if g.received < g.flushed {
                return Err(format!("{name}: {} bytes were written and flushed right after the handshake but only {} arrived", g.flushed, g.received));
            }
            if g.received > g.accepted {
                return Err(format!("{name}: reader got {} bytes, more than the {} written", g.received, g.accepted));
            }
            if g.shutdown && (!g.eof || g.received != g.accepted) {
                return Err(format!("{name}: after shutdown the reader must see all {} bytes and EOF; got {} bytes, eof={}", g.accepted, g.received, g.eof));
            }
            if g.eof && !g.shutdown {
                return Err(format!("{name}: reader saw EOF although the writer never shut down"));
            }
            let wire = pipe.wire();
            if wire.len() < hs {
                return Err(format!("{name}: harness: wire shorter than the handshake"));
            }
            let frames = parse_frames(&wire[hs..]).map_err(|e| format!("{name}: wire is not a sequence of length-prefixed frames: {e}"))?;
            for (off, len) in &frames {
                let body = len - 2;
                if body < TAG || body > MAX_FRAME_BODY {
                    return Err(format!("{name}: frame at wire offset {off} has body length {body} (must be within 16..=65535)"));
                }
            }
            if g.flushed > 0 {
                st.nontrivial(common::fingerprint(case));
            }
        }
        Ok(())
    })();
    for t in tasks {
        t.abort();
    }
    st.class("clean_data_right_after_handshake");
    st.sample(|| serde_json::to_value(case).unwrap());
    res
}

async fn run_clean(ctx: &ctx::Ctx, case: &Case, st: &mut Stats) -> Result<(), String> {
    if case.early && case.b.is_some() {
        return run_early(ctx, case, st).await;
    }
    let a2b = Pipe::new(case.a.capacity.max(70), vec![], vec![]).recording();
    let bcfg = case.b.clone();
    let b2a = Pipe::new(bcfg.as_ref().map_or(1 << 20, |b| b.capacity.max(70)), vec![], vec![]).recording();
    let (ea, eb) = duplex(a2b.clone(), b2a.clone());
    let (sa, sb) = handshake(ctx, ea, eb).await?;
    if sa.id() != sb.id() {
        return Err("the two ends of one session report different session ids".into());
    }
    let hs_a2b = a2b.wire().len();
    let hs_b2a = b2a.wire().len();
    // after the handshake the generated capacities / scripts apply
    a2b.0.lock().unwrap().wire.clear();
    b2a.0.lock().unwrap().wire.clear();
    a2b.reconfigure(case.a.capacity, &case.a.write_script, &case.a.read_script);
    if let Some(b) = &bcfg {
        b2a.reconfigure(b.capacity, &b.write_script, &b.read_script);
    }
    let (ra, wa) = tokio::io::split(sa);
    let (rb, wb) = tokio::io::split(sb);
    let pa = Arc::new(Mutex::new(Progress::default()));
    let pb = Arc::new(Mutex::new(Progress::default()));
    let mut tasks = vec![];
    tasks.push(tokio::spawn(writer(wa, 1, case.a.ops.clone(), pa.clone())));
    tasks.push(tokio::spawn(reader(rb, 1, case.a.read_chunks.clone(), pa.clone())));
    if let Some(b) = &bcfg {
        tasks.push(tokio::spawn(writer(wb, 2, b.ops.clone(), pb.clone())));
        tasks.push(tokio::spawn(reader(ra, 2, b.read_chunks.clone(), pb.clone())));
    } else {
        // keep the unused halves alive
        tasks.push(tokio::spawn(async move {
            let _k = (ra, wb);
            std::future::pending::<()>().await
        }));
    }
    // run to quiescence: every task is blocked or finished
    det::barrier().await;
    let res = (|| {
        for (name, dir, p, pipe) in [("a->b", Some(&case.a), &pa, &a2b), ("b->a", bcfg.as_ref(), &pb, &b2a)] {
            let Some(dir) = dir else { continue };
            let g = p.lock().unwrap();
            if let Some(c) = &g.corrupt {
                return Err(format!("{name}: {c}"));
            }
            if let Some(e) = &g.writer_err {
                return Err(format!("{name}: writer failed on an untampered connection: {e}"));
            }
            if let Some(e) = &g.reader_err {
                return Err(format!("{name}: reader failed on an untampered connection after {} bytes: {e}", g.received));
            }
            if !g.writer_done {
                return Err(format!(
                    "{name}: deadlock: writer still blocked at quiescence (accepted {} flushed {} received {}, {} bytes buffered in the transport)",
                    g.accepted, g.flushed, g.received, pipe.buffered()
                ));
            }
            if g.received < g.flushed {
                return Err(format!("{name}: {} bytes were written and flushed but only {} arrived", g.flushed, g.received));
            }
            if g.received > g.accepted {
                return Err(format!("{name}: reader got {} bytes, more than the {} written", g.received, g.accepted));
            }
            if g.shutdown && (!g.eof || g.received != g.accepted) {
                return Err(format!("{name}: after shutdown the reader must see all {} bytes and EOF; got {} bytes, eof={}", g.accepted, g.received, g.eof));
            }
            if g.eof && !g.shutdown {
                return Err(format!("{name}: reader saw EOF although the writer never shut down"));
            }
            // wire format
            let wire = pipe.wire();
            let frames = parse_frames(&wire).map_err(|e| format!("{name}: wire is not a sequence of length-prefixed frames: {e}"))?;
            let mut plain = 0u64;
            for (off, len) in &frames {
                let body = len - 2;
                if body < TAG || body > MAX_FRAME_BODY {
                    return Err(format!("{name}: frame at wire offset {off} has body length {body} (must be within 16..=65535)"));
                }
                plain += (body - TAG) as u64;
            }
            if plain < g.received || plain > g.accepted {
                return Err(format!("{name}: frames carry {plain} plaintext bytes; accepted {} received {}", g.accepted, g.received));
            }
            let multi = dir.ops.iter().any(|o| matches!(o, Op::Write(n) if *n > 65519));
            let (_, _, frag) = pipe.stats();
            if multi {
                st.class("write_spanning_frames");
            }
            if frag > 0 {
                st.class("fragmented_or_pending_polls");
            }
            if g.received > g.flushed {
                st.class("unflushed_data_arrived");
            }
            if multi || frag > 0 {
                st.nontrivial(common::fingerprint(case));
            }
        }
        Ok(())
    })();
    for t in tasks {
        t.abort();
    }
    let _ = (hs_a2b, hs_b2a);
    st.class(if bcfg.is_some() { "clean_bidirectional" } else { "clean_unidirectional" });
    st.sample(|| serde_json::to_value(case).unwrap());
    res
}

async fn run_tampered(ctx: &ctx::Ctx, case: &Case, tamper: &Tamper, st: &mut Stats) -> Result<(), String> {
    let a2b = Pipe::unbounded().recording();
    let b2a = Pipe::unbounded();
    let (ea, eb) = duplex(a2b.clone(), b2a.clone());
    let (sa, sb) = handshake(ctx, ea, eb).await?;
    a2b.0.lock().unwrap().wire.clear();
    // phase 1: the writer runs alone; the transport swallows everything
    let pa = Arc::new(Mutex::new(Progress::default()));
    let (ra, wa) = tokio::io::split(sa);
    let wt = tokio::spawn(writer(wa, 1, case.a.ops.clone(), pa.clone()));
    det::barrier().await;
    {
        let g = pa.lock().unwrap();
        if !g.writer_done || g.writer_err.is_some() {
            return Err(format!("writer did not complete against an unbounded transport: {:?}", g.writer_err));
        }
    }
    let wire = a2b.wire();
    let frames = parse_frames(&wire).map_err(|e| format!("wire is not a sequence of frames: {e}"))?;
    // phase 2: tamper and feed to the reader
    let sel = |pos: u16, n: usize| common::pick_index(pos, n.max(1));
    let mut w2 = wire.clone();
    let mut first_touched = wire.len();
    let class = match tamper {
        _ if wire.is_empty() => "nothing_on_the_wire",
        Tamper::FlipBit { pos, bit } => {
            let i = sel(*pos, wire.len());
            w2[i] ^= 1 << bit;
            first_touched = i;
            "flip_bit"
        }
        Tamper::Delete { pos, len } => {
            let i = sel(*pos, wire.len());
            let j = (i + *len as usize).min(wire.len());
            w2.drain(i..j);
            first_touched = i;
            "delete_bytes"
        }
        Tamper::Insert { pos, bytes } => {
            let i = sel(*pos, wire.len() + 1);
            w2.splice(i..i, bytes.iter().copied());
            first_touched = i;
            "insert_bytes"
        }
        Tamper::Truncate { pos } => {
            let i = sel(*pos, wire.len());
            w2.truncate(i);
            first_touched = i;
            "truncate"
        }
        Tamper::DuplicateFrame { frame } => {
            let (off, len) = frames[sel(*frame, frames.len())];
            let f = wire[off..off + len].to_vec();
            w2.splice(off + len..off + len, f);
            first_touched = off + len;
            "duplicate_frame"
        }
        Tamper::SwapFrames { frame } if frames.len() >= 2 => {
            let i = sel(*frame, frames.len() - 1);
            let (o1, l1) = frames[i];
            let (o2, l2) = frames[i + 1];
            let mut v = wire[..o1].to_vec();
            v.extend_from_slice(&wire[o2..o2 + l2]);
            v.extend_from_slice(&wire[o1..o1 + l1]);
            v.extend_from_slice(&wire[o2 + l2..]);
            w2 = v;
            first_touched = o1;
            "swap_frames"
        }
        Tamper::DropFrame { frame } => {
            let (off, len) = frames[sel(*frame, frames.len())];
            w2.drain(off..off + len);
            first_touched = off;
            "drop_frame"
        }
        Tamper::ReplayFrame { frame, at } if frames.len() >= 2 => {
            let i = sel(*frame, frames.len());
            let j = sel(*at, frames.len() + 1);
            let (off, len) = frames[i];
            let ins = if j == frames.len() { wire.len() } else { frames[j].0 };
            let f = wire[off..off + len].to_vec();
            w2.splice(ins..ins, f);
            first_touched = ins;
            "replay_frame"
        }
        _ => "not_applicable_single_frame",
    };
    let changed = w2 != wire;
    // plaintext of the frames that lie wholly inside the common prefix of the original and the
    // tampered stream (robust against tampers that happen to reproduce the original bytes)
    let lcp = wire.iter().zip(&w2).take_while(|(a, b)| a == b).count();
    let first_touched = first_touched.max(lcp);
    let mut intact_plain = 0u64;
    for (off, len) in &frames {
        if off + len <= first_touched {
            intact_plain += (len - 2 - TAG) as u64;
        }
    }
    // reset the transport for the reader
    a2b.reconfigure(usize::MAX, &[], &case.a.read_script);
    a2b.discard_buffer();
    a2b.inject(&w2);
    a2b.close_write();
    let (rb, wb) = tokio::io::split(sb);
    let rt = tokio::spawn(reader(rb, 1, case.a.read_chunks.clone(), pa.clone()));
    det::barrier().await;
    let g = pa.lock().unwrap();
    if std::env::var("VERIF_DEBUG").is_ok() {
        eprintln!("frames={frames:?} wire={} w2={} first_touched={first_touched} progress={:?}", wire.len(), w2.len(), *g);
    }
    let res = (|| {
        if let Some(c) = &g.corrupt {
            return Err(format!("{class}: altered / reordered / duplicated plaintext reached the reader: {c}"));
        }
        if g.received > g.accepted {
            return Err(format!("{class}: reader got {} bytes but only {} were written", g.received, g.accepted));
        }
        if !g.eof && g.reader_err.is_none() {
            return Err(format!("{class}: reader neither failed nor reached end of stream (received {})", g.received));
        }
        if !changed && (g.received < g.flushed || g.reader_err.is_some()) {
            return Err(format!("untouched stream: reader error {:?} after {} of {} flushed bytes", g.reader_err, g.received, g.flushed));
        }
        if changed && g.received > intact_plain {
            return Err(format!("{class}: reader delivered {} bytes although only {intact_plain} precede the first touched frame", g.received));
        }
        Ok(())
    })();
    st.class(&format!("tamper={class}"));
    st.class(match (&g.reader_err, g.eof) {
        (Some(_), _) => "reader_failed",
        (None, true) => "reader_eof",
        _ => "reader_blocked",
    });
    if changed && intact_plain > 0 {
        st.class("tamper_after_delivered_data");
        st.nontrivial(common::fingerprint(case));
    } else if changed {
        st.nontrivial(common::fingerprint(case));
    }
    st.sample(|| serde_json::to_value(case).unwrap());
    drop(g);
    wt.abort();
    rt.abort();
    drop((ra, wb));
    res
}

pub fn main(env: &Env) -> i32 {
    if let Mode::Replay(path) = env.mode() {
        let (_, case) = Env::read_replay(&path);
        return env.finish_replay(&path, common::replay_case::<Case>(case, check));
    }
    let mut parts: Vec<PartReport> = vec![];
    parts.extend(common::run_regress::<Case>(env, "noise", check));
    parts.push(run_proptest(
        env,
        "noise",
        "real noise handshake + stream over a scripted in-memory transport. Write program: 1..9 ops of write(0|1|2..100|1..70000|65518..65537|131037..200000)/flush/shutdown; transport: capacity {1,2,3,17,1000,65537,65538,1M}, per-poll scripts (Pending, 1,2,3 bytes, frame-1.., random) for both the write and the read side, reader buffers {1,2,7,100,4096,65535}; \
         half of the cases run clean (optionally with the opposite direction running concurrently through tokio::io::split) and are judged at quiescence: no deadlock, flushed bytes arrived, nothing but a prefix of what was written, EOF exactly after shutdown, wire = frames with 16 <= len <= 65535; \
         the other half apply one tamper to the recorded ciphertext (bit flip, delete, insert, truncate, duplicate / swap / drop / replay a frame) and require: output is a prefix of the written plaintext followed by error or EOF. \
         Non-trivial = a write spanning >= 2 frames or fragmented polls (clean), or a tamper that changes the stream (tampered); distinct = whole case",
        PartOpts { cases: env.tier.pick(40_000, 500_000), max_shrink_iters: 1500, samples: 3 },
        || Choices::strategy(200).prop_map(|mut ch| gen_case(&mut ch)),
        check,
    ));
    env.finish(
        "exploration",
        "generated write programs x transport scripts x single-point tampering on a deterministic runtime",
        &["ChaCha20-Poly1305 / snow are trusted: tampering is detected by the AEAD, the check asserts that the stream layer never hands out anything but a correct prefix"],
        parts,
    )
}
