//! C18 The validator address book holds only authentic, newest announcements.
use std::{collections::BTreeMap, sync::Arc};

use common::{det, run_proptest, Choices, Env, Mode, PartOpts, PartReport, Stats};
use gen::CommitteeSpec;
use proptest::prelude::*;
use serde::{Deserialize, Serialize};
use zksync_concurrency::time;
use zksync_consensus_network::verif::gossip::AddrBook;
use zksync_consensus_roles::validator;

#[derive(Debug, Clone, Serialize, Deserialize, Hash, PartialEq, Eq)]
pub struct Ann {
    /// Pool key index named as the announcer.
    key: usize,
    /// Pool key index that actually signs.
    signed_by: usize,
    version: u64,
    /// Timestamp selector (index into TIMESTAMPS).
    ts: usize,
    port: u16,
    /// Change the address after signing.
    altered: bool,
    /// The entry carries the signature of another entry of the same batch (index) instead of its own: two entries
    /// that exchange their signatures keep the sum of all signatures of the batch unchanged.
    #[serde(default)]
    sig_of: Option<usize>,
}

#[derive(Debug, Clone, Serialize, Deserialize, Hash)]
pub struct Case {
    /// Committee = pool keys 0..n; outsiders = keys n, n+1.
    n: usize,
    batches: Vec<Vec<Ann>>,
}

fn timestamps() -> Vec<time::Utc> {
    [
        time::Duration::ZERO,
        time::Duration::seconds(1),
        time::Duration::seconds(1_700_000_000),
        time::Duration::new(1_700_000_000, 1),
        time::Duration::seconds(-5),
        time::Duration::seconds(i64::MAX / 4),
        time::Duration::seconds(i64::MIN / 4),
    ]
    .into_iter()
    .map(|d| time::UNIX_EPOCH + d)
    .collect()
}

fn build(a: &Ann) -> Arc<validator::Signed<validator::NetAddress>> {
    let ts = timestamps();
    let msg = validator::NetAddress {
        addr: std::net::SocketAddr::from(([10, 0, 0, 1], a.port)),
        version: a.version,
        timestamp: ts[a.ts % ts.len()],
    };
    let mut s = gen::val_keys()[a.signed_by].sign_msg(msg);
    s.key = gen::val_keys()[a.key].public();
    if a.altered {
        s.msg.addr = std::net::SocketAddr::from(([10, 6, 6, 6], a.port));
    }
    Arc::new(s)
}

fn authentic(a: &Ann) -> bool {
    a.key == a.signed_by && !a.altered
}

/// Whether the two entries carry the same signature when each is signed normally: the same key signs the same message
/// (the address is altered only after signing, and BLS signatures are deterministic).
fn same_signature(a: &Ann, b: &Ann) -> bool {
    (a.signed_by, a.version, a.ts % 7, a.port) == (b.signed_by, b.version, b.ts % 7, b.port)
}

/// Authenticity of entry `i` of a batch: signed by its own key, not altered, and carrying its own signature.
fn authentic_at(batch: &[Ann], i: usize) -> bool {
    let a = &batch[i];
    let foreign_sig = matches!(a.sig_of, Some(j) if j != i && j < batch.len() && !same_signature(a, &batch[j]));
    authentic(a) && !foreign_sig
}

/// Applies the signature exchanges of a batch to its built entries.
fn with_foreign_sigs(batch: &[Ann], data: Vec<Arc<validator::Signed<validator::NetAddress>>>) -> Vec<Arc<validator::Signed<validator::NetAddress>>> {
    let orig = data.clone();
    let mut data = data;
    for (i, a) in batch.iter().enumerate() {
        if let Some(j) = a.sig_of {
            if j != i && j < batch.len() {
                let mut s = (*orig[i]).clone();
                s.sig = orig[j].sig.clone();
                data[i] = Arc::new(s);
            }
        }
    }
    data
}

/// One or two entries of a batch take the signature of another entry (an exchange keeps the sum unchanged).
fn gen_sig_swaps(ch: &mut Choices, b: &mut [Ann]) {
    if b.len() >= 2 && ch.chance(1, 6) {
        let i = ch.below(b.len());
        let j = (i + 1 + ch.below(b.len() - 1)) % b.len();
        b[i].sig_of = Some(j);
        if ch.chance(2, 3) {
            b[j].sig_of = Some(i);
        }
    }
}

fn newer(a: &Ann, b: &Ann) -> bool {
    let ts = timestamps();
    (a.version, ts[a.ts % ts.len()]) > (b.version, ts[b.ts % ts.len()])
}

fn gen_ann(ch: &mut Choices, n: usize) -> Ann {
    let key = ch.below(n + 2);
    let forged = ch.chance(1, 7);
    Ann {
        key,
        signed_by: if forged { (key + 1 + ch.below(n + 1)) % (n + 2) } else { key },
        version: ch.pick(&[0u64, 0, 1, 1, 2, u64::MAX]),
        ts: ch.below(7),
        port: 1000 + ch.below(5) as u16,
        altered: ch.chance(1, 10),
        sig_of: None,
    }
}

pub fn gen_case(ch: &mut Choices) -> Case {
    let n = 3 + ch.below(3);
    let nb = 1 + ch.below(8);
    let mut batches = vec![];
    let mut all: Vec<Ann> = vec![];
    for _ in 0..nb {
        let k = ch.below(6);
        let mut b: Vec<Ann> = vec![];
        for _ in 0..k {
            let a = match ch.below(8) {
                0 if !all.is_empty() => ch.pick(&all), // stale replay
                1 if !b.is_empty() => {
                    // duplicated key inside the batch
                    let mut a = gen_ann(ch, n);
                    let k = ch.pick(&b).key;
                    a.key = k;
                    a.signed_by = k;
                    a
                }
                _ => gen_ann(ch, n),
            };
            all.push(Ann { sig_of: None, ..a.clone() });
            b.push(Ann { sig_of: None, ..a });
        }
        gen_sig_swaps(ch, &mut b);
        batches.push(b);
    }
    Case { n, batches }
}

/// Reference model (whole-batch atomicity). Returns Err if the batch must be rejected.
fn model_update(book: &mut BTreeMap<usize, Ann>, n: usize, batch: &[Ann]) -> Result<(), &'static str> {
    let mut next = book.clone();
    let mut seen = std::collections::BTreeSet::new();
    for (i, a) in batch.iter().enumerate() {
        if !seen.insert(a.key) {
            return Err("duplicate key");
        }
        if a.key >= n {
            continue;
        }
        if let Some(cur) = next.get(&a.key) {
            if !newer(a, cur) {
                continue;
            }
        }
        if !authentic_at(batch, i) {
            return Err("forged entry that would have been stored");
        }
        next.insert(a.key, a.clone());
    }
    *book = next;
    Ok(())
}

fn snapshot(book: &AddrBook) -> BTreeMap<validator::PublicKey, Arc<validator::Signed<validator::NetAddress>>> {
    book.current().into_iter().map(|e| (e.key.clone(), e)).collect()
}

pub fn check(case: &Case, st: &mut Stats) -> Result<(), String> {
    det::run(|| async {
        let spec = CommitteeSpec::uniform(case.n);
        let c = spec.build();
        let book = AddrBook::default();
        let mut model: BTreeMap<usize, Ann> = BTreeMap::new();
        let mut rejected_with_valid_prefix = false;
        let mut tie = false;
        for (bi, batch) in case.batches.iter().enumerate() {
            let data: Vec<_> = with_foreign_sigs(batch, batch.iter().map(build).collect());
            let before = snapshot(&book);
            let model_before = model.clone();
            let got = book.update(&c.schedule, &data).await;
            let want = model_update(&mut model, case.n, batch);
            let after = snapshot(&book);
            match (&want, &got) {
                (Ok(()), Ok(())) | (Err(_), Err(_)) => {}
                (Ok(()), Err(e)) => return Err(format!("batch {bi}: a batch without a storable forged entry or duplicate was rejected: {e:#}")),
                (Err(why), Ok(())) => return Err(format!("batch {bi}: the batch had to be rejected ({why}) but was accepted")),
            }
            if got.is_err() {
                if after != before {
                    return Err(format!("batch {bi}: the update was refused but the address book changed"));
                }
                // a rejected batch that had valid newer entries before the offending one
                let mut probe = model_before.clone();
                if batch.iter().any(|a| model_update(&mut probe, case.n, std::slice::from_ref(a)).is_ok() && probe != model_before) {
                    rejected_with_valid_prefix = true;
                }
            }
            // book == model
            let want_book: BTreeMap<_, _> = model.iter().map(|(k, a)| (gen::val_keys()[*k].public(), build(a))).collect();
            if after.len() != want_book.len() || after.iter().any(|(k, v)| want_book.get(k).map(|w| **w != **v).unwrap_or(true)) {
                return Err(format!("batch {bi}: address book differs from the reference model: {} entries vs {}", after.len(), want_book.len()));
            }
            // model-free invariants
            for (k, v) in &after {
                if !c.schedule.contains(k) {
                    return Err(format!("batch {bi}: an announcement of a non-member is stored"));
                }
                if v.key != *k || v.verify().is_err() {
                    return Err(format!("batch {bi}: a stored announcement does not verify under the validator's key"));
                }
                if let Some(old) = before.get(k) {
                    if **old != **v && !v.msg.is_newer(&old.msg) {
                        return Err(format!("batch {bi}: an entry was replaced by one that is not strictly newer: {:?} -> {:?}", old.msg, v.msg));
                    }
                }
            }
            for k in before.keys() {
                if !after.contains_key(k) {
                    return Err(format!("batch {bi}: an entry disappeared"));
                }
            }
            for a in batch {
                if let Some(cur) = model_before.get(&a.key) {
                    let ts = timestamps();
                    if (a.version, ts[a.ts % 7]) == (cur.version, ts[cur.ts % 7]) && a != cur {
                        tie = true;
                    }
                }
            }
        }
        if rejected_with_valid_prefix {
            st.class("rejected_batch_with_valid_newer_entries");
        }
        if tie {
            st.class("equal_version_timestamp_tie");
        }
        if rejected_with_valid_prefix || tie {
            st.nontrivial(common::fingerprint(case));
        }
        st.max("max_batches", case.batches.len() as u64);
        st.sample(|| serde_json::to_value(case).unwrap());
        Ok(())
    })
}

// ---------------------------------------------------------------------------------------------
// convergence

#[derive(Debug, Clone, Serialize, Deserialize, Hash)]
pub struct ConvCase {
    n: usize,
    /// Honest announcements; per validator the (version, ts) pairs are pairwise distinct.
    anns: Vec<Ann>,
    /// Two ways of cutting / ordering them into batches: permutation + batch sizes.
    order_a: Vec<usize>,
    sizes_a: Vec<usize>,
    order_b: Vec<usize>,
    sizes_b: Vec<usize>,
}

pub fn gen_conv(ch: &mut Choices) -> ConvCase {
    let n = 3 + ch.below(3);
    let k = 1 + ch.below(10);
    let mut anns: Vec<Ann> = vec![];
    for _ in 0..k {
        let key = ch.below(n + 1); // includes one outsider
        let a = Ann { key, signed_by: key, version: ch.pick(&[0u64, 1, 2, u64::MAX]), ts: ch.below(7), port: 2000 + anns.len() as u16, altered: false, sig_of: None };
        let ts = timestamps();
        if anns.iter().any(|b| b.key == a.key && (b.version, ts[b.ts]) == (a.version, ts[a.ts])) {
            continue;
        }
        anns.push(a);
    }
    let sizes = |ch: &mut Choices| (0..12).map(|_| 1 + ch.below(3)).collect();
    let m = anns.len();
    ConvCase { n, anns, order_a: ch.perm(m), sizes_a: sizes(ch), order_b: ch.perm(m), sizes_b: sizes(ch) }
}

pub fn check_conv(case: &ConvCase, st: &mut Stats) -> Result<(), String> {
    det::run(|| async {
        let c = CommitteeSpec::uniform(case.n).build();
        let mut books = vec![];
        for (order, sizes) in [(&case.order_a, &case.sizes_a), (&case.order_b, &case.sizes_b)] {
            let book = AddrBook::default();
            let mut i = 0;
            let mut si = 0;
            while i < order.len() {
                let sz = sizes[si % sizes.len()];
                si += 1;
                // one batch must not contain two entries of one validator: cut before a repeated key
                let mut batch: Vec<&Ann> = vec![];
                while i < order.len() && batch.len() < sz {
                    let a = &case.anns[order[i]];
                    if batch.iter().any(|b| b.key == a.key) {
                        break;
                    }
                    batch.push(a);
                    i += 1;
                }
                let data: Vec<_> = batch.iter().map(|a| build(a)).collect();
                book.update(&c.schedule, &data).await.map_err(|e| format!("an honest batch was rejected: {e:#}"))?;
            }
            books.push(snapshot(&book));
        }
        if books[0].len() != books[1].len() || books[0].iter().any(|(k, v)| books[1].get(k).map(|w| **w != **v).unwrap_or(true)) {
            return Err(format!("two nodes that saw the same honest announcements in different batches / orders hold different address books ({} vs {} entries)", books[0].len(), books[1].len()));
        }
        // and it is the newest announcement of every member
        for (k, v) in &books[0] {
            for a in &case.anns {
                if gen::val_keys()[a.key].public() == *k && build(a).msg.is_newer(&v.msg) {
                    return Err("the book does not hold the newest announcement of a validator".into());
                }
            }
        }
        let per_validator_max = (0..case.n).map(|k| case.anns.iter().filter(|a| a.key == k).count()).max().unwrap_or(0);
        if per_validator_max >= 2 && case.order_a != case.order_b {
            st.nontrivial(common::fingerprint(case));
        }
        st.sample(|| serde_json::to_value(case).unwrap());
        Ok(())
    })
}

// ---------------------------------------------------------------------------------------------
// the node's own announcement racing with batches pushed by peers (real threads)

#[derive(Debug, Clone, Serialize, Deserialize, Hash)]
pub struct RaceCase {
    /// Version of the node's own (pre-restart) announcement that peers push back to it.
    pushed_version: u64,
    /// How many times the node announces itself while the push is in flight.
    announces: u8,
    /// Other members' announcements in the same pushed batch.
    others: u8,
    workers: u8,
    reps: u16,
}

pub fn gen_race(ch: &mut Choices) -> RaceCase {
    RaceCase { pushed_version: ch.pick(&[1u64, 7, 1000]), announces: 1 + ch.below(3) as u8, others: ch.below(3) as u8, workers: ch.pick(&[2u8, 4]), reps: 60 }
}

/// Oracle valid under every interleaving: `announce` and `update` are each atomic, so whichever comes last sees the other's
/// result: the stored announcement of the node's key ends with a version >= the pushed one, every intermediate state observed by
/// a subscriber-like poller only ever moves to a strictly newer (version, timestamp), and every stored entry verifies.
pub fn check_race(case: &RaceCase, st: &mut Stats) -> Result<(), String> {
    let rt = tokio::runtime::Builder::new_multi_thread().worker_threads(case.workers.clamp(2, 8) as usize).enable_all().build().map_err(|e| format!("INFRA: runtime: {e}"))?;
    let spec = CommitteeSpec::uniform(4);
    let committee = spec.build();
    let me = gen::val_keys()[0].clone();
    let ts = timestamps();
    let mut verdict = Ok(());
    for rep in 0..case.reps.max(1) {
        let book = Arc::new(AddrBook::default());
        let mut batch = vec![build(&Ann { key: 0, signed_by: 0, version: case.pushed_version, ts: 2, port: 7000, altered: false, sig_of: None })];
        for k in 0..case.others {
            batch.push(build(&Ann { key: 1 + k as usize, signed_by: 1 + k as usize, version: 3, ts: 2, port: 7001 + k as u16, altered: false, sig_of: None }));
        }
        let r: Result<(), String> = rt.block_on(async {
            let start = Arc::new(tokio::sync::Barrier::new(2));
            let (b1, s1, me1, n, t_announce) = (book.clone(), start.clone(), me.clone(), case.announces, ts[3]);
            let announcer = tokio::spawn(async move {
                s1.wait().await;
                for i in 0..n {
                    b1.announce(&me1, std::net::SocketAddr::from(([10, 0, 0, 9], 9000 + i as u16)), t_announce).await;
                }
            });
            let (b2, s2, sched, batch2) = (book.clone(), start.clone(), committee.schedule.clone(), batch.clone());
            let pusher = tokio::spawn(async move {
                s2.wait().await;
                b2.update(&sched, &batch2).await.map_err(|e| format!("{e:#}"))
            });
            announcer.await.map_err(|e| format!("INFRA: {e}"))?;
            let pushed = pusher.await.map_err(|e| format!("INFRA: {e}"))?;
            let cur = book.current();
            let mine = cur.iter().find(|a| a.key == me.public()).ok_or("the node's own announcement disappeared")?;
            if mine.verify().is_err() {
                return Err("the stored announcement of the node's own key does not verify".into());
            }
            if mine.msg.version < case.pushed_version {
                return Err(format!(
                    "repetition {rep}: peers pushed the node's authentic announcement with version {} (update returned {pushed:?}) while the node announced itself {} time(s); the book ends with version {}: a newer announcement was replaced by an older one",
                    case.pushed_version, case.announces, mine.msg.version
                ));
            }
            Ok(())
        });
        if let Err(e) = r {
            verdict = Err(e);
            break;
        }
    }
    rt.shutdown_timeout(std::time::Duration::from_secs(5));
    st.class("own_announcement_races_with_pushed_batch");
    st.nontrivial(common::fingerprint(case));
    st.sample(|| serde_json::to_value(case).unwrap());
    verdict
}


// ---------------------------------------------------------------------------------------------
// the same batches through a live node: real listener, real gossip handler, real push_validator_addrs server

fn build_with(keys: &[validator::SecretKey], a: &Ann) -> Arc<validator::Signed<validator::NetAddress>> {
    let ts = timestamps();
    let msg = validator::NetAddress { addr: std::net::SocketAddr::from(([10, 0, 0, 1], a.port)), version: a.version, timestamp: ts[a.ts % ts.len()] };
    let mut s = keys[a.signed_by].sign_msg(msg);
    s.key = keys[a.key].public();
    if a.altered {
        s.msg.addr = std::net::SocketAddr::from(([10, 6, 6, 6], a.port));
    }
    Arc::new(s)
}

pub fn gen_live(ch: &mut Choices) -> Case {
    let mut c = gen_case(ch);
    // the live node's committee has three members (identities 0..3); identities 3 and 4 are outsiders
    c.n = 3;
    for b in c.batches.iter_mut() {
        for a in b.iter_mut() {
            a.key %= 5;
            a.signed_by %= 5;
        }
    }
    c.batches.truncate(5);
    c
}

pub fn check_live(case: &Case, st: &mut Stats) -> Result<(), String> {
    use rand::SeedableRng as _;
    use zksync_concurrency::{ctx, limiter, scope};
    use zksync_consensus_engine::{testonly::in_memory, EngineManager};
    use zksync_consensus_network::{
        testonly::Instance,
        verif::{self as hook, Mux, MuxConfig, NoiseTcp},
    };
    let rt = tokio::runtime::Builder::new_current_thread().enable_all().build().unwrap();
    rt.block_on(async {
        let ctx = &ctx::root();
        let rng = &mut rand::rngs::StdRng::seed_from_u64(15);
        let setup = validator::testonly::Setup::new(rng, 3);
        let setup = &setup;
        let mut keys: Vec<validator::SecretKey> = setup.validator_keys.clone();
        keys.extend(gen::val_keys().iter().take(2).cloned());
        let keys = &keys;
        let nk = gen::node_keys();
        let node_pub = nk[9].public();
        let node_pub = &node_pub;
        let st2 = &mut *st;
        let res: Result<(), String> = scope::run!(ctx, |ctx, s| async move {
            let st = st2;
            let eng = in_memory::Engine::new_random(setup, setup.first_block());
            let (mgr, run) = EngineManager::new(ctx, Box::new(eng), time::Duration::seconds(60)).await.map_err(|e| format!("INFRA: EngineManager::new: {e:?}"))?;
            s.spawn_bg(async { run.run(ctx).await.map_err(|e| format!("INFRA: engine runner: {e:#}")) });
            let mut cfg = crate::c12::gossip_cfg(&nk[9]);
            let listen = zksync_concurrency::net::tcp::testonly::reserve_listener();
            cfg.server_addr = listen;
            cfg.public_addr = (*listen).into();
            cfg.rpc.push_validator_addrs_rate = limiter::Rate::INF;
            let addr: std::net::SocketAddr = *listen;
            let (node, runner) = Instance::new(cfg, mgr);
            let node = &node;
            s.spawn_bg(async move {
                let _ = runner.run(ctx).await;
                Ok(())
            });
            let mut up = false;
            for _ in 0..500 {
                if let Ok(c) = tokio::net::TcpStream::connect(addr).await {
                    drop(c);
                    up = true;
                    break;
                }
                tokio::time::sleep(std::time::Duration::from_millis(5)).await;
            }
            if !up {
                return Err("INFRA: the node did not start listening within 2.5 s".into());
            }
            let table = hook::rpc_table();
            let push_cap = table.iter().find(|t| t.0 == "push_validator_addrs").map(|t| t.1).unwrap();
            let book = || -> BTreeMap<validator::PublicKey, Arc<validator::Signed<validator::NetAddress>>> { node.state().verif_validator_addrs().into_iter().map(|e| (e.key.clone(), e)).collect() };
            let mut model: BTreeMap<usize, Ann> = BTreeMap::new();
            // a connection of a scripted peer; replaced after every refused batch (the node drops a peer that sent one)
            let mut conn: Option<hook::MuxQueue> = None;
            let mut identity = 0usize;
            let (mut refused, mut accepted) = (0u64, 0u64);
            for (bi, batch) in case.batches.iter().enumerate() {
                if conn.is_none() {
                    let mut mine = NoiseTcp::preface_connect(ctx, addr, false).await.map_err(|e| format!("INFRA: preface_connect: {e:?}"))?;
                    let pcfg = crate::c12::gossip_cfg(&nk[identity % 8]);
                    identity += 1;
                    hook::gossip::handshake_outbound(ctx, &pcfg, setup.genesis.hash(), &mut mine, node_pub).await.map_err(|e| format!("INFRA: handshake of the scripted peer: {e}"))?;
                    let mut m = Mux::new(MuxConfig::rpc());
                    let q = m.accept(ctx, push_cap, 1, limiter::Rate::INF);
                    s.spawn_bg(async move {
                        let _ = m.run(ctx, mine).await;
                        Ok(())
                    });
                    conn = Some(q);
                }
                let before = book();
                let mut req = vec![];
                for e in with_foreign_sigs(batch, batch.iter().map(|a| build_with(keys, a)).collect()) {
                    req.extend(crate::c19::pb_len(1, &zksync_protobuf::encode(&*e)));
                }
                let mut call = match tokio::time::timeout(std::time::Duration::from_secs(10), conn.as_ref().unwrap().open(ctx)).await {
                    Ok(Ok(c)) => c,
                    _ => return Err("INFRA: the node did not open a push_validator_addrs sub-stream within 10 s".into()),
                };
                let _ = call.write_all(ctx, &crate::c19::rpc_frame(&req)).await;
                let _ = call.flush(ctx).await;
                call.close_write();
                let resp = tokio::time::timeout(std::time::Duration::from_secs(10), call.read_exact(ctx, 4)).await.map_err(|_| format!("INFRA: batch {bi} was neither acknowledged nor refused within 10 s"))?;
                let acked = matches!(&resp, Ok(h) if h.len() == 4);
                let model_before = model.clone();
                let want = model_update(&mut model, 3, batch);
                let model_changed = model != model_before;
                // the handler has returned in either case (the response, or the end of the sub-stream, comes after it)
                let after = book();
                // whether the node answers a bad batch with an error or merely ignores it is not part of the property;
                // what it does to its address book is
                if acked {
                    accepted += 1;
                } else {
                    refused += 1;
                    conn = None;
                }
                if want.is_ok() && !acked && after == before && model_changed {
                    return Err(format!("batch {bi}: a batch of genuine newer announcements (no forged entry that would be stored, no duplicate) was refused by the node and not applied"));
                }
                if !acked && after != before {
                    return Err(format!("batch {bi}: the node refused the batch but its address book changed"));
                }
                let want_book: BTreeMap<_, _> = model.iter().map(|(k, a)| (keys[*k].public(), build_with(keys, a))).collect();
                if after.len() != want_book.len() || after.iter().any(|(k, v)| want_book.get(k).map(|w| **w != **v).unwrap_or(true)) {
                    return Err(format!("batch {bi}: the node's address book differs from the reference model after a batch pushed by a peer: {} entries vs {}", after.len(), want_book.len()));
                }
                for (k, v) in &after {
                    if v.key != *k || v.verify().is_err() || !keys[..3].iter().any(|x| x.public() == *k) {
                        return Err(format!("batch {bi}: the node stores an announcement that is not a member's own, verifying announcement"));
                    }
                }
            }
            st.count("batches_acknowledged", accepted);
            st.count("batches_refused_and_peer_dropped", refused);
            if refused > 0 && accepted > 0 {
                st.nontrivial(common::fingerprint(case));
            }
            st.sample(|| serde_json::to_value(case).unwrap());
            Ok(())
        })
        .await;
        res
    })
}

// ---------------------------------------------------------------------------------------------
// dial_target: which addresses a live validator node dials (the `maintain_connection` loops)

#[derive(Debug, Clone, Serialize, Deserialize, Hash)]
pub struct DialCase {
    /// Announcements: `port - 1000` selects one of the harness' listeners; `altered` redirects to the trap listener after signing.
    batches: Vec<Vec<Ann>>,
    /// What the listener does with the k-th connection it receives: 0 = close, 1.. = complete the validator handshake as identity (x - 1) % 4 + 1 and hold briefly.
    responders: Vec<u8>,
}

const LISTENERS: usize = 6; // 0..5 ordinary, 5 = trap (only altered announcements name it)

pub fn gen_dial(ch: &mut Choices) -> DialCase {
    // identity 0 is the node itself (it announces its own address through its loopback connection): never announced by the peer;
    // 1, 2 = the other members, 3, 4 = outsiders
    let nb = 2 + ch.below(7);
    let mut batches = vec![];
    let mut all: Vec<Ann> = vec![];
    let mut version = 0u64;
    for _ in 0..nb {
        let k = 1 + ch.below(4);
        let mut b: Vec<Ann> = vec![];
        for _ in 0..k {
            let key = ch.weighted(&[(5, 1usize), (5, 2), (1, 3), (1, 4)]);
            if ch.chance(2, 3) {
                version += 1;
            }
            let forged = ch.chance(1, 12);
            let mut a = Ann {
                key,
                signed_by: if forged { 1 + (key + ch.below(3)) % 4 } else { key },
                version: if ch.chance(1, 6) { ch.pick(&[0u64, 1, 2, u64::MAX]) } else { version },
                ts: ch.below(7),
                port: 1000 + ch.below(LISTENERS - 1) as u16,
                altered: ch.chance(1, 12),
                sig_of: None,
            };
            if ch.chance(1, 10) && !all.is_empty() {
                a = ch.pick(&all); // stale replay
            }
            if ch.chance(1, 12) && !b.is_empty() {
                a.key = ch.pick(&b).key; // duplicated key inside the batch
                a.signed_by = a.key;
            }
            a.sig_of = None;
            all.push(a.clone());
            b.push(a);
        }
        gen_sig_swaps(ch, &mut b);
        batches.push(b);
    }
    let responders = (0..12).map(|_| ch.below(6) as u8).collect();
    DialCase { batches, responders }
}

fn build_dial(keys: &[validator::SecretKey], addrs: &[std::net::SocketAddr], a: &Ann) -> Arc<validator::Signed<validator::NetAddress>> {
    let ts = timestamps();
    let msg = validator::NetAddress { addr: addrs[(a.port as usize - 1000) % (LISTENERS - 1)], version: a.version, timestamp: ts[a.ts % ts.len()] };
    let mut s = keys[a.signed_by].sign_msg(msg);
    s.key = keys[a.key].public();
    if a.altered {
        s.msg.addr = addrs[LISTENERS - 1];
    }
    Arc::new(s)
}

pub fn check_dial(case: &DialCase, st: &mut Stats) -> Result<(), String> {
    use std::sync::Mutex;

    use rand::SeedableRng as _;
    use zksync_concurrency::{ctx, limiter, scope};
    use zksync_consensus_engine::{testonly::in_memory, EngineManager};
    use zksync_consensus_network::{
        testonly::Instance,
        verif::{self as hook, Mux, MuxConfig, NoiseTcp},
    };
    let rt = tokio::runtime::Builder::new_current_thread().enable_all().build().unwrap();
    rt.block_on(async {
        let ctx = &ctx::root();
        let rng = &mut rand::rngs::StdRng::seed_from_u64(15);
        let setup = validator::testonly::Setup::new(rng, 3);
        let setup = &setup;
        let mut keys: Vec<validator::SecretKey> = setup.validator_keys.clone();
        keys.extend(gen::val_keys().iter().take(2).cloned());
        let keys = &keys;
        let nk = gen::node_keys();
        let node_pub = nk[9].public();
        let node_pub = &node_pub;
        let st2 = &mut *st;
        // (listener index, consensus endpoint?) of every connection that reached a harness listener, in arrival order
        let seen: Arc<Mutex<Vec<(usize, bool)>>> = Default::default();
        // identities proven to the node by a responder, with the listener on which that happened
        let proven: Arc<Mutex<Vec<(usize, usize)>>> = Default::default();
        let res: Result<(), String> = scope::run!(ctx, |ctx, s| async move {
            let st = st2;
            let mut addrs = vec![];
            let responders = Arc::new(case.responders.clone());
            let served = Arc::new(std::sync::atomic::AtomicUsize::new(0));
            let strays = Arc::new(std::sync::atomic::AtomicUsize::new(0));
            for li in 0..LISTENERS {
                let mut l = hook::TcpListener::bind().await.map_err(|e| format!("INFRA: bind: {e:#}"))?;
                addrs.push(l.addr());
                let (seen, proven, responders, served, strays) = (seen.clone(), proven.clone(), responders.clone(), served.clone(), strays.clone());
                s.spawn_bg(async move {
                    while let Ok(tcp) = l.accept(ctx).await {
                        let k = served.fetch_add(1, std::sync::atomic::Ordering::SeqCst);
                        let r = responders[k % responders.len()];
                        match NoiseTcp::preface_accept(ctx, tcp).await {
                            Ok((mut stream, consensus)) => {
                                if !consensus {
                                    // not a validator dial: loopback ports are shared with the other cases running in this process
                                    // (a probe or a scripted gossip peer of another case can hit a port that was handed out twice)
                                    strays.fetch_add(1, std::sync::atomic::Ordering::SeqCst);
                                    continue;
                                }
                                seen.lock().unwrap().push((li, consensus));
                                if consensus && r > 0 {
                                    let id = (r as usize - 1) % 4 + 1;
                                    if hook::consensus::handshake_inbound(ctx, &keys[id], setup.genesis.hash(), &mut stream).await.is_ok() {
                                        proven.lock().unwrap().push((id, li));
                                        tokio::time::sleep(std::time::Duration::from_millis(25)).await;
                                    }
                                }
                            }
                            Err(_) => {
                                strays.fetch_add(1, std::sync::atomic::Ordering::SeqCst);
                            }
                        }
                    }
                    Ok(())
                });
            }
            let addrs = &addrs;
            let eng = in_memory::Engine::new_random(setup, setup.first_block());
            let (mgr, run) = EngineManager::new(ctx, Box::new(eng), time::Duration::seconds(60)).await.map_err(|e| format!("INFRA: EngineManager::new: {e:?}"))?;
            s.spawn_bg(async { run.run(ctx).await.map_err(|e| format!("INFRA: engine runner: {e:#}")) });
            let mut cfg = crate::c12::gossip_cfg(&nk[9]);
            let listen = zksync_concurrency::net::tcp::testonly::reserve_listener();
            cfg.server_addr = listen;
            cfg.public_addr = (*listen).into();
            cfg.validator_key = Some(keys[0].clone());
            cfg.rpc.push_validator_addrs_rate = limiter::Rate::INF;
            let addr: std::net::SocketAddr = *listen;
            let (node, runner) = Instance::new(cfg, mgr);
            let node = &node;
            s.spawn_bg(async move {
                let _ = runner.run(ctx).await;
                Ok(())
            });
            let mut up = false;
            for _ in 0..500 {
                if let Ok(c) = tokio::net::TcpStream::connect(addr).await {
                    drop(c);
                    up = true;
                    break;
                }
                tokio::time::sleep(std::time::Duration::from_millis(5)).await;
            }
            if !up {
                return Err("INFRA: the node did not start listening within 2.5 s".into());
            }
            let table = hook::rpc_table();
            let push_cap = table.iter().find(|t| t.0 == "push_validator_addrs").map(|t| t.1).unwrap();
            let case_started = std::time::Instant::now();
            let mut model: BTreeMap<usize, Ann> = BTreeMap::new();
            // per member: the listener it was dialled at last (the address the dial loop holds)
            let mut last_dialled: BTreeMap<usize, usize> = BTreeMap::new();
            // per member: every listener that ever was its stored address
            let mut ever: std::collections::BTreeSet<(usize, usize)> = Default::default();
            let mut conn: Option<hook::MuxQueue> = None;
            let mut identity = 0usize;
            let mut checked = 0usize;
            let (mut refused, mut accepted, mut dials, mut redirected) = (0u64, 0u64, 0u64, 0u64);
            let listener_of = |a: &Ann| if a.altered { LISTENERS - 1 } else { (a.port as usize - 1000) % (LISTENERS - 1) };
            for (bi, batch) in case.batches.iter().enumerate() {
                if conn.is_none() {
                    let mut mine = NoiseTcp::preface_connect(ctx, addr, false).await.map_err(|e| format!("INFRA: preface_connect: {e:?}"))?;
                    let pcfg = crate::c12::gossip_cfg(&nk[identity % 8]);
                    identity += 1;
                    hook::gossip::handshake_outbound(ctx, &pcfg, setup.genesis.hash(), &mut mine, node_pub).await.map_err(|e| format!("INFRA: handshake of the scripted peer: {e}"))?;
                    let mut m = Mux::new(MuxConfig::rpc());
                    let q = m.accept(ctx, push_cap, 1, limiter::Rate::INF);
                    s.spawn_bg(async move {
                        let _ = m.run(ctx, mine).await;
                        Ok(())
                    });
                    conn = Some(q);
                }
                let mut req = vec![];
                for e in with_foreign_sigs(batch, batch.iter().map(|a| build_dial(keys, addrs, a)).collect()) {
                    req.extend(crate::c19::pb_len(1, &zksync_protobuf::encode(&*e)));
                }
                let mut call = match tokio::time::timeout(std::time::Duration::from_secs(10), conn.as_ref().unwrap().open(ctx)).await {
                    Ok(Ok(c)) => c,
                    _ => return Err("INFRA: the node did not open a push_validator_addrs sub-stream within 10 s".into()),
                };
                let _ = call.write_all(ctx, &crate::c19::rpc_frame(&req)).await;
                let _ = call.flush(ctx).await;
                call.close_write();
                let resp = tokio::time::timeout(std::time::Duration::from_secs(10), call.read_exact(ctx, 4)).await.map_err(|_| format!("INFRA: batch {bi} was neither acknowledged nor refused within 10 s"))?;
                let acked = matches!(&resp, Ok(h) if h.len() == 4);
                let _ = model_update(&mut model, 3, batch);
                if acked {
                    accepted += 1;
                } else {
                    refused += 1;
                    conn = None;
                }
                // dials this batch must cause: one per member (other than the node) whose stored address differs from the one its dial loop holds
                let mut expect: Vec<usize> = vec![];
                for v in 1..3usize {
                    if let Some(a) = model.get(&v) {
                        let li = listener_of(a);
                        ever.insert((v, li));
                        if last_dialled.get(&v) != Some(&li) {
                            if last_dialled.contains_key(&v) {
                                redirected += 1;
                            }
                            last_dialled.insert(v, li);
                            expect.push(li);
                        }
                    }
                }
                expect.sort();
                // wait for them (a missing dial is not judged: the property is about where the node dials, not when)
                let mut waited = 0;
                while seen.lock().unwrap().len() < checked + expect.len() && waited < 1000 {
                    tokio::time::sleep(std::time::Duration::from_millis(5)).await;
                    waited += 1;
                }
                // a little longer, for a dial that must not happen
                tokio::time::sleep(std::time::Duration::from_millis(if expect.is_empty() { 15 } else { 8 })).await;
                // the dial loops retry on their own every 20 s (CONNECT_RETRY): a case that has been running for half of that
                // (only possible on a badly overloaded machine) is not judged any further
                if case_started.elapsed() > std::time::Duration::from_secs(10) {
                    st.class("case_slower_than_10s(not judged)");
                    return Ok(());
                }
                let new: Vec<(usize, bool)> = seen.lock().unwrap()[checked..].to_vec();
                checked += new.len();
                let mut got: Vec<usize> = new.iter().map(|x| x.0).collect();
                got.sort();
                for (li, consensus) in &new {
                    if !expect.contains(li) {
                        let whose = if *li == LISTENERS - 1 { "the address of an announcement that was altered after signing".to_string() } else { format!("listener {li}, which is not the address of the newest valid announcement of any validator whose address changed") };
                        return Err(format!("batch {bi}: the node dialled {whose} (expected dials {expect:?}, observed {got:?}; consensus endpoint: {consensus})"));
                    }
                }
                if got.len() > expect.len() {
                    return Err(format!("batch {bi}: more dials than address changes: expected {expect:?}, observed {got:?}"));
                }
                if got.len() < expect.len() {
                    st.class("dial_not_seen_within_5s(not judged)");
                    // the loop may still dial later: forget what it holds so that the late dial is expected
                    return Ok(());
                }
                dials += got.len() as u64;
                // outbound pool of the validator network: only identities that proved themselves at an address of theirs
                let pool = node.state().verif_consensus_outbound().unwrap_or_default();
                for k in pool {
                    if k == keys[0].public() {
                        continue;
                    }
                    let id = keys.iter().position(|x| x.public() == k);
                    let ok = id.map(|id| proven.lock().unwrap().iter().any(|(p, li)| *p == id && ever.contains(&(id, *li)))).unwrap_or(false);
                    if !ok {
                        return Err(format!("batch {bi}: the outbound pool of the validator network lists identity {id:?}, which nobody proved at an address announced by that validator"));
                    }
                }
            }
            st.count("batches_acknowledged", accepted);
            st.count("batches_refused", refused);
            st.count("dials_observed", dials);
            st.count("redirections", redirected);
            st.count("identities_proven_by_responders", proven.lock().unwrap().len() as u64);
            st.count("stray_connections_ignored", strays.load(std::sync::atomic::Ordering::SeqCst) as u64);
            if dials >= 2 && (redirected > 0 || refused > 0) {
                st.nontrivial(common::fingerprint(case));
            }
            st.sample(|| serde_json::to_value(case).unwrap());
            Ok(())
        })
        .await;
        res
    })
}

pub fn main(env: &Env) -> i32 {
    if let Mode::Replay(path) = env.mode() {
        let (part, case) = Env::read_replay(&path);
        let r = match part.as_str() {
            "batches" => common::replay_case::<Case>(case, check),
            "convergence" => common::replay_case::<ConvCase>(case, check_conv),
            "announce_threads" => common::replay_case::<RaceCase>(case, check_race),
            "live_push" => common::replay_case::<Case>(case, check_live),
            "dial_target" => common::replay_case::<DialCase>(case, check_dial),
            p => Err(format!("unknown part {p}")),
        };
        return env.finish_replay(&path, r);
    }
    let mut parts: Vec<PartReport> = vec![];
    parts.extend(common::run_regress::<Case>(env, "batches", check));
    parts.extend(common::run_regress::<ConvCase>(env, "convergence", check_conv));
    parts.extend(common::run_regress::<Case>(env, "live_push", check_live));
    parts.push(run_proptest(
        env,
        "batches",
        "committee of 3-5 validators plus 2 outsiders; 1-8 batches of 0-5 announcements with version {0,1,2,u64::MAX}, 7 timestamps (ties, negative, extreme), signed correctly / by another key / altered after signing / carrying the signature of another entry of the batch (exchanges keep the sum of signatures unchanged), stale replays, duplicated keys at any position; \
         oracle: reference map with whole-batch atomicity equals the real book after every batch; model-free: only members, every stored entry verifies, replacements strictly newer, nothing disappears, refused update leaves the book unchanged. \
         Non-trivial = a rejected batch that contained storable newer entries, or an equal (version, timestamp) tie",
        PartOpts { cases: env.tier.pick(4_000, 120_000), max_shrink_iters: 2000, samples: 2 },
        || Choices::strategy(400).prop_map(|mut ch| gen_case(&mut ch)),
        check,
    ));
    parts.push(run_proptest(
        env,
        "convergence",
        "one set of honest announcements (no validator signs two with the same (version, timestamp)) delivered to two fresh books in two different orders and batchings; oracle: identical books holding each member's newest announcement. Non-trivial = some validator has >= 2 announcements and the orders differ",
        PartOpts { cases: env.tier.pick(3_000, 80_000), max_shrink_iters: 2000, samples: 2 },
        || Choices::strategy(200).prop_map(|mut ch| gen_conv(&mut ch)),
        check_conv,
    ));
    parts.extend(common::run_regress::<RaceCase>(env, "announce_threads", check_race));
    {
        let mut seq = env.clone_for_part();
        seq.shards = 2;
        parts.push(run_proptest(
            &seq,
            "announce_threads",
            "the real address book on a multi-thread runtime: the node announces itself 1-3 times while, on another worker, a peer batch pushes back the node's own authentic announcement with version {1, 7, 1000} (the restart case) plus 0-2 announcements of other members; 60 repetitions per case; \
             oracle valid under every interleaving: announce and update are atomic, so the book ends with a version of the node's key >= the pushed one and the stored entry verifies. Every case is non-trivial",
            PartOpts { cases: env.tier.pick(60, 1_500), max_shrink_iters: 20, samples: 2 },
            || Choices::strategy(10).prop_map(|mut ch| gen_race(&mut ch)),
            check_race,
        ));
    }
    parts.push(run_proptest(
        env,
        "live_push",
        "the batches of the first part pushed to a LIVE node by a scripted peer: real listener and accept loop, real gossip handler, real push_validator_addrs RPC server and its handler (committee of 3, 2 outsiders, 1-5 batches); the peer sees whether the node acknowledges a batch or ends the call, and reconnects under a new identity after a refusal (the node drops a peer that sent a bad batch); \
         oracle: after every batch the node's address book equals the reference map (whole-batch atomicity: a batch the model rejects changes nothing, a batch it accepts is applied) and holds only members' own verifying announcements; whether the node answers a bad batch with an error or silently ignores it is not judged. Non-trivial = a run with both an acknowledged and a refused batch",
        PartOpts { cases: env.tier.pick(300, 6_000), max_shrink_iters: 100, samples: 2 },
        || Choices::strategy(400).prop_map(|mut ch| gen_live(&mut ch)),
        check_live,
    ));
    parts.extend(common::run_regress::<DialCase>(env, "dial_target", check_dial));
    parts.push(run_proptest(
        env,
        "dial_target",
        "a LIVE validator node (real listener, real maintain_connection loops of the validator network, committee of 3) whose address book is fed by a scripted gossip peer with 1-5 batches naming six loopback listeners of the harness \
         (members, outsiders, stale, forged, duplicated entries; announcements altered after signing name a trap listener); the listeners record every connection that arrives on the validator-network endpoint (anything else - a connection without the preface or for the gossip endpoint - cannot be a validator dial and is counted as a stray: loopback ports are shared with the cases running in parallel) and answer by closing or by completing the real validator handshake as a member / another member / an outsider; \
         oracle: after every batch the connections that reached the listeners are exactly one per member whose stored (newest valid) address differs from the one its dial loop holds, - never the trap, a stale, forged or outsider's address; \
         the validator network's outbound pool lists an identity only if it was proven at an address announced by that validator. A dial that does not show up within 5 s is not judged. Non-trivial = at least 2 dials and a redirection or a refused batch",
        PartOpts { cases: env.tier.pick(240, 5_000), max_shrink_iters: 60, samples: 2 },
        || Choices::strategy(420).prop_map(|mut ch| gen_dial(&mut ch)),
        check_dial,
    ));
    env.finish(
        "exploration",
        "generated announcement batches against a reference map and model-free invariants; the node's own announcement racing with pushed batches on real threads",
        &["BLS signatures are unforgeable: an announcement signed by another key or altered after signing never verifies"],
        parts,
    )
}
