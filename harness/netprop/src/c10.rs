//! C10 No input from the network can crash a node. Layers L1-L5 (L6 = consensus handlers lives in
//! the simulator, L7 = live node in `live.rs`).
use std::sync::{
    atomic::{AtomicU64, Ordering},
    Arc, Mutex, OnceLock,
};

use common::{det, run_proptest, Choices, Env, Mode, PartOpts, PartReport, Stats};
use gen::values::TypeEntry;
use proptest::prelude::*;
use serde::{Deserialize, Serialize};
use zksync_concurrency::{ctx, limiter, time};
use zksync_consensus_network::verif::{self as hook, Mux, MuxConfig, NoiseStream, Wire};
use zksync_consensus_roles::validator;

use crate::{
    netvalues,
    pipe::{duplex, Pipe},
};

pub fn entries() -> &'static [TypeEntry] {
    static E: OnceLock<Vec<TypeEntry>> = OnceLock::new();
    E.get_or_init(netvalues::all_types)
}

// ---------------------------------------------------------------------------------------------
// L1 decoders

#[derive(Debug, Clone, Serialize, Deserialize, Hash)]
pub struct DecCase {
    ty: usize,
    name: String,
    choices: Vec<u16>,
}

impl DecCase {
    pub fn new(ty: usize, choices: Vec<u16>) -> Self {
        DecCase { ty, name: entries()[ty % entries().len()].name.to_string(), choices }
    }
}

/// Builds the mutated input of a case: (entry, valid encoding, mutated bytes, labels).
pub fn dec_input(case: &DecCase) -> (&'static TypeEntry, Vec<u8>, Vec<u8>, Vec<&'static str>) {
    let e = &entries()[case.ty % entries().len()];
    let mut ch = Choices::new(case.choices.clone());
    let valid = (e.sample)(&mut ch);
    let (m, labels) = gen::mutate::extremise(&mut ch, &valid, &(e.desc)());
    (e, valid, m, labels)
}

fn hex(b: &[u8]) -> String {
    let s: String = b.iter().take(300).map(|x| format!("{x:02x}")).collect();
    if b.len() > 300 {
        format!("{s}..({} bytes)", b.len())
    } else {
        s
    }
}

pub fn check_dec(case: &DecCase, st: &mut Stats) -> Result<(), String> {
    let (e, valid, m, labels) = dec_input(case);
    // sanity of the generator: the unmutated encoding is accepted
    if let Err(err) = (e.roundtrip)(&valid) {
        return Err(format!("{}: a valid encoding is rejected or inconsistent: {err}; bytes {}", e.name, hex(&valid)));
    }
    let r = common::guard_val(|| (e.roundtrip)(&m));
    st.class(&format!("type={}", e.name));
    for l in &labels {
        st.class(&format!("mutation={l}"));
    }
    match r {
        Err(panic) => Err(format!("{}: decoding panicked: {panic}; mutations {labels:?}; input {}", e.name, hex(&m))),
        Ok(Ok(_)) => {
            st.class("accepted");
            if labels != ["valid"] {
                st.nontrivial(common::fingerprint(&(e.name, &m)));
            }
            st.sample(|| serde_json::json!({"type": e.name, "mutations": labels, "input_hex": hex(&m), "outcome": "accepted"}));
            Ok(())
        }
        Ok(Err(err)) => {
            if err.starts_with("ACCEPTED-THEN-INCONSISTENT") {
                // a decoded value that does not round-trip is judged by C09 (part decoded_values)
                st.class("accepted_but_inconsistent(see C09)");
            } else {
                st.class("rejected");
            }
            Ok(())
        }
    }
}

// ---------------------------------------------------------------------------------------------
// L2 frames

#[derive(Debug, Clone, Serialize, Deserialize, Hash)]
pub struct FrameCase {
    max_size: u32,
    /// Declared length relative to max: 0 => <= max, 1 => max+1, 2 => huge.
    declared: u32,
    /// Bytes of body actually provided before EOF.
    provided: u32,
    garbage: bool,
}

fn check_frame(case: &FrameCase, st: &mut Stats) -> Result<(), String> {
    det::run(|| async {
        let life = det::Life::new();
        let ctx = life.child();
        let p = Pipe::unbounded();
        let (mut end, other) = duplex(Pipe::unbounded(), p.clone());
        let body: Vec<u8> = if case.garbage {
            (0..case.provided).map(|i| (i * 37 + 11) as u8).collect()
        } else {
            let mut b = netvalues::sample(Wire::PingReq, &mut Choices::new(vec![7, 7, 7]));
            b.resize(case.provided as usize, 0);
            b
        };
        p.inject(&case.declared.to_le_bytes());
        p.inject(&body);
        p.close_write();
        let mut fut = Box::pin(hook::frame_recv(&ctx, &mut end, Wire::PingReq, case.max_size as usize));
        let r = det::until_quiescent(&mut fut).await;
        drop(fut);
        let pulled = p.stats().1;
        drop(other);
        let over = case.declared > case.max_size;
        st.class(if over { "declared_above_limit" } else { "declared_within_limit" });
        if over || case.provided < case.declared {
            st.nontrivial(common::fingerprint(case));
        }
        st.sample(|| serde_json::json!({"case": case, "pulled": pulled}));
        let Some(r) = r else {
            return Err("recv_proto still pending although the stream reached EOF".into());
        };
        if over {
            if r.is_ok() {
                return Err(format!("a frame of {} bytes was accepted with limit {}", case.declared, case.max_size));
            }
            if pulled != 4 {
                return Err(format!("frame length {} exceeds the limit {} but {pulled} bytes (not 4) were read from the stream", case.declared, case.max_size));
            }
        } else {
            let want = 4 + case.declared.min(case.provided) as u64;
            if pulled > want {
                return Err(format!("read {pulled} bytes for a frame of {} bytes", case.declared));
            }
            if case.provided < case.declared && r.is_ok() {
                return Err("a truncated frame was accepted".into());
            }
        }
        life.end(Vec::<tokio::task::JoinHandle<()>>::new()).await;
        Ok(())
    })
}

// ---------------------------------------------------------------------------------------------
// L3 noise fed garbage

#[derive(Debug, Clone, Serialize, Deserialize, Hash)]
pub struct NoiseCase {
    server: bool,
    /// Garbage handshake bytes (if None: a real handshake, then `stream_bytes` instead of ciphertext).
    handshake_bytes: Option<Vec<u8>>,
    stream_bytes: Vec<u8>,
    /// Fragmentation of what the victim reads: at most this many bytes per poll (0 = one spurious Pending), cycled 64 times;
    /// empty = everything at once.
    #[serde(default)]
    read_script: Vec<u16>,
}

pub fn gen_noise(ch: &mut Choices) -> NoiseCase {
    let bytes = |ch: &mut Choices| -> Vec<u8> {
        let mut v = vec![];
        let frames = ch.below(4);
        for _ in 0..frames {
            let n = ch.pick(&[0usize, 1, 15, 16, 17, 31, 32, 33, 47, 48, 49, 96, 1000, 65535]);
            let declared = if ch.chance(1, 5) { ch.raw() } else { n as u16 };
            v.extend(declared.to_le_bytes());
            v.extend((0..n).map(|_| ch.raw() as u8));
        }
        if ch.chance(1, 3) {
            v.push(ch.raw() as u8);
        }
        v
    };
    let hs = ch.bool().then(|| bytes(ch));
    let read_script: Vec<u16> = match ch.below(5) {
        0 | 1 => vec![],
        2 => vec![1],
        3 => vec![2, 1, 0],
        _ => (0..1 + ch.below(6)).map(|_| ch.pick(&[0u16, 1, 2, 3, 15, 16, 17, 33, 1000])).collect(),
    };
    NoiseCase { server: ch.bool(), handshake_bytes: hs, stream_bytes: bytes(ch), read_script }
}

pub fn check_noise(case: &NoiseCase, st: &mut Stats) -> Result<(), String> {
    det::run(|| async {
        let life = det::Life::new();
        let ctx = life.child();
        // the script is long enough for every byte of the largest case to arrive in pieces
        let script: Vec<u16> = if case.read_script.is_empty() { vec![] } else { case.read_script.iter().copied().cycle().take(case.read_script.len() * 40_000).collect() };
        if !script.is_empty() {
            st.class("victim_reads_in_fragments");
        }
        let res: Result<(), String> = async {
            match &case.handshake_bytes {
                Some(hs) => {
                    let inbound = Pipe::new(usize::MAX, vec![], script.clone());
                    let (end, _other) = duplex(Pipe::unbounded(), inbound.clone());
                    inbound.inject(hs);
                    inbound.close_write();
                    let mut fut = if case.server { Box::pin(NoiseStream::server(&ctx, end)) as std::pin::Pin<Box<dyn std::future::Future<Output = _>>> } else { Box::pin(NoiseStream::client(&ctx, end)) };
                    let r = det::until_quiescent(&mut fut).await;
                    st.class("garbage_handshake");
                    match r {
                        None => Err("noise handshake still pending although the peer closed the connection".into()),
                        // the NN pattern is unauthenticated: any 32 bytes are a valid ephemeral key, so a
                        // server may well complete the handshake; only panics and hangs are failures here
                        Some(Ok(_)) => {
                            st.class("handshake_completed_on_arbitrary_key");
                            Ok(())
                        }
                        Some(Err(_)) => Ok(()),
                    }
                }
                None => {
                    let a2b = Pipe::new(usize::MAX, vec![], script.clone());
                    let (ea, eb) = duplex(a2b.clone(), Pipe::unbounded());
                    let (ra, rb) = tokio::join!(NoiseStream::client(&ctx, ea), NoiseStream::server(&ctx, eb));
                    let (_sa, mut sb) = (ra.map_err(|e| format!("{e:?}"))?, rb.map_err(|e| format!("{e:?}"))?);
                    a2b.inject(&case.stream_bytes);
                    a2b.close_write();
                    use tokio::io::AsyncReadExt;
                    let mut buf = vec![0u8; 70000];
                    let mut got = 0usize;
                    let mut fut = Box::pin(async {
                        loop {
                            match sb.read(&mut buf).await {
                                Ok(0) => return Ok(got),
                                Ok(n) => got += n,
                                Err(e) => return Err(e.to_string()),
                            }
                        }
                    });
                    let r = det::until_quiescent(&mut fut).await;
                    st.class("garbage_after_handshake");
                    match r {
                        None => Err("reader still pending although the peer closed the connection".into()),
                        Some(Ok(n)) if n > 0 => Err(format!("{n} plaintext bytes were produced from bytes that were never encrypted by the peer")),
                        _ => Ok(()),
                    }
                }
            }
        }
        .await;
        st.nontrivial(common::fingerprint(case));
        st.sample(|| serde_json::to_value(case).unwrap());
        life.end(Vec::<tokio::task::JoinHandle<()>>::new()).await;
        res
    })
}

// ---------------------------------------------------------------------------------------------
// L4 raw frames against the real multiplexer

#[derive(Debug, Clone, Serialize, Deserialize, Hash)]
pub struct RawFrame {
    header: u16,
    /// For headers whose kind bits say DATA: declared length and number of payload bytes provided.
    len: u16,
    provided: u16,
}

#[derive(Debug, Clone, Serialize, Deserialize, Hash)]
pub struct MuxRawCase {
    /// None = well-formed handshake announcing 2 accept + 2 connect streams on capability 0.
    handshake: Option<Vec<u8>>,
    frames: Vec<RawFrame>,
    /// Number of application tasks that accept a stream and read it to the end.
    readers: u8,
    close: bool,
}

pub fn gen_mux_raw(ch: &mut Choices) -> MuxRawCase {
    let handshake = ch.chance(1, 6).then(|| {
        let n = ch.pick(&[0usize, 3, 4, 5, 20]);
        let mut v: Vec<u8> = (0..n).map(|_| ch.raw() as u8).collect();
        if n >= 4 && ch.bool() {
            // plausible length prefix
            let l = (n as u32 - 4).to_le_bytes();
            v[..4].copy_from_slice(&l);
        }
        if ch.chance(1, 4) {
            v = vec![0xff, 0xff, 0xff, 0x7f];
        }
        v
    });
    let n = ch.below(12);
    let frames = (0..n)
        .map(|_| {
            let kind = ch.weighted(&[(3, 0u16), (4, 0x4000), (2, 0x8000), (2, 0xC000)]);
            let sk = ch.pick(&[0u16, 0x2000]);
            let id = ch.weighted(&[(5, 0u16), (3, 1), (1, 2), (1, 3), (1, 0x1fff), (1, 100)]);
            let len = ch.pick(&[0u16, 1, 2, 100, 4096, 65535]);
            let provided = if ch.chance(1, 6) { ch.below(len as usize + 1) as u16 } else { len };
            RawFrame { header: kind | sk | id, len, provided }
        })
        .collect();
    MuxRawCase { handshake, frames, readers: ch.below(3) as u8, close: ch.chance(3, 4) }
}

pub fn check_mux_raw(case: &MuxRawCase, st: &mut Stats) -> Result<(), String> {
    det::run(|| async {
        let life = det::Life::new();
        let ctx = life.child();
        let to_local = Pipe::unbounded();
        let (local_end, _raw) = duplex(Pipe::unbounded(), to_local.clone());
        let mut m = Mux::new(MuxConfig { read_frame_size: 1000, read_buffer_size: 8000, read_frame_count: 16, write_frame_size: 1000 });
        let acc = m.accept(&ctx, 0, 2, limiter::Rate::INF);
        let con = m.connect(&ctx, 0, 2, limiter::Rate::INF);
        let run = tokio::spawn({
            let ctx = life.child();
            async move { m.run(&ctx, local_end).await }
        });
        let mut apps = vec![];
        for i in 0..case.readers {
            let (ctx, q) = (life.child(), if i % 2 == 0 { acc.clone() } else { con.clone() });
            apps.push(tokio::spawn(async move {
                while let Ok(mut s) = q.open(&ctx).await {
                    while let Ok(d) = s.read_exact(&ctx, 512).await {
                        if d.len() < 512 {
                            break;
                        }
                    }
                }
            }));
        }
        match &case.handshake {
            Some(h) => to_local.inject(h),
            None => {
                // accept: cap 0 x2, connect: cap 0 x2
                to_local.inject(&[12, 0, 0, 0, 0x2a, 4, 0x08, 0, 0x10, 2, 0x32, 4, 0x08, 0, 0x10, 2]);
            }
        }
        let mut valid_headers = 0;
        for f in &case.frames {
            to_local.inject(&f.header.to_le_bytes());
            if f.header & 0xC000 == 0x4000 {
                to_local.inject(&f.len.to_le_bytes());
                to_local.inject(&vec![0x5a; f.provided as usize]);
            }
            if f.header & 0x1fff < 2 {
                valid_headers += 1;
            }
        }
        if case.close {
            to_local.close_write();
        }
        det::barrier().await;
        let finished = run.is_finished();
        st.class(if case.handshake.is_some() { "garbage_handshake" } else { "valid_handshake" });
        if case.frames.iter().any(|f| f.header & 0xC000 == 0xC000 && f.header & 0x1fff < 2) {
            st.class("undefined_frame_kind_on_valid_stream");
        }
        if case.handshake.is_none() && valid_headers > 0 {
            st.nontrivial(common::fingerprint(case));
        }
        st.class(if finished { "run_returned" } else { "run_still_serving" });
        st.sample(|| serde_json::to_value(case).unwrap());
        // end of case: cancel and join; a panic inside the multiplexer surfaces here
        drop((acc, con));
        for a in &apps {
            a.abort();
        }
        let out = life.end(vec![run]).await;
        match det::Life::task_outcome(out.into_iter().next().unwrap()) {
            Err(panic) => Err(format!("Mux::run panicked on peer input: {panic}")),
            Ok(Ok(())) => Err("Mux::run returned Ok".into()),
            Ok(Err(_)) => Ok(()),
        }
    })
}

// ---------------------------------------------------------------------------------------------
// L5 well-framed sub-streams carrying malformed RPC messages

#[derive(Debug, Clone, Serialize, Deserialize, Hash)]
pub enum RpcAttack {
    /// Length prefix larger than the handler's limit, nothing else.
    Oversize(u32),
    /// Correct length prefix, `n` bytes of garbage.
    Garbage(u16),
    /// Length prefix says `declared`, only `provided` bytes follow, then close.
    Truncated { declared: u16, provided: u16 },
    /// Open and close without sending anything.
    Empty,
    /// A valid request.
    Valid,
    /// A mutated valid request (structured extremiser).
    Mutated(Vec<u16>),
    /// A valid request followed by trailing bytes.
    Trailing(u8),
    /// A well-formed request padded with an unknown field to one byte above the handler's size limit:
    /// acceptable to the decoder, so only the size check can refuse it.
    PaddedOversize,
}

#[derive(Debug, Clone, Serialize, Deserialize, Hash)]
pub struct RpcCase {
    /// (on the consensus capability?, attack)
    sessions: Vec<(bool, RpcAttack)>,
}

pub fn gen_rpc(ch: &mut Choices) -> RpcCase {
    let n = 1 + ch.below(6);
    let sessions = (0..n)
        .map(|_| {
            let cons = ch.bool();
            let a = match ch.below(8) {
                0 => RpcAttack::Oversize(ch.pick(&[1025u32, 4097, 1 << 20, u32::MAX, 102_401 + (1 << 20)])),
                1 => RpcAttack::Garbage(ch.pick(&[1u16, 2, 34, 100, 1000])),
                2 => {
                    let d = ch.pick(&[1u16, 34, 500]);
                    RpcAttack::Truncated { declared: d, provided: ch.below(d as usize) as u16 }
                }
                3 => RpcAttack::Empty,
                4 | 5 => RpcAttack::Mutated((0..40).map(|_| ch.raw()).collect()),
                6 => RpcAttack::Trailing(1 + ch.below(9) as u8),
                7 if ch.bool() => RpcAttack::PaddedOversize,
                _ => RpcAttack::Valid,
            };
            (cons, a)
        })
        .collect();
    RpcCase { sessions }
}

struct CountingHandler {
    calls: AtomicU64,
    absurd: Mutex<Vec<String>>,
}

#[async_trait::async_trait]
impl hook::ConsensusHandler for CountingHandler {
    async fn handle(&self, _ctx: &ctx::Ctx, msg: validator::Signed<validator::ConsensusMsg>) -> anyhow::Result<()> {
        self.calls.fetch_add(1, Ordering::SeqCst);
        // what the real node does first with every message: label, view number, signature check
        let _ = msg.msg.label();
        let _ = msg.msg.view_number();
        if msg.verify().is_err() {
            self.absurd.lock().unwrap().push("bad signature".into());
        }
        Ok(())
    }
    fn max_req_size(&self) -> usize {
        100 * 1024
    }
}

pub fn check_rpc(case: &RpcCase, st: &mut Stats) -> Result<(), String> {
    det::run(|| async {
        let life = det::Life::new();
        let ctx = life.child();
        let (ea, eb) = duplex(Pipe::unbounded(), Pipe::unbounded());
        let table = hook::rpc_table();
        let cap = |name: &str| table.iter().find(|t| t.0 == name).unwrap().1;
        let (ping_cap, cons_cap) = (cap("ping"), cap("consensus"));
        let handler = Arc::new(CountingHandler { calls: 0.into(), absurd: Mutex::default() });
        // the node
        let node = tokio::spawn({
            let (ctx, handler) = (life.child(), handler.clone());
            async move {
                let clients = hook::RpcClients::new(&ctx, None, None);
                hook::run_rpc_service(&ctx, eb, true, Some((&*handler, limiter::Rate::INF)), &clients).await
            }
        });
        // the peer: a real multiplexer whose sub-streams carry arbitrary bytes
        let mut m = Mux::new(MuxConfig::rpc());
        let ping_q = m.accept(&ctx, ping_cap, 8, limiter::Rate::INF);
        let cons_q = m.accept(&ctx, cons_cap, 8, limiter::Rate::INF);
        let peer = tokio::spawn({
            let ctx = life.child();
            async move { m.run(&ctx, ea).await }
        });
        let ping_req = netvalues::sample(Wire::PingReq, &mut Choices::new(vec![1, 2, 3, 4, 5, 6, 7, 8]));
        let framed = |b: &[u8]| {
            let mut v = (b.len() as u32).to_le_bytes().to_vec();
            v.extend_from_slice(b);
            v
        };
        let mut expected_calls = 0u64;
        let res: Result<(), String> = async {
            for (i, (cons, attack)) in case.sessions.iter().enumerate() {
                // ping is rate limited to burst 2 / 1 s on the server side
                life.clock.advance(time::Duration::seconds(2));
                let q = if *cons { &cons_q } else { &ping_q };
                let valid = if *cons {
                    netvalues::sample(Wire::ConsensusReq, &mut Choices::new(vec![i as u16 * 977, 5, 9, 13, 1, 1, 1, 1, 1, 1, 1, 1, 1, 1, 1, 1]))
                } else {
                    ping_req.clone()
                };
                let mut open = Box::pin(q.open(&ctx));
                let Some(Ok(mut s)) = det::until_quiescent(&mut open).await else {
                    return Err(format!("session {i}: the server no longer opens sub-streams for {} (earlier malformed input wedged it)", if *cons { "consensus" } else { "ping" }));
                };
                drop(open);
                let (payload, is_valid): (Vec<u8>, Option<bool>) = match attack {
                    RpcAttack::Oversize(n) => (n.to_le_bytes().to_vec(), Some(false)),
                    RpcAttack::Garbage(n) => (framed(&vec![0xa5; *n as usize]), Some(false)),
                    RpcAttack::Truncated { declared, provided } => {
                        let mut v = (*declared as u32).to_le_bytes().to_vec();
                        v.extend(vec![0x0a; *provided as usize]);
                        (v, Some(false))
                    }
                    RpcAttack::Empty => (vec![], Some(false)),
                    RpcAttack::Valid => (framed(&valid), Some(true)),
                    RpcAttack::Mutated(c) => {
                        let w = if *cons { Wire::ConsensusReq } else { Wire::PingReq };
                        let (m, _) = gen::mutate::extremise(&mut Choices::new(c.clone()), &valid, &w.descriptor());
                        let ok = w.reencode(&m).is_ok() && m.len() <= if *cons { 100 * 1024 } else { 1024 };
                        (framed(&m), Some(ok))
                    }
                    RpcAttack::PaddedOversize => {
                        let limit = if *cons { 100 * 1024 } else { 1024 };
                        let mut m = valid.clone();
                        // unknown field 15, LEN: tag 0x7a, 3-byte varint length
                        let pad = limit + 1 - m.len() - 4;
                        m.push(0x7a);
                        m.extend([(pad & 0x7f) as u8 | 0x80, ((pad >> 7) & 0x7f) as u8 | 0x80, (pad >> 14) as u8]);
                        m.extend(vec![0u8; pad]);
                        assert_eq!(m.len(), limit + 1);
                        (framed(&m), Some(false))
                    }
                    RpcAttack::Trailing(n) => {
                        let mut v = framed(&valid);
                        v.extend(vec![0xee; *n as usize]);
                        (v, Some(true))
                    }
                };
                let _ = s.write_all(&ctx, &payload).await;
                let _ = s.flush(&ctx).await;
                s.close_write();
                // response: a frame (valid request) or end of stream (rejected request)
                let mut rd = Box::pin(s.read_exact(&ctx, 4));
                let hdr = det::until_quiescent(&mut rd).await;
                drop(rd);
                let got_response = matches!(&hdr, Some(Ok(h)) if h.len() == 4);
                if hdr.is_none() {
                    return Err(format!("session {i} ({attack:?}): the server neither answered nor closed the sub-stream"));
                }
                if let Some(v) = is_valid {
                    if v != got_response {
                        return Err(format!("session {i} ({attack:?}, consensus={cons}): request valid={v} but response received={got_response}"));
                    }
                    if v && *cons {
                        expected_calls += 1;
                    }
                }
                st.class(&format!("attack={}", match attack {
                    RpcAttack::Oversize(_) => "oversize",
                    RpcAttack::Garbage(_) => "garbage",
                    RpcAttack::Truncated { .. } => "truncated",
                    RpcAttack::Empty => "empty",
                    RpcAttack::Valid => "valid",
                    RpcAttack::Mutated(_) => if is_valid == Some(true) { "mutated_still_valid" } else { "mutated_invalid" },
                    RpcAttack::Trailing(_) => "trailing_bytes",
                    RpcAttack::PaddedOversize => "well_formed_but_one_byte_over_the_limit",
                }));
                drop(s);
            }
            // the connection must still serve an honest ping
            life.clock.advance(time::Duration::seconds(2));
            let mut open = Box::pin(ping_q.open(&ctx));
            let Some(Ok(mut s)) = det::until_quiescent(&mut open).await else {
                return Err("after the malformed requests the server no longer opens ping sub-streams".into());
            };
            drop(open);
            s.write_all(&ctx, &framed(&ping_req)).await.map_err(|e| format!("{e:#}"))?;
            s.flush(&ctx).await.map_err(|e| format!("{e:#}"))?;
            s.close_write();
            let mut rd = Box::pin(s.recv_msg(&ctx, Wire::PingResp, 1024));
            match det::until_quiescent(&mut rd).await {
                Some(Ok(resp)) if resp == ping_req => {}
                other => return Err(format!("after the malformed requests an honest ping got {other:?}")),
            }
            if handler.calls.load(Ordering::SeqCst) != expected_calls {
                return Err(format!("the consensus handler ran {} times for {expected_calls} valid requests", handler.calls.load(Ordering::SeqCst)));
            }
            Ok(())
        }
        .await;
        if case.sessions.iter().any(|(_, a)| !matches!(a, RpcAttack::Valid)) {
            st.nontrivial(common::fingerprint(case));
        }
        st.sample(|| serde_json::to_value(case).unwrap());
        drop((ping_q, cons_q));
        let finished_early = node.is_finished();
        let out = life.end(vec![node, peer]).await;
        let mut it = out.into_iter();
        if let Err(p) = det::Life::task_outcome(it.next().unwrap()) {
            return Err(format!("the RPC service panicked: {p}"));
        }
        if let Err(p) = det::Life::task_outcome(it.next().unwrap()) {
            return Err(format!("harness-side multiplexer panicked: {p}"));
        }
        if finished_early && res.is_ok() {
            return Err("the RPC service terminated although only individual requests were malformed".into());
        }
        res
    })
}


// ---------------------------------------------------------------------------------------------
// L7: a whole network node (listener, accept loop, per-connection tasks) against hostile TCP clients

#[derive(Debug, Clone, Serialize, Deserialize, Hash, PartialEq)]
pub enum Hostile {
    /// Connect and reset the connection at once (SO_LINGER 0), nothing is ever sent.
    Reset,
    /// Connect and close cleanly at once.
    Close,
    /// Connect, send these bytes in the clear, close.
    Raw(Vec<u8>),
    /// The real preface (encryption choice, noise, endpoint choice), then garbage where the handshake frame belongs.
    AfterPreface { consensus_endpoint: bool, garbage: Vec<u8>, reset: bool },
    /// The real preface and a genuine gossip handshake, then garbage where the multiplexer handshake belongs.
    AfterHandshake { garbage: Vec<u8>, reset: bool },
}

#[derive(Debug, Clone, Serialize, Deserialize, Hash)]
pub struct LiveCase {
    /// The node accepts at most one connection per this many milliseconds (0 = unlimited): connections wait in the backlog.
    accept_every_ms: u16,
    clients: Vec<Hostile>,
    /// Hostile clients act at the same instant (else one after the other).
    burst: bool,
}

pub fn gen_live(ch: &mut Choices) -> LiveCase {
    let bytes = |ch: &mut Choices| -> Vec<u8> {
        match ch.below(4) {
            0 => vec![],
            1 => vec![0xff; 1 + ch.below(8)],
            2 => (0..ch.below(40)).map(|_| ch.raw() as u8).collect(),
            _ => {
                // a length prefix announcing more than will ever come
                let mut v = (ch.pick(&[5u32, 1 << 20, u32::MAX])).to_le_bytes().to_vec();
                v.extend((0..ch.below(4)).map(|_| ch.raw() as u8));
                v
            }
        }
    };
    let n = 1 + ch.below(5);
    let clients = (0..n)
        .map(|_| match ch.below(7) {
            0 | 1 => Hostile::Reset,
            2 => Hostile::Close,
            3 => Hostile::Raw(bytes(ch)),
            4 | 5 => Hostile::AfterPreface { consensus_endpoint: ch.bool(), garbage: bytes(ch), reset: ch.bool() },
            _ => Hostile::AfterHandshake { garbage: bytes(ch), reset: ch.bool() },
        })
        .collect();
    LiveCase { accept_every_ms: ch.pick(&[0u16, 0, 20, 60]), clients, burst: ch.bool() }
}

pub fn check_live(case: &LiveCase, st: &mut Stats) -> Result<(), String> {
    use rand::SeedableRng as _;
    use tokio::io::AsyncWriteExt as _;
    use zksync_concurrency::scope;
    use zksync_consensus_engine::{testonly::in_memory, EngineManager};
    use zksync_consensus_network::{testonly::Instance, verif::NoiseTcp};
    let rt = tokio::runtime::Builder::new_current_thread().enable_all().build().unwrap();
    rt.block_on(async {
        let ctx = &ctx::root();
        let rng = &mut rand::rngs::StdRng::seed_from_u64(13);
        let mut setup = validator::testonly::Setup::new_without_pregenesis(rng, 1);
        setup.push_blocks_v2(rng, 2);
        let setup = &setup;
        let nk = gen::node_keys();
        let node_pub = nk[9].public();
        let node_pub = &node_pub;
        let st2 = &mut *st;
        let res: Result<(), String> = scope::run!(ctx, |ctx, s| async move {
            let st = st2;
            let eng = in_memory::Engine::new_random(setup, setup.first_block());
            let (mgr, run) = EngineManager::new(ctx, Box::new(eng), time::Duration::seconds(60)).await.map_err(|e| format!("INFRA: EngineManager::new: {e:?}"))?;
            s.spawn_bg(async { run.run(ctx).await.map_err(|e| format!("INFRA: engine runner: {e:#}")) });
            let mut cfg = crate::c12::gossip_cfg(&nk[9]);
            let listen = zksync_concurrency::net::tcp::testonly::reserve_listener();
            cfg.server_addr = listen;
            cfg.public_addr = (*listen).into();
            cfg.tcp_accept_rate = if case.accept_every_ms == 0 { limiter::Rate::INF } else { limiter::Rate { burst: 1, refresh: time::Duration::milliseconds(case.accept_every_ms as i64) } };
            cfg.rpc.push_block_store_state_rate = limiter::Rate::INF;
            let addr: std::net::SocketAddr = *listen;
            let (_node, runner) = Instance::new(cfg, mgr);
            let ended: Arc<Mutex<Option<Result<(), String>>>> = Arc::default();
            {
                let ended = ended.clone();
                s.spawn_bg(async move {
                    let r = runner.run(ctx).await;
                    *ended.lock().unwrap() = Some(r.map_err(|e| format!("{e:#}")));
                    Ok(())
                });
            }
            // wait until the node listens
            let mut up = false;
            for _ in 0..500 {
                if let Ok(c) = tokio::net::TcpStream::connect(addr).await {
                    drop(c);
                    up = true;
                    break;
                }
                tokio::time::sleep(std::time::Duration::from_millis(5)).await;
            }
            if !up {
                return Err("INFRA: the node did not start listening within 2.5 s".into());
            }
            let genesis = setup.genesis.hash();
            let hostile = |h: Hostile, key: usize| async move {
                match h {
                    Hostile::Reset => {
                        if let Ok(c) = tokio::net::TcpStream::connect(addr).await {
                            let _ = c.set_linger(Some(std::time::Duration::ZERO));
                            drop(c);
                        }
                    }
                    Hostile::Close => {
                        if let Ok(mut c) = tokio::net::TcpStream::connect(addr).await {
                            let _ = c.shutdown().await;
                        }
                    }
                    Hostile::Raw(b) => {
                        if let Ok(mut c) = tokio::net::TcpStream::connect(addr).await {
                            let _ = c.write_all(&b).await;
                            let _ = c.shutdown().await;
                        }
                    }
                    Hostile::AfterPreface { consensus_endpoint, garbage, reset } => {
                        if let Ok(mut c) = NoiseTcp::preface_connect(ctx, addr, consensus_endpoint).await {
                            let _ = c.write_all(&garbage).await;
                            let _ = c.flush().await;
                            if !reset {
                                let _ = c.shutdown().await;
                            }
                        }
                    }
                    Hostile::AfterHandshake { garbage, reset } => {
                        if let Ok(mut c) = NoiseTcp::preface_connect(ctx, addr, false).await {
                            let pcfg = crate::c12::gossip_cfg(&nk[key]);
                            let _ = hook::gossip::handshake_outbound(ctx, &pcfg, genesis, &mut c, &nk[9].public()).await;
                            let _ = c.write_all(&garbage).await;
                            let _ = c.flush().await;
                            if !reset {
                                let _ = c.shutdown().await;
                            }
                        }
                    }
                }
            };
            if case.burst {
                let mut all = vec![];
                for (i, h) in case.clients.iter().cloned().enumerate() {
                    all.push(hostile(h, i % 4));
                }
                for f in all {
                    // started in order without waiting for the node in between
                    tokio::time::timeout(std::time::Duration::from_secs(8), f).await.map_err(|_| "INFRA: a hostile client did not get through its script within 8 s".to_string())?;
                }
            } else {
                for (i, h) in case.clients.iter().cloned().enumerate() {
                    tokio::time::timeout(std::time::Duration::from_secs(8), hostile(h, i % 4)).await.map_err(|_| "INFRA: a hostile client did not get through its script within 8 s".to_string())?;
                    tokio::time::sleep(std::time::Duration::from_millis(case.accept_every_ms as u64 + 3)).await;
                }
            }
            // give the node the time to accept everything that waits in its backlog
            tokio::time::sleep(std::time::Duration::from_millis((case.accept_every_ms as u64 + 2) * (case.clients.len() as u64 + 1) + 20)).await;
            for h in &case.clients {
                st.class(match h {
                    Hostile::Reset => "client_resets_at_once",
                    Hostile::Close => "client_closes_at_once",
                    Hostile::Raw(_) => "client_sends_cleartext_garbage",
                    Hostile::AfterPreface { .. } => "client_turns_hostile_after_the_preface",
                    Hostile::AfterHandshake { .. } => "client_turns_hostile_after_the_handshake",
                });
            }
            st.nontrivial(common::fingerprint(case));
            st.sample(|| serde_json::to_value(case).unwrap());
            if let Some(r) = ended.lock().unwrap().clone() {
                return Err(format!("the node's network component ended ({r:?}) after hostile TCP clients {:?} - every node task that depends on it goes down with it", case.clients));
            }
            // an honest peer must still be served: connect, handshake, announce a block range, get the acknowledgement
            let probe = crate::c19::honest_probe(ctx, s, addr, &nk[5], node_pub, setup);
            match tokio::time::timeout(std::time::Duration::from_secs(12), probe).await {
                Ok(Ok(())) => {}
                Ok(Err(e)) if e.starts_with("INFRA") => return Err(e),
                Ok(Err(e)) => {
                    let ended = ended.lock().unwrap().clone();
                    return Err(format!("after hostile TCP clients {:?} an honest peer is no longer served: {e} (network component: {ended:?})", case.clients));
                }
                Err(_) => {
                    let ended = ended.lock().unwrap().clone();
                    return Err(format!("after hostile TCP clients {:?} an honest peer is not served within 12 s (network component: {ended:?})", case.clients));
                }
            }
            if let Some(r) = ended.lock().unwrap().clone() {
                return Err(format!("the node's network component ended ({r:?}) after hostile TCP clients {:?}", case.clients));
            }
            Ok(())
        })
        .await;
        res
    })
}

pub fn main(env: &Env) -> i32 {
    // a process death (abort inside a scope task, stack overflow, ...) while a case runs is a violation of C10 with that case as the replay
    common::crashdump::arm(&env.property);
    if let Mode::Replay(path) = env.mode() {
        let (part, case) = Env::read_replay(&path);
        let r = match part.as_str() {
            "decoders" => common::replay_case::<DecCase>(case, check_dec),
            "frames" => common::replay_case::<FrameCase>(case, check_frame),
            "noise_garbage" => common::replay_case::<NoiseCase>(case, check_noise),
            "mux_raw" => common::replay_case::<MuxRawCase>(case, check_mux_raw),
            "rpc_garbage" => common::replay_case::<RpcCase>(case, check_rpc),
            "live_node" => common::replay_case::<LiveCase>(case, check_live),
            "live_state" => common::replay_case::<crate::c19::StateCase>(case, crate::c19::check_state),
            "mux_flood" => common::replay_case::<crate::c14::FloodCase>(case, crate::c14::check_flood),
            p => Err(format!("unknown part {p}")),
        };
        return env.finish_replay(&path, r);
    }
    let mut parts: Vec<PartReport> = vec![];
    parts.extend(common::run_regress::<DecCase>(env, "decoders", check_dec));
    parts.extend(common::run_regress::<MuxRawCase>(env, "mux_raw", check_mux_raw));
    parts.extend(common::run_regress::<RpcCase>(env, "rpc_garbage", check_rpc));
    parts.extend(common::run_regress::<LiveCase>(env, "live_node", check_live));
    parts.extend(common::run_regress::<crate::c19::StateCase>(env, "live_state", crate::c19::check_state));
    let n = entries().len();
    parts.push(run_proptest(
        env,
        "decoders",
        "L1: for each of the 56 wire types (roles, std, network): a valid encoding from the C09 generators, then the structured extremiser (0-2 tree mutations: scalar -> extreme value, all sibling scalars -> arithmetic boundary values, bytes +-1 / bit flip / empty / 70 kB, sub-message emptied, \
         field dropped / duplicated / renumbered / added, wire type changed, values swapped; then optionally raw truncation, byte set, bytes inserted); oracle: decode returns Ok or Err, never panics. Non-trivial = a mutated input that the decoder accepts; distinct = (type, bytes)",
        PartOpts { cases: env.tier.pick(150_000, 4_000_000), max_shrink_iters: 3000, samples: 3 },
        move || (0..n, proptest::collection::vec(any::<u16>(), 0..160)).prop_map(|(ty, choices)| DecCase { ty, name: entries()[ty].name.to_string(), choices }),
        check_dec,
    ));
    parts.push(run_proptest(
        env,
        "frames",
        "L2: the real recv_proto on a counting transport: declared length {<= limit, limit+1, huge} x provided body {none, short, full} x {valid, garbage}; oracle: above the limit the call fails after reading exactly 4 bytes; never more than 4+declared bytes are read; truncated frames fail",
        PartOpts { cases: env.tier.pick(3_000, 50_000), max_shrink_iters: 500, samples: 2 },
        || {
            (prop_oneof![Just(0u32), Just(1), Just(34), Just(1024), Just(10240)], 0u32..4, 0u32..3, any::<bool>(), any::<u16>()).prop_map(|(max, rel, prov, garbage, r)| {
                let declared = match rel {
                    0 => r as u32 % (max + 1),
                    1 => max,
                    2 => max + 1,
                    _ => [u32::MAX, 1 << 31, 1 << 24][r as usize % 3],
                };
                let provided = match prov {
                    0 => 0,
                    1 => declared.min(20000) / 2,
                    _ => declared.min(20000),
                };
                FrameCase { max_size: max, declared, provided, garbage }
            })
        },
        check_frame,
    ));
    parts.push(run_proptest(
        env,
        "noise_garbage",
        "L3: noise server / client handshake fed 0-3 length-prefixed garbage messages (sizes 0..65535, wrong prefixes, trailing byte) then EOF; and an established session whose reader is fed bytes the peer never encrypted; oracle: error or EOF, never a panic, a hang or plaintext",
        PartOpts { cases: env.tier.pick(3_000, 100_000), max_shrink_iters: 500, samples: 2 },
        || Choices::strategy(80).prop_map(|mut ch| gen_noise(&mut ch)),
        check_noise,
    ));
    parts.push(run_proptest(
        env,
        "mux_raw",
        "L4: the real Mux::run against a raw peer: well-formed or garbage handshake, then 0-11 frames with arbitrary 2-byte headers (all four kind bit patterns, both stream kinds, ids inside and outside the agreed range), DATA before OPEN, lengths {0,1,2,100,4096,65535}, truncated payloads, \
         with 0-2 application tasks accepting and reading; oracle: Mux::run ends with an error (or keeps serving until cancelled), never panics. Non-trivial = valid handshake and at least one header addressing an existing stream",
        PartOpts { cases: env.tier.pick(8_000, 300_000), max_shrink_iters: 1000, samples: 2 },
        || Choices::strategy(120).prop_map(|mut ch| gen_mux_raw(&mut ch)),
        check_mux_raw,
    ));
    parts.push(run_proptest(
        env,
        "rpc_garbage",
        "L5: the real rpc::Service (real ping server, consensus server with a counting handler) behind the real multiplexer; the peer opens 1-6 well-framed sub-streams carrying oversize / garbage / truncated / empty / mutated / trailing-bytes / valid requests; \
         oracle: valid requests are answered and handled exactly once, malformed ones end their sub-stream only, the service keeps running, a final honest ping succeeds, nothing panics. Non-trivial = at least one malformed request",
        PartOpts { cases: env.tier.pick(2_500, 60_000), max_shrink_iters: 400, samples: 2 },
        || Choices::strategy(400).prop_map(|mut ch| gen_rpc(&mut ch)),
        check_rpc,
    ));
    parts.push(run_proptest(
        env,
        "mux_flood",
        "L4, limits: the non-cooperative peer of C14's flood part against the real multiplexer - DATA floods of 4-12 times the read buffer on streams the application accepted but does not read (or never accepts), control-frame floods (CLOSE frames on open streams), and floods during which the application consumes a few unaligned bytes at a time; \
         oracle (the 'never buffers more than its configured limits' clause of C10): bytes pulled from the transport stay within read_buffer_size + 4 * (read_frame_count + 1), frames held within read_frame_count + 1, payload pulled within consumed + read_buffer_size; Mux::run keeps serving. Non-trivial as in C14",
        PartOpts { cases: env.tier.pick(400, 10_000), max_shrink_iters: 200, samples: 2 },
        || Choices::strategy(300).prop_map(|mut ch| crate::c14::gen_flood(&mut ch)),
        crate::c14::check_flood,
    ));
    parts.push(run_proptest(
        env,
        "live_node",
        "L7: a whole network node (the real Network runner: listener, rate-limited accept loop, per-connection tasks, gossip handlers) on a loopback port against 1-5 hostile TCP clients, one after the other or all at once: connect-and-reset, connect-and-close, clear-text garbage, the real preface followed by garbage (either endpoint), the real preface and a genuine handshake followed by garbage (with a clean close or a reset); the node accepts connections unthrottled or one per 20 / 60 ms, so that hostile connections wait in its backlog; \
         oracle: the network component keeps running (its task has not ended) and an honest peer that connects afterwards completes preface, noise and handshake and gets a block-range announcement acknowledged. Every case is non-trivial. Environment trouble (ports, timeouts of the harness' own clients) is inconclusive",
        PartOpts { cases: env.tier.pick(320, 8_000), max_shrink_iters: 60, samples: 2 },
        || Choices::strategy(60).prop_map(|mut ch| gen_live(&mut ch)),
        check_live,
    ));
    parts.push(run_proptest(
        env,
        "live_state",
        "a real gossip node (gossip state, block fetcher loop, per-connection handler with its push_block_store_state server and get_block client) with an empty store against a hostile scripted peer over loopback TCP (real preface / noise / handshake, hand-made RPC frames): 1-4 block-range announcements whose first block and last block - absent, a pre-genesis number, or a commit certificate carrying that number - are 0, 1, 2^k, u64::MAX-1, u64::MAX or random, a third of them additionally mutated at wire level by the schema-aware extremiser; the peer never answers the node's requests and comes back under another identity when it is dropped; \
         oracle: no task of the node panics (a panic of the handler or fetcher surfaces in the harness), and once the hostile connection has ended an honest peer that announces the real chain gets every block fetched and stored unchanged (blocks that differ are a violation; a fetch that does not complete within 10 s of wall-clock time is reported as inconclusive). Non-trivial = at least one hostile announcement was acknowledged",
        PartOpts { cases: env.tier.pick(320, 8_000), max_shrink_iters: 60, samples: 2 },
        || Choices::strategy(120).prop_map(|mut ch| crate::c19::gen_state(&mut ch)),
        crate::c19::check_state,
    ));
    env.finish(
        "exploration",
        "layered generated inputs (decoders, frames, noise, multiplexer, RPC, whole network node over TCP) with per-case panic capture; the consensus-handler layer is reported by the simulator engine's `handlers` part (merged into the same evidence file)",
        &["a caught panic equals a process abort of a real node (the repository builds with panic=abort)", "overflow-check panics exist only in builds with overflow checks (the repository's dev/test profile)"],
        parts,
    )
}

/// libFuzzer bridge: the first choice selects the type, the rest drive the sample and the mutation.
pub fn fuzz_gen_dec(ch: &mut Choices) -> DecCase {
    let ty = ch.below(entries().len());
    let mut choices = vec![];
    for _ in 0..160 {
        choices.push(ch.raw());
    }
    while choices.last() == Some(&0) {
        choices.pop();
    }
    DecCase { ty, name: entries()[ty].name.to_string(), choices }
}
