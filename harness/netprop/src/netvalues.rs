//! Valid encodings of the network crate's wire types, built from roles-level generators and the
//! message descriptors exposed by the hook (the Rust types themselves are crate-private).
use common::Choices;
use gen::{
    values::{self, TypeEntry},
    wire::{self, Field, Style, Val},
};
use rand::Rng;
use zksync_consensus_network::verif::Wire;
use zksync_consensus_roles::{node, validator};
use zksync_protobuf::encode;

fn msg(w: Wire, fields: Vec<(u32, Val)>) -> Vec<u8> {
    let fs: Vec<Field> = fields.into_iter().map(|(num, val)| Field { num, val }).collect();
    wire::emit(&fs, &w.descriptor(), &mut Choices::new(vec![]), &Style::default())
}

fn sub(fields: Vec<(u32, Val)>) -> Val {
    // nested message given as already-encoded bytes (LEN wire type either way)
    let mut out = vec![];
    for (num, val) in fields {
        let tag = |wt: u64| ((num as u64) << 3) | wt;
        let mut put = |x: u64, out: &mut Vec<u8>| {
            let mut x = x;
            loop {
                let b = (x & 0x7f) as u8;
                x >>= 7;
                if x == 0 {
                    out.push(b);
                    break;
                }
                out.push(b | 0x80);
            }
        };
        match val {
            Val::Varint(v) => {
                put(tag(0), &mut out);
                put(v, &mut out);
            }
            Val::Bytes(b) => {
                put(tag(2), &mut out);
                put(b.len() as u64, &mut out);
                out.extend(b);
            }
            _ => unreachable!(),
        }
    }
    Val::Bytes(out)
}

/// A valid encoding of the given network wire type.
pub fn sample(w: Wire, ch: &mut Choices) -> Vec<u8> {
    let u = |ch: &mut Choices| values::u64x(ch);
    match w {
        Wire::PrefaceEncryption => msg(w, vec![(1, Val::Bytes(vec![]))]),
        Wire::PrefaceEndpoint => msg(w, vec![(1 + ch.below(2) as u32, Val::Bytes(vec![]))]),
        Wire::MuxHandshake => {
            let mut f = vec![];
            for field in [5u32, 6] {
                let n = ch.below(4);
                for i in 0..n {
                    f.push((field, sub(vec![(1, Val::Varint(i as u64 * 3 + ch.below(2) as u64 * 1000)), (2, Val::Varint(u(ch) as u32 as u64))])));
                }
            }
            msg(w, f)
        }
        Wire::GossipHandshake => {
            let sid: node::Signed<node::SessionId> = values::rng_of(ch).gen();
            let gh: validator::GenesisHash = values::rng_of(ch).gen();
            let mut f = vec![(1, Val::Bytes(encode(&sid))), (3, Val::Bytes(encode(&gh))), (2, Val::Varint(ch.below(2) as u64))];
            if ch.bool() {
                f.push((4, Val::Bytes(ch.pick(&["0.1.0", "1.2.3", "10.20.30-alpha.1+build.5", "0.0.0"]).as_bytes().to_vec())));
            }
            msg(w, f)
        }
        Wire::ConsensusHandshake => {
            let key = &gen::val_keys()[ch.below(gen::POOL)];
            let sid = key.sign_msg(node::SessionId(vec![ch.raw() as u8; 32]));
            let gh: validator::GenesisHash = values::rng_of(ch).gen();
            msg(w, vec![(1, Val::Bytes(encode(&sid))), (2, Val::Bytes(encode(&gh)))])
        }
        Wire::PingReq | Wire::PingResp => msg(w, vec![(1, Val::Bytes((0..32).map(|_| ch.raw() as u8).collect()))]),
        Wire::ConsensusReq => msg(w, vec![(1, Val::Bytes(encode(&values::g_signed(ch).0)))]),
        Wire::ConsensusResp => vec![],
        Wire::GetBlockReq => msg(w, vec![(1, Val::Varint(u(ch)))]),
        Wire::GetBlockResp => match ch.below(3) {
            0 => vec![],
            1 => {
                let b: validator::PreGenesisBlock = values::rng_of(ch).gen();
                msg(w, vec![(2, Val::Bytes(encode(&b)))])
            }
            _ => {
                let (q, _) = values::g_commit_qc(ch);
                let b = validator::v2::FinalBlock { payload: values::g_payload(ch), justification: q };
                msg(w, vec![(3, Val::Bytes(encode(&b)))])
            }
        },
        Wire::PushBlockStoreState => {
            let first = ch.range(0, 1000);
            let mut state = vec![(1, Val::Varint(first))];
            match ch.below(3) {
                0 => {}
                1 => state.push((2, sub(vec![(2, Val::Varint(first + ch.range(0, 50)))]))),
                _ => {
                    let (mut q, _) = values::g_commit_qc(ch);
                    q.message.proposal.number = validator::BlockNumber(first + ch.range(0, 50));
                    state.push((2, sub(vec![(3, Val::Bytes(encode(&q)))])));
                }
            }
            msg(w, vec![(3, sub(state))])
        }
        Wire::PushTx => msg(w, vec![(1, sub(vec![(1, Val::Bytes(vec![ch.raw() as u8; ch.below(50)]))]))]),
        Wire::PushValidatorAddrs => {
            let n = ch.below(4);
            msg(w, (0..n).map(|_| (1, Val::Bytes(encode(&values::g_signed_addr(ch).0)))).collect())
        }
    }
}

fn roundtrip(w: Wire, bytes: &[u8]) -> Result<Vec<u8>, String> {
    let e = w.reencode(bytes).map_err(|e| format!("{e:#}"))?;
    let e2 = w
        .reencode(&e)
        .map_err(|err| format!("ACCEPTED-THEN-INCONSISTENT: encode(decode(bytes)) does not decode: {err:#}"))?;
    if e != e2 {
        return Err("ACCEPTED-THEN-INCONSISTENT: re-encoding is not a fixed point".into());
    }
    Ok(e)
}

macro_rules! net_entry {
    ($name:expr, $w:expr) => {
        TypeEntry {
            name: $name,
            sample: |ch| sample($w, ch),
            desc: || $w.descriptor(),
            roundtrip: |b| roundtrip($w, b),
        }
    };
}

/// Byte-level table of the network wire types.
pub fn types() -> Vec<TypeEntry> {
    vec![
        net_entry!("network.preface.Encryption", Wire::PrefaceEncryption),
        net_entry!("network.preface.Endpoint", Wire::PrefaceEndpoint),
        net_entry!("network.mux.Handshake", Wire::MuxHandshake),
        net_entry!("network.gossip.Handshake", Wire::GossipHandshake),
        net_entry!("network.consensus.Handshake", Wire::ConsensusHandshake),
        net_entry!("network.ping.PingReq", Wire::PingReq),
        net_entry!("network.ping.PingResp", Wire::PingResp),
        net_entry!("network.consensus.ConsensusReq", Wire::ConsensusReq),
        net_entry!("network.consensus.ConsensusResp", Wire::ConsensusResp),
        net_entry!("network.gossip.GetBlockRequest", Wire::GetBlockReq),
        net_entry!("network.gossip.GetBlockResponse", Wire::GetBlockResp),
        net_entry!("network.gossip.PushBlockStoreState", Wire::PushBlockStoreState),
        net_entry!("network.gossip.PushTx", Wire::PushTx),
        net_entry!("network.gossip.PushValidatorAddrs", Wire::PushValidatorAddrs),
    ]
}

/// Roles/std types followed by the network types.
pub fn all_types() -> Vec<TypeEntry> {
    let mut v = values::types();
    v.extend(types());
    v
}
