//! C09, network half: the wire types of the network crate (preface, the three handshakes, every RPC
//! request / response) and the *decoded* values of every wire type.
//!
//! The Rust types are crate-private, so values are handled at byte level: a valid message is built by
//! the harness from the schema (independent of the crate's encoder), and the crate's
//! `encode(decode(..))` (hook `Wire::reencode`) is judged with the harness' own wire parser.
use common::{run_proptest, Choices, Env, Mode, PartOpts, PartReport, Stats};
use gen::wire::{self, Field, Style, Val};
use proptest::prelude::*;
use serde::{Deserialize, Serialize};
use zksync_consensus_network::verif::Wire;
use zksync_protobuf::canonical_raw;

use crate::{c10, netvalues};

fn hex(b: &[u8]) -> String {
    let s: String = b.iter().take(240).map(|x| format!("{x:02x}")).collect();
    if b.len() > 240 {
        format!("{s}..({} bytes)", b.len())
    } else {
        s
    }
}

/// Field tree in normal form: fields ordered by number (stable, so the element order of a repeated
/// field is kept), recursively.
fn normal(fs: &[Field]) -> Vec<Field> {
    let mut v: Vec<Field> = fs
        .iter()
        .map(|f| Field {
            num: f.num,
            val: match &f.val {
                Val::Msg(sub, d) => Val::Msg(normal(sub), d.clone()),
                x => x.clone(),
            },
        })
        .collect();
    v.sort_by_key(|f| f.num);
    v
}

#[derive(Debug, Clone, Serialize, Deserialize, Hash)]
pub struct NetCase {
    ty: usize,
    name: String,
    choices: Vec<u16>,
}

const STYLES: [Style; 4] = [
    Style { permute: true, repack: false, pad_varints: false },
    Style { permute: true, repack: true, pad_varints: false },
    Style { permute: false, repack: true, pad_varints: true },
    Style { permute: true, repack: true, pad_varints: true },
];

pub fn check_net(case: &NetCase, st: &mut Stats) -> Result<(), String> {
    let w = Wire::ALL[case.ty % Wire::ALL.len()];
    let name = format!("{w:?}");
    let mut ch = Choices::new(case.choices.clone());
    let desc = w.descriptor();
    let valid = netvalues::sample(w, &mut ch);
    let tree = wire::parse(&valid, &desc).map_err(|e| format!("harness: {name}: generated message does not parse: {e}"))?;
    // (1) lossless: the crate's decode + encode keeps every field and every value
    let e = w.reencode(&valid).map_err(|err| format!("{name}: a valid message is rejected: {err:#}; bytes {}", hex(&valid)))?;
    let back = wire::parse(&e, &desc).map_err(|err| format!("{name}: encode output is not a valid message of the schema: {err}; bytes {}", hex(&e)))?;
    // (the two repeated fields of the mux handshake are maps keyed by capability: entry order is not content)
    let norm = |t: &[Field]| {
        let mut v = normal(t);
        if w == Wire::MuxHandshake {
            v.sort_by_key(|f| (f.num, format!("{:?}", f.val)));
        }
        v
    };
    if norm(&back) != norm(&tree) {
        return Err(format!(
            "{name}: decode + encode changed the content of the message: sent {} got back {}",
            hex(&valid),
            hex(&e)
        ));
    }
    // (2) canonical fixed point
    let c = canonical_raw(&e, &desc).map_err(|err| format!("{name}: canonical_raw rejects encode output: {err:#}"))?;
    if c != e {
        return Err(format!("{name}: canonical_raw(encode(x)) != encode(x): {} vs {}", hex(&c), hex(&e)));
    }
    let e2 = w.reencode(&e).map_err(|err| format!("{name}: encode output does not decode: {err:#}; bytes {}", hex(&e)))?;
    if e2 != e {
        return Err(format!("{name}: re-encoding is not a fixed point: {} vs {}", hex(&e), hex(&e2)));
    }
    // (3) every alternative serialisation normalises / decodes to the same thing
    // (alternatives are derived from the canonical listing: the element order of a repeated field is content for
    // protobuf and is kept by canonical_raw, and the mux handshake's encoder lists its map entries by capability)
    let mut differed = false;
    for (si, style) in STYLES.iter().enumerate() {
        for _ in 0..2 {
            let alt = wire::emit(&back, &desc, &mut ch, style);
            differed |= alt != e;
            let what = format!("{name}: style {si}");
            let c = canonical_raw(&alt, &desc).map_err(|err| format!("{what}: canonical_raw rejects a valid serialisation: {err:#}; bytes {}", hex(&alt)))?;
            if c != e {
                return Err(format!("{what}: a valid serialisation normalises to other bytes: alt {} canonical {} expected {}", hex(&alt), hex(&c), hex(&e)));
            }
            let y = w.reencode(&alt).map_err(|err| format!("{what}: a valid serialisation does not decode: {err:#}; bytes {}", hex(&alt)))?;
            if y != e {
                return Err(format!("{what}: a valid serialisation decodes to another value: alt {} gives {} expected {}", hex(&alt), hex(&y), hex(&e)));
            }
        }
    }
    // (4) the mux handshake holds two maps: the same entries listed in another order are the same value
    if w == Wire::MuxHandshake {
        let mut t2 = tree.clone();
        t2.reverse();
        let r = ch.below(t2.len().max(1));
        t2.rotate_left(r);
        let alt = wire::emit(&t2, &desc, &mut Choices::new(vec![]), &Style::default());
        let y = w.reencode(&alt).map_err(|err| format!("{name}: entries listed in another order are rejected: {err:#}"))?;
        if y != e {
            return Err(format!("{name}: equal values (same map entries, other listing order) encode differently: {} vs {}", hex(&e), hex(&y)));
        }
        st.class("mux_handshake_listing_order");
    }
    let (depth, rep) = wire::shape(&tree);
    st.class(&format!("type={name}"));
    if differed {
        st.class("reserialisation_differs_from_canonical");
    }
    if depth >= 3 {
        st.class("nesting>=3");
    }
    if rep >= 2 {
        st.class("repeated>=2");
    }
    if depth >= 3 || rep >= 2 {
        st.nontrivial(common::fingerprint(&(&name, &e)));
    }
    st.sample(|| serde_json::json!({"type": name, "canonical_hex": hex(&e)}));
    Ok(())
}

/// Values reached through the decoder: whatever the decoder accepts (valid encodings with one or two
/// scalars / lengths / fields replaced by extreme ones) is a value of the type and must survive
/// encode + decode unchanged.
pub fn check_decoded(case: &c10::DecCase, st: &mut Stats) -> Result<(), String> {
    let (e, _valid, m, labels) = c10::dec_input(case);
    st.class(&format!("type={}", e.name));
    match common::guard_val(|| (e.roundtrip)(&m)) {
        // panics belong to C10
        Err(_) => {
            st.class("decoder_panicked(see C10)");
            Ok(())
        }
        Ok(Ok(enc)) => {
            st.class("accepted");
            // the re-encoding of an accepted input is canonical
            let desc = (e.desc)();
            let c = canonical_raw(&enc, &desc).map_err(|err| format!("{}: canonical_raw rejects the encoding of a decoded value: {err:#}; input {}", e.name, hex(&m)))?;
            if c != enc {
                return Err(format!("{}: the encoding of a decoded value is not canonical: input {} encoding {} canonical {}", e.name, hex(&m), hex(&enc), hex(&c)));
            }
            let again = (e.roundtrip)(&enc).map_err(|err| format!("{}: the encoding of a decoded value does not round-trip: {err}; input {}", e.name, hex(&m)))?;
            if again != enc {
                return Err(format!("{}: encode(decode(e)) != e for the encoding e of a decoded value; input {}", e.name, hex(&m)));
            }
            if labels != ["valid"] {
                st.class("accepted_after_mutation");
                st.nontrivial(common::fingerprint(&(e.name, &m)));
                st.sample(|| serde_json::json!({"type": e.name, "mutations": labels, "input_hex": hex(&m)}));
            }
            Ok(())
        }
        Ok(Err(err)) => {
            if let Some(rest) = err.strip_prefix("ACCEPTED-THEN-INCONSISTENT") {
                return Err(format!("{}: a value accepted by the decoder does not survive encode + decode{rest}; mutations {labels:?}; input {}", e.name, hex(&m)));
            }
            st.class("rejected");
            Ok(())
        }
    }
}

pub fn gen_net(ch: &mut Choices) -> NetCase {
    let ty = ch.below(Wire::ALL.len());
    let mut choices = vec![];
    for _ in 0..120 {
        choices.push(ch.raw());
    }
    while choices.last() == Some(&0) {
        choices.pop();
    }
    NetCase { ty, name: format!("{:?}", Wire::ALL[ty]), choices }
}

pub fn main(env: &Env) -> i32 {
    if let Mode::Replay(path) = env.mode() {
        let (part, case) = Env::read_replay(&path);
        let r = match part.as_str() {
            "net_types" => common::replay_case::<NetCase>(case, check_net),
            "decoded_values" => common::replay_case::<c10::DecCase>(case, check_decoded),
            p => Err(format!("unknown part {p}")),
        };
        return env.finish_replay(&path, r);
    }
    let mut parts: Vec<PartReport> = vec![];
    parts.extend(common::run_regress::<NetCase>(env, "net_types", check_net));
    parts.extend(common::run_regress::<c10::DecCase>(env, "decoded_values", check_decoded));
    let n = Wire::ALL.len();
    parts.push(run_proptest(
        env,
        "net_types",
        "for each of the 14 wire types of the network crate (preface, mux / gossip / validator handshakes, ping, consensus, get_block, push_block_store_state, push_tx, push_validator_addrs requests and responses): \
         a valid message built by the harness from the schema goes through the crate's decode + encode; the result must contain exactly the same fields and values (judged by the harness' own wire parser), be a fixed \
         point of canonical_raw and of decode + encode, and 8 re-serialisations (field permutation, re-chunked packing, varint padding) must normalise and decode to the same bytes; mux handshakes with their map \
         entries listed in another order must encode identically; non-trivial = nesting >= 3 or a repeated field with >= 2 entries; distinct = canonical bytes",
        PartOpts { cases: env.tier.pick(12_000, 200_000), max_shrink_iters: 2000, samples: 3 },
        move || (0..n, proptest::collection::vec(any::<u16>(), 0..120)).prop_map(|(ty, choices)| NetCase { ty, name: format!("{:?}", Wire::ALL[ty]), choices }),
        check_net,
    ));
    let ntypes = c10::entries().len();
    let what = format!(
        "values reached through the decoders of all {ntypes} byte-level wire types (roles, std, storage, network): a valid encoding with one or two scalars, lengths or fields replaced by extreme ones (the generator of C10 decoders); \
         whenever the decoder accepts, the decoded value x must satisfy decode(encode(x)) == x, encode(x) must be canonical and a fixed point; durations / timestamps with i64::MIN seconds are refused by the decoder and \
         therefore never reach the oracle; non-trivial = a mutated input that was accepted; distinct = input bytes"
    );
    parts.push(run_proptest(
        env,
        "decoded_values",
        &what,
        PartOpts { cases: env.tier.pick(40_000, 600_000), max_shrink_iters: 2000, samples: 3 },
        move || (0..ntypes, proptest::collection::vec(any::<u16>(), 0..160)).prop_map(|(ty, choices)| c10::DecCase::new(ty, choices)),
        check_decoded,
    ));
    env.finish(
        "exploration",
        "network wire types at byte level through the hook (the Rust types are private): value equality is judged on the field tree by the harness' own parser",
        &[],
        parts,
    )
}
