//! C12 Connections are admitted only for authenticated, expected, unique peers.
//! (a) handshake transcripts over real loopback TCP + real noise; (b) the connection pool.
use std::{
    collections::{BTreeMap, HashSet},
    sync::OnceLock,
};

use common::{det, run_proptest, Choices, Env, Mode, PartOpts, PartReport, Stats};
use proptest::prelude::*;
use serde::{Deserialize, Serialize};
use tokio::io::{AsyncReadExt, AsyncWriteExt};
use zksync_concurrency::{ctx, limiter, net};
use zksync_consensus_network::{
    verif::{self as hook, NoiseTcp, Pool},
    Config, GossipConfig, RpcConfig,
};
use zksync_consensus_roles::{node, validator};

// ---------------------------------------------------------------------------------------------
// (b) pool

#[derive(Debug, Clone, Serialize, Deserialize, Hash)]
pub struct PoolCase {
    allowed: Vec<u64>,
    extra_limit: usize,
    /// Rounds of operations issued concurrently: (insert?, key).
    rounds: Vec<Vec<(bool, u64)>>,
}

fn gen_pool(ch: &mut Choices) -> PoolCase {
    let allowed: Vec<u64> = (0..ch.below(4) as u64).collect();
    let rounds = (0..1 + ch.below(10)).map(|_| (0..1 + ch.below(5)).map(|_| (ch.chance(3, 5), ch.below(8) as u64)).collect()).collect();
    PoolCase { allowed, extra_limit: ch.below(4), rounds }
}

fn check_pool(case: &PoolCase, st: &mut Stats) -> Result<(), String> {
    det::run(|| async {
        let pool = std::sync::Arc::new(Pool::new(case.allowed.iter().copied().collect(), case.extra_limit));
        let allowed: HashSet<u64> = case.allowed.iter().copied().collect();
        let mut model: BTreeMap<u64, u64> = BTreeMap::new();
        let mut stamp = 0u64;
        let (mut hit_quota, mut churn) = (false, false);
        for (ri, round) in case.rounds.iter().enumerate() {
            // issue the whole round concurrently; on the single-threaded runtime the tasks run in spawn order
            let mut tasks = vec![];
            for (insert, k) in round {
                stamp += 1;
                let (pool, insert, k, v) = (pool.clone(), *insert, *k, stamp);
                tasks.push(tokio::spawn(async move {
                    if insert {
                        pool.insert(k, v).await.is_ok()
                    } else {
                        pool.remove(k).await;
                        true
                    }
                }));
            }
            let mut v = stamp - round.len() as u64;
            for ((insert, k), t) in round.iter().zip(tasks) {
                v += 1;
                let got = t.await.unwrap();
                if *insert {
                    let extras = model.keys().filter(|k| !allowed.contains(k)).count();
                    let want = !model.contains_key(k) && (allowed.contains(k) || extras < case.extra_limit);
                    if !allowed.contains(k) && extras >= case.extra_limit && !model.contains_key(k) {
                        hit_quota = true;
                    }
                    if want != got {
                        return Err(format!("round {ri}: insert({k}) returned {got}, the model says {want} (pool {model:?}, allowed {allowed:?}, quota {})", case.extra_limit));
                    }
                    if want {
                        model.insert(*k, v);
                    }
                } else if model.remove(k).is_some() {
                    churn = true;
                }
            }
            let cur = pool.current();
            if cur != model {
                return Err(format!("round {ri}: pool content {cur:?} differs from the model {model:?}"));
            }
            let extras = cur.keys().filter(|k| !allowed.contains(k)).count();
            if extras > case.extra_limit {
                return Err(format!("round {ri}: {extras} entries outside the allowed set, quota {}", case.extra_limit));
            }
        }
        if hit_quota && churn {
            st.class("quota_boundary_after_churn");
            st.nontrivial(common::fingerprint(case));
        }
        st.sample(|| serde_json::to_value(case).unwrap());
        Ok(())
    })
}

// (b') the same pool under real thread parallelism

#[derive(Debug, Clone, Serialize, Deserialize, Hash)]
pub struct PoolThreadsCase {
    allowed: Vec<u64>,
    extra_limit: usize,
    /// Keys inserted at the same moment, one task (on its own worker thread) per entry; keys repeat.
    inserts: Vec<u64>,
    workers: u8,
    reps: u16,
}

pub fn gen_pool_threads(ch: &mut Choices) -> PoolThreadsCase {
    let n = 2 + ch.below(7);
    PoolThreadsCase {
        allowed: (0..ch.below(3) as u64).collect(),
        extra_limit: ch.below(3),
        inserts: (0..n).map(|_| ch.below(4) as u64).collect(),
        workers: ch.pick(&[2u8, 4, 8]),
        reps: 200,
    }
}

/// Oracle valid under every interleaving: per key at most one of the simultaneous inserts succeeds (exactly one if the key is
/// allowed), the number of admitted keys outside the allowed set never exceeds the quota, the pool holds exactly the admitted keys.
pub fn check_pool_threads(case: &PoolThreadsCase, st: &mut Stats) -> Result<(), String> {
    use std::sync::{
        atomic::{AtomicUsize, Ordering},
        Arc,
    };
    let rt = tokio::runtime::Builder::new_multi_thread().worker_threads(case.workers.clamp(2, 16) as usize).enable_all().build().map_err(|e| format!("INFRA: runtime: {e}"))?;
    let allowed: HashSet<u64> = case.allowed.iter().copied().collect();
    let mut verdict = Ok(());
    'reps: for rep in 0..case.reps.max(1) {
        let pool = Arc::new(Pool::new(allowed.clone(), case.extra_limit));
        let ready = Arc::new(AtomicUsize::new(0));
        let n = case.inserts.len();
        let results: Vec<(u64, bool)> = rt.block_on(async {
            let mut tasks = vec![];
            for (i, k) in case.inserts.iter().enumerate() {
                let (pool, ready, k) = (pool.clone(), ready.clone(), *k);
                tasks.push(tokio::spawn(async move {
                    ready.fetch_add(1, Ordering::SeqCst);
                    // spin until every task is on a worker (bounded: with fewer workers than tasks the late ones just start later)
                    let mut spins = 0u32;
                    while ready.load(Ordering::SeqCst) < n && spins < 20_000 {
                        std::hint::spin_loop();
                        spins += 1;
                    }
                    (k, pool.insert(k, i as u64).await.is_ok())
                }));
            }
            let mut out = vec![];
            for t in tasks {
                out.push(t.await.unwrap());
            }
            out
        });
        let mut admitted: BTreeMap<u64, usize> = BTreeMap::new();
        for (k, ok) in &results {
            if *ok {
                *admitted.entry(*k).or_default() += 1;
            }
        }
        for (k, c) in &admitted {
            if *c > 1 {
                verdict = Err(format!("repetition {rep}: {c} simultaneous inserts of key {k} were all admitted; an identity may hold one connection"));
                break 'reps;
            }
        }
        for k in case.inserts.iter().filter(|k| allowed.contains(k)) {
            if !admitted.contains_key(k) {
                verdict = Err(format!("repetition {rep}: no insert of the allowed key {k} was admitted"));
                break 'reps;
            }
        }
        let extras = admitted.keys().filter(|k| !allowed.contains(k)).count();
        if extras > case.extra_limit {
            verdict = Err(format!("repetition {rep}: {extras} keys outside the allowed set were admitted at once, the quota is {}", case.extra_limit));
            break 'reps;
        }
        let distinct_extras = case.inserts.iter().filter(|k| !allowed.contains(k)).collect::<HashSet<_>>().len();
        if extras < case.extra_limit.min(distinct_extras) {
            verdict = Err(format!("repetition {rep}: only {extras} of {distinct_extras} keys outside the allowed set were admitted although the quota is {}", case.extra_limit));
            break 'reps;
        }
        let cur: Vec<u64> = pool.current().keys().copied().collect();
        let want: Vec<u64> = admitted.keys().copied().collect();
        if cur != want {
            verdict = Err(format!("repetition {rep}: the pool holds {cur:?}, the admitted inserts were for {want:?}"));
            break 'reps;
        }
    }
    rt.shutdown_timeout(std::time::Duration::from_secs(5));
    let dup = case.inserts.iter().collect::<HashSet<_>>().len() < case.inserts.len();
    if dup {
        st.class("same_key_inserted_by_two_threads");
        st.nontrivial(common::fingerprint(case));
    }
    st.sample(|| serde_json::to_value(case).unwrap());
    verdict
}

// ---------------------------------------------------------------------------------------------
// (a) handshakes

#[derive(Debug, Clone, Copy, Serialize, Deserialize, Hash, PartialEq)]
pub enum Sess {
    /// The id of the session the frame is sent on.
    This,
    /// The id of another real session (relay / replay of a transcript).
    OtherReal,
    /// Right length, arbitrary content.
    Random,
    /// Wrong length.
    Short,
}

#[derive(Debug, Clone, Serialize, Deserialize, Hash)]
pub struct HsCase {
    /// Validator-network handshake (else gossip).
    consensus: bool,
    /// The function under test is `outbound` (the adversary answers) or `inbound` (the adversary dials).
    victim_outbound: bool,
    /// Key index that signs the adversary's frame.
    signer: usize,
    /// Key index named in the frame.
    named: usize,
    session: Sess,
    genesis_same: bool,
    /// Key the victim dialled (outbound only).
    dialled: usize,
    /// Mutation of the encoded frame (structured extremiser choices); None = as built.
    mutation: Option<Vec<u16>>,
    /// Cut the frame after this many bytes and close.
    truncate: Option<u16>,
    /// Reflection (outbound victim only): the adversary holds no key at all and answers with the victim's own handshake
    /// frame, byte for byte. `Some(true)`: the victim dialled its own key (what the validator network's loopback
    /// connection does); `Some(false)`: it dialled key `dialled`.
    #[serde(default)]
    reflect: Option<bool>,
}

fn gen_hs(ch: &mut Choices) -> HsCase {
    let honest = ch.chance(1, 6);
    let signer = ch.below(4);
    let named = if honest || ch.chance(1, 2) { signer } else { ch.below(4) };
    HsCase {
        consensus: ch.bool(),
        victim_outbound: ch.bool(),
        signer,
        named,
        session: if honest { Sess::This } else { ch.weighted(&[(3, Sess::This), (3, Sess::OtherReal), (1, Sess::Random), (1, Sess::Short)]) },
        genesis_same: honest || ch.chance(4, 5),
        dialled: if honest || ch.chance(2, 3) { named } else { ch.below(4) },
        mutation: ch.chance(1, 8).then(|| (0..30).map(|_| ch.raw()).collect()),
        truncate: ch.chance(1, 12).then(|| ch.below(200) as u16),
        reflect: None,
    }
}

fn gen_reflect(ch: &mut Choices) -> HsCase {
    let consensus = ch.chance(2, 3);
    // gossip nodes never dial their own key; validators do (loopback connection to their public address)
    let own = consensus && ch.chance(2, 3);
    HsCase { consensus, victim_outbound: true, signer: 0, named: 0, session: Sess::This, genesis_same: true, dialled: ch.below(4), mutation: None, truncate: None, reflect: Some(own) }
}

pub fn gossip_cfg(key: &node::SecretKey) -> Config {
    static ADDR: OnceLock<net::tcp::ListenerAddr> = OnceLock::new();
    let addr = *ADDR.get_or_init(net::tcp::testonly::reserve_listener);
    Config {
        build_version: None,
        server_addr: addr,
        public_addr: (*addr).into(),
        gossip: GossipConfig { key: key.clone(), dynamic_inbound_limit: 10, static_inbound: Default::default(), static_outbound: Default::default() },
        validator_key: None,
        max_block_size: 1 << 20,
        max_tx_size: 1 << 20,
        ping_timeout: None,
        tcp_accept_rate: limiter::Rate::INF,
        rpc: RpcConfig::default(),
        max_block_queue_size: 10,
    }
}

fn genesis(same: bool) -> validator::GenesisHash {
    let c = gen::CommitteeSpec::uniform(3).build();
    if same {
        c.gh()
    } else {
        c.foreign_genesis().hash()
    }
}

async fn write_frame(s: &mut NoiseTcp, body: &[u8], truncate: Option<u16>) {
    let mut f = (body.len() as u32).to_le_bytes().to_vec();
    f.extend_from_slice(body);
    if let Some(t) = truncate {
        f.truncate(t as usize);
    }
    let _ = s.write_all(&f).await;
    let _ = s.flush().await;
    if truncate.is_some() {
        let _ = s.shutdown().await;
    }
}

async fn read_frame(s: &mut NoiseTcp) -> Option<Vec<u8>> {
    let mut len = [0u8; 4];
    s.read_exact(&mut len).await.ok()?;
    let n = u32::from_le_bytes(len) as usize;
    if n > 1 << 20 {
        return None;
    }
    let mut b = vec![0u8; n];
    s.read_exact(&mut b).await.ok()?;
    Some(b)
}

async fn noise_pair(ctx: &ctx::Ctx) -> Result<(NoiseTcp, NoiseTcp), String> {
    // retried: ephemeral ports can be momentarily exhausted on a busy machine
    let mut pair = None;
    for attempt in 0..5 {
        match hook::tcp_pair(ctx).await {
            Ok(p) => {
                pair = Some(p);
                break;
            }
            Err(e) if attempt == 4 => return Err(format!("INFRA: tcp_pair: {e:?}")),
            Err(_) => tokio::time::sleep(std::time::Duration::from_millis(50 << attempt)).await,
        }
    }
    let (a, b) = pair.unwrap();
    let (ca, cb) = tokio::join!(NoiseTcp::client(ctx, a), NoiseTcp::server(ctx, b));
    Ok((ca.map_err(|e| format!("{e:?}"))?, cb.map_err(|e| format!("{e:?}"))?))
}

/// Runs the function under test to completion while the adversary runs alongside; the adversary is
/// dropped (closing its end) as soon as the function under test has returned.
async fn with_adversary<V: std::future::Future, A: std::future::Future>(victim: V, adv: A) -> V::Output {
    tokio::pin!(victim);
    tokio::pin!(adv);
    tokio::select! {
        v = &mut victim => v,
        _ = &mut adv => victim.await,
    }
}

fn rt() -> tokio::runtime::Runtime {
    tokio::runtime::Builder::new_current_thread().enable_all().build().unwrap()
}

fn check_hs(case: &HsCase, st: &mut Stats) -> Result<(), String> {
    let rt = rt();
    rt.block_on(async {
        let ctx = &ctx::root();
        let nk = gen::node_keys();
        let vk = gen::val_keys();
        // the session under attack: (initiator end, responder end)
        let (mut ini, mut res) = noise_pair(ctx).await?;
        // another real session, whose id a relayed / replayed transcript is bound to
        let (other, _other_b) = noise_pair(ctx).await?;
        let sid = match case.session {
            Sess::This => ini.id(),
            Sess::OtherReal => other.id(),
            Sess::Random => (0..32).map(|i| (i * 7 + case.signer) as u8).collect(),
            Sess::Short => ini.id()[..20].to_vec(),
        };
        if ini.id() != res.id() || ini.id() == other.id() {
            return Err("session ids: the two ends of one session disagree or two sessions share an id".into());
        }
        let g = genesis(true);
        let frame_genesis = genesis(case.genesis_same);
        let mut frame = if case.consensus {
            let mut s = vk[case.signer].sign_msg(node::SessionId(sid.clone()));
            s.key = vk[case.named].public();
            hook::consensus::encode_handshake(s, frame_genesis)
        } else {
            let mut s = nk[case.signer].sign_msg(node::SessionId(sid.clone()));
            s.key = nk[case.named].public();
            hook::gossip::encode_handshake(s, frame_genesis, false)
        };
        let mut mutated_still_same = true;
        if let Some(m) = &case.mutation {
            let w = if case.consensus { hook::Wire::ConsensusHandshake } else { hook::Wire::GossipHandshake };
            let (f2, _) = gen::mutate::extremise(&mut Choices::new(m.clone()), &frame, &w.descriptor());
            // does the mutated frame still carry the same claims? (same canonical re-encoding)
            mutated_still_same = w.reencode(&f2).ok() == w.reencode(&frame).ok() && w.reencode(&f2).is_ok();
            frame = f2;
        }
        // ground truth: the claim is genuine iff the named key signed this session's id on our chain
        let cut = case.truncate.is_some_and(|t| (t as usize) < frame.len() + 4);
        let genuine = case.signer == case.named && case.session == Sess::This && case.genesis_same && !cut;
        let victim_key = 9usize; // the honest party's own key
        if let (Some(own), true) = (case.reflect, case.victim_outbound) {
            // the adversary proves nothing: it sends the victim's own frame back
            let adv = async {
                if let Some(f) = read_frame(&mut res).await {
                    write_frame(&mut res, &f, None).await;
                }
                res
            };
            let got: Result<String, String> = if case.consensus {
                let dk = if own { vk[victim_key].public() } else { vk[case.dialled].public() };
                with_adversary(hook::consensus::handshake_outbound(ctx, &vk[victim_key], g, &mut ini, &dk), adv).await.map(|()| format!("{dk:?}"))
            } else {
                let cfg = gossip_cfg(&nk[victim_key]);
                let dk = if own { nk[victim_key].public() } else { nk[case.dialled].public() };
                with_adversary(hook::gossip::handshake_outbound(ctx, &cfg, g, &mut ini, &dk), adv).await.map(|k| format!("{k:?}"))
            };
            st.class(if own { "reflection_on_a_self_dial" } else { "reflection_on_a_dial_of_another_key" });
            st.nontrivial(common::fingerprint(case));
            st.sample(|| serde_json::json!({"case": case, "result": format!("{got:?}")}));
            return match got {
                Err(_) => Ok(()),
                Ok(k) if own && case.consensus => Err(format!(
                    "validator_net_outbound: REFLECTION: a self-dial (loopback) was attributed to the node's own validator key {k} although the remote end holds no key and only echoed the node's own handshake frame"
                )),
                Ok(k) => Err(format!("outbound handshake attributed the connection to {k} although the remote end holds no key and only echoed the victim's own handshake frame (consensus={}, self-dial={own})", case.consensus)),
            };
        }
        let (got, expect): (Result<String, String>, Option<String>) = if case.victim_outbound {
            // adversary = responder: reads the victim's frame, answers with `frame`
            let adv = async {
                let _ = read_frame(&mut res).await;
                write_frame(&mut res, &frame, case.truncate).await;
                res
            };
            if case.consensus {
                let dk = vk[case.dialled].public();
                let r = with_adversary(hook::consensus::handshake_outbound(ctx, &vk[victim_key], g, &mut ini, &dk), adv).await;
                (r.map(|()| format!("{:?}", vk[case.dialled].public())), (genuine && case.dialled == case.named).then(|| format!("{:?}", vk[case.named].public())))
            } else {
                let cfg = gossip_cfg(&nk[victim_key]);
                let dk = nk[case.dialled].public();
                let r = with_adversary(hook::gossip::handshake_outbound(ctx, &cfg, g, &mut ini, &dk), adv).await;
                (r.map(|k| format!("{k:?}")), (genuine && case.dialled == case.named).then(|| format!("{:?}", nk[case.named].public())))
            }
        } else {
            // adversary = initiator: sends `frame`, then reads the victim's answer (if any)
            let adv = async {
                write_frame(&mut ini, &frame, case.truncate).await;
                let _ = read_frame(&mut ini).await;
                ini
            };
            if case.consensus {
                let r = with_adversary(hook::consensus::handshake_inbound(ctx, &vk[victim_key], g, &mut res), adv).await;
                (r.map(|k| format!("{k:?}")), genuine.then(|| format!("{:?}", vk[case.named].public())))
            } else {
                let cfg = gossip_cfg(&nk[victim_key]);
                let r = with_adversary(hook::gossip::handshake_inbound(ctx, &cfg, g, &mut res), adv).await;
                (r.map(|k| format!("{k:?}")), genuine.then(|| format!("{:?}", nk[case.named].public())))
            }
        };
        let label = format!(
            "{}_{}",
            if case.consensus { "validator_net" } else { "gossip" },
            if case.victim_outbound { "outbound" } else { "inbound" }
        );
        st.class(&label);
        let verifies_elsewhere = case.signer == case.named && (case.session == Sess::OtherReal || !case.genesis_same || (case.victim_outbound && case.dialled != case.named));
        if verifies_elsewhere {
            st.class("valid_signature_but_must_be_refused");
            st.nontrivial(common::fingerprint(case));
        }
        st.sample(|| serde_json::json!({"case": case, "result": format!("{got:?}"), "expected_identity": expect}));
        match (&got, &expect) {
            (Ok(k), Some(want)) if k == want || case.mutation.is_some() => Ok(()),
            (Ok(k), Some(want)) => Err(format!("{label}: connection attributed to {k}, the authenticated peer is {want}")),
            (Ok(k), None) => Err(format!("{label}: connection attributed to {k} although the frame does not prove it (signer {} named {} session {:?} same genesis {} dialled {})", case.signer, case.named, case.session, case.genesis_same, case.dialled)),
            (Err(e), Some(_)) if case.mutation.is_none() || mutated_still_same => Err(format!("{label}: a genuine handshake was refused: {e}")),
            (Err(_), _) => Ok(()),
        }
    })
}

// ---------------------------------------------------------------------------------------------
// real relay through a man in the middle (two live sessions, bytes forwarded verbatim)

#[derive(Debug, Clone, Serialize, Deserialize, Hash)]
pub struct RelayCase {
    consensus: bool,
    /// The man in the middle relays in both directions (else only initiator -> responder).
    both_directions: bool,
}

fn check_relay(case: &RelayCase, st: &mut Stats) -> Result<(), String> {
    let rt = rt();
    rt.block_on(async {
        let ctx = &ctx::root();
        let nk = gen::node_keys();
        let vk = gen::val_keys();
        let g = genesis(true);
        // honest initiator H1 <-S1-> M <-S2-> honest responder H2
        let (h1, mut m1) = noise_pair(ctx).await?;
        let (mut m2, h2) = noise_pair(ctx).await?;
        let both = case.both_directions;
        let mitm = async {
            if let Some(f) = read_frame(&mut m1).await {
                write_frame(&mut m2, &f, None).await;
            }
            if both {
                if let Some(f) = read_frame(&mut m2).await {
                    write_frame(&mut m1, &f, None).await;
                }
            }
            let _ = m1.shutdown().await;
            let _ = m2.shutdown().await;
            (m1, m2)
        };
        let (r1, r2): (Result<String, String>, Result<String, String>) = if case.consensus {
            let pk2 = vk[2].public();
            let (a, b, _k) = tokio::join!(
                async { let mut h1 = h1; hook::consensus::handshake_outbound(ctx, &vk[1], g, &mut h1, &pk2).await },
                async { let mut h2 = h2; hook::consensus::handshake_inbound(ctx, &vk[2], g, &mut h2).await },
                mitm
            );
            (a.map(|()| "ok".into()), b.map(|k| format!("{k:?}")))
        } else {
            let (c1, c2) = (gossip_cfg(&nk[1]), gossip_cfg(&nk[2]));
            let pk2 = nk[2].public();
            let (a, b, _k) = tokio::join!(
                async { let mut h1 = h1; hook::gossip::handshake_outbound(ctx, &c1, g, &mut h1, &pk2).await },
                async { let mut h2 = h2; hook::gossip::handshake_inbound(ctx, &c2, g, &mut h2).await },
                mitm
            );
            (a.map(|k| format!("{k:?}")), b.map(|k| format!("{k:?}")))
        };
        st.class(if case.consensus { "validator_net_relay" } else { "gossip_relay" });
        st.nontrivial(common::fingerprint(case));
        st.sample(|| serde_json::json!({"case": case, "initiator": format!("{r1:?}"), "responder": format!("{r2:?}")}));
        if let Ok(k) = &r2 {
            return Err(format!("the responder accepted a handshake relayed from another session as {k}"));
        }
        if r1.is_ok() {
            return Err("the initiator accepted a handshake relayed from another session".into());
        }
        Ok(())
    })
}

// ---------------------------------------------------------------------------------------------
// (d) admission: the real per-connection handlers of a node (`run_inbound_stream` / `run_outbound_stream` of the gossip
// and the validator network) with honest and dishonest peers connecting, dialling back and disconnecting

#[derive(Debug, Clone, Serialize, Deserialize, Hash, PartialEq)]
pub enum AdmOp {
    /// Identity `id` connects to the node and proves `id`.
    In { id: usize },
    /// The node dials identity `id`; the peer that answers proves `answer_as`. With `stall` the peer first lets the
    /// node's handshake frame arrive and looks at the node's outbound pool before it answers anything.
    Out {
        id: usize,
        answer_as: usize,
        #[serde(default)]
        stall: bool,
    },
    /// The peer end of the k-th still open connection is closed.
    Close { k: usize },
}

#[derive(Debug, Clone, Serialize, Deserialize, Hash)]
pub struct AdmCase {
    /// Validator network (committee = identities 0..3, identities 3..5 are outsiders) or gossip network.
    consensus: bool,
    /// Gossip: identities configured as static inbound peers.
    static_inbound: Vec<usize>,
    /// Gossip: identities configured as static outbound peers (the only ones the outbound pool admits).
    static_outbound: Vec<usize>,
    dynamic_inbound_limit: usize,
    ops: Vec<AdmOp>,
}

const ADM_IDS: usize = 5;

pub fn gen_adm(ch: &mut Choices) -> AdmCase {
    let n = 2 + ch.below(7);
    let mut ops = vec![];
    for _ in 0..n {
        ops.push(match ch.below(8) {
            0..=3 => AdmOp::In { id: ch.below(ADM_IDS) },
            4 | 5 => {
                let id = ch.below(ADM_IDS);
                AdmOp::Out { id, answer_as: if ch.chance(3, 4) { id } else { ch.below(ADM_IDS) }, stall: ch.chance(1, 3) }
            }
            _ => AdmOp::Close { k: ch.below(4) },
        });
    }
    AdmCase {
        consensus: ch.chance(2, 5),
        static_inbound: (0..ADM_IDS).filter(|_| ch.chance(1, 3)).collect(),
        static_outbound: (0..ADM_IDS).filter(|_| ch.chance(3, 4)).collect(),
        dynamic_inbound_limit: ch.below(3),
        ops,
    }
}

/// Result of starting a connection: the node's handler ended (with this error text, or cleanly) or it is serving.
#[derive(Debug, PartialEq)]
enum Started {
    Serving,
    Ended(Result<(), String>),
}

pub fn check_adm(case: &AdmCase, st: &mut Stats) -> Result<(), String> {
    use rand::SeedableRng as _;
    use std::sync::{Arc, Mutex};
    use zksync_concurrency::scope;
    let rt = rt();
    rt.block_on(async {
        let ctx = &ctx::root();
        let setup = validator::testonly::Setup::new(&mut rand::rngs::StdRng::seed_from_u64(7), 3);
        let nk = gen::node_keys();
        // validator identities: the committee, then outsiders
        let mut vks: Vec<validator::SecretKey> = setup.validator_keys.clone();
        vks.extend(gen::val_keys().iter().take(ADM_IDS - 3).cloned());
        let me_node = &nk[9];
        let me_val = gen::val_keys()[10].clone();
        let mut cfg = gossip_cfg(me_node);
        cfg.gossip.dynamic_inbound_limit = case.dynamic_inbound_limit;
        cfg.gossip.static_inbound = case.static_inbound.iter().map(|i| nk[*i].public()).collect();
        let listener_addrs: Arc<Mutex<BTreeMap<usize, std::net::SocketAddr>>> = Arc::default();
        cfg.gossip.static_outbound = case.static_outbound.iter().map(|i| (nk[*i].public(), net::Host("127.0.0.1:1".into()))).collect();
        // the node itself need not be a committee member to run the validator network handlers; it needs a validator key
        cfg.validator_key = Some(me_val.clone());
        let genesis = setup.genesis.hash();
        let (setup, cfg, nk, vks, listener_addrs, me_val) = (&setup, &cfg, &nk, &vks, &listener_addrs, &me_val);
        let st2 = &mut *st;
        let res: Result<(), String> = scope::run!(ctx, |ctx, s| async move {
            let st = st2;
            let engine = zksync_consensus_engine::testonly::in_memory::Engine::new_random(setup, setup.first_block());
            let (mgr, runner) = zksync_consensus_engine::EngineManager::new(ctx, Box::new(engine), zksync_concurrency::time::Duration::seconds(60))
                .await
                .map_err(|e| format!("INFRA: EngineManager::new: {e:?}"))?;
            s.spawn_bg(async { runner.run(ctx).await.map_err(|e| format!("INFRA: engine runner: {e:#}")) });
            let gossip = Arc::new(hook::gossip::Node::new(cfg.clone(), mgr, Some(setup.epoch)));
            let cons = Arc::new(hook::consensus::Node::new(&gossip).map_err(|e| format!("INFRA: consensus::Node::new: {e:#}"))?.ok_or("INFRA: no validator network")?);
            // model: per direction, identity -> connection number
            let mut model_in: BTreeMap<usize, usize> = BTreeMap::new();
            let mut model_out: BTreeMap<usize, usize> = BTreeMap::new();
            // open connections: (number, inbound?, identity, peer end kept open, handler outcome slot)
            struct Open {
                inbound: bool,
                id: usize,
                peer: Option<NoiseTcp>,
                outcome: Arc<Mutex<Option<Result<(), String>>>>,
            }
            let mut open: Vec<Open> = vec![];
            let pool_ids = |inbound: bool| -> Vec<usize> {
                let mut v: Vec<usize> = if case.consensus {
                    let ks = if inbound { cons.inbound() } else { cons.outbound() };
                    ks.iter().filter_map(|k| vks.iter().position(|x| &x.public() == k)).collect()
                } else {
                    let ks = if inbound { gossip.inbound() } else { gossip.outbound() };
                    ks.iter().filter_map(|k| nk.iter().position(|x| &x.public() == k)).collect()
                };
                v.sort();
                v
            };
            // waits (real time, bounded) until the handler has ended or the identity shows up in the pool
            async fn settle(outcome: &Arc<Mutex<Option<Result<(), String>>>>, admitted: impl Fn() -> bool) -> Result<Started, String> {
                for _ in 0..3000 {
                    if let Some(r) = outcome.lock().unwrap().clone() {
                        return Ok(Started::Ended(r));
                    }
                    if admitted() {
                        // give a refusal that is already on its way the chance to land first
                        tokio::time::sleep(std::time::Duration::from_millis(3)).await;
                        if let Some(r) = outcome.lock().unwrap().clone() {
                            return Ok(Started::Ended(r));
                        }
                        return Ok(Started::Serving);
                    }
                    tokio::time::sleep(std::time::Duration::from_millis(2)).await;
                }
                Err("INFRA: a connection attempt neither ended nor was admitted within 6 s".into())
            }
            for (step, op) in case.ops.iter().enumerate() {
                if std::env::var("VERIF_TRACE").is_ok() {
                    eprintln!("step {step} {op:?} in={:?} out={:?}", pool_ids(true), pool_ids(false));
                }
                match op {
                    AdmOp::In { id } => {
                        let before = pool_ids(true);
                        let (a, b) = noise_pair(ctx).await?;
                        let outcome: Arc<Mutex<Option<Result<(), String>>>> = Arc::default();
                        let (o2, g2, c2) = (outcome.clone(), gossip.clone(), cons.clone());
                        let consensus = case.consensus;
                        s.spawn_bg(async move {
                            let r = if consensus { c2.run_inbound_stream(ctx, b).await } else { g2.run_inbound_stream(ctx, b).await };
                            *o2.lock().unwrap() = Some(r.map_err(|e| format!("{e:#}")));
                            Ok(())
                        });
                        // the peer: an honest handshake as identity `id`
                        let mut a = a;
                        let hs = if case.consensus {
                            hook::consensus::handshake_outbound(ctx, &vks[*id], genesis, &mut a, &me_val.public()).await.map(|_| ())
                        } else {
                            let pcfg = gossip_cfg(&nk[*id]);
                            hook::gossip::handshake_outbound(ctx, &pcfg, genesis, &mut a, &me_node.public()).await.map(|_| ())
                        };
                        let member = !case.consensus || *id < 3;
                        let is_static = case.static_inbound.contains(id);
                        let extras = model_in.keys().filter(|k| !case.consensus && !case.static_inbound.contains(k)).count();
                        let expect_admit = member && !model_in.contains_key(id) && (case.consensus || is_static || extras < case.dynamic_inbound_limit);
                        let started = settle(&outcome, || pool_ids(true).contains(id) && !before.contains(id)).await?;
                        // a duplicate is "admitted()" trivially never (it was there before): it must end
                        match (&started, expect_admit) {
                            (Started::Serving, true) => {
                                model_in.insert(*id, open.len());
                                open.push(Open { inbound: true, id: *id, peer: Some(a), outcome });
                            }
                            (Started::Ended(Err(_)), false) => {
                                st.class(if model_in.contains_key(id) { "duplicate_inbound_refused" } else if !member { "non_member_refused" } else { "over_quota_refused" });
                                drop(a);
                            }
                            (Started::Serving, false) => {
                                return Err(format!("step {step} {op:?}: the connection was admitted; expected a refusal (already connected: {}, member: {member}, static: {is_static}, non-configured peers connected: {extras} of {})", model_in.contains_key(id), case.dynamic_inbound_limit));
                            }
                            (Started::Ended(r), true) => {
                                return Err(format!("step {step} {op:?}: an honest, expected peer was not admitted: handler ended with {r:?} (peer handshake: {hs:?})"));
                            }
                            (Started::Ended(Ok(())), false) => drop(a),
                        }
                    }
                    AdmOp::Out { id, answer_as, stall } => {
                        let before = pool_ids(false);
                        let mut l = hook::TcpListener::bind().await.map_err(|e| format!("INFRA: bind: {e:#}"))?;
                        let addr = l.addr();
                        listener_addrs.lock().unwrap().insert(*id, addr);
                        let outcome: Arc<Mutex<Option<Result<(), String>>>> = Arc::default();
                        let (o2, g2, c2) = (outcome.clone(), gossip.clone(), cons.clone());
                        let consensus = case.consensus;
                        let (peer_node, peer_val) = (nk[*id].public(), vks[*id].public());
                        s.spawn_bg(async move {
                            let r = if consensus { c2.run_outbound_stream(ctx, &peer_val, addr).await } else { g2.run_outbound_stream(ctx, &peer_node, addr).await };
                            *o2.lock().unwrap() = Some(r.map_err(|e| format!("{e:#}")));
                            Ok(())
                        });
                        // the peer: accepts, runs the real preface and an honest inbound handshake as `answer_as`
                        let tcp = match ctx.wait(l.accept(&ctx.with_timeout(zksync_concurrency::time::Duration::seconds(6)))).await {
                            Ok(Ok(t)) => t,
                            _ => return Err("INFRA: the node did not dial within 6 s".into()),
                        };
                        let (mut peer, _is_consensus) = NoiseTcp::preface_accept(ctx, tcp).await.map_err(|e| format!("INFRA: preface: {e:?}"))?;
                        let _hs = if *stall {
                            // the node's own handshake frame has arrived: the node is now waiting for the peer's proof, which
                            // has not been given - the dialled identity must not be listed as connected yet
                            let theirs = tokio::time::timeout(std::time::Duration::from_secs(6), read_frame(&mut peer)).await;
                            if !matches!(theirs, Ok(Some(_))) {
                                return Err("INFRA: the node's handshake frame did not arrive within 6 s".into());
                            }
                            st.class("outbound_pool_observed_before_the_peer_answered");
                            if !before.contains(id) && pool_ids(false).contains(id) {
                                return Err(format!(
                                    "step {step} {op:?}: the node dialled identity {id}; its outbound pool lists {id} as connected although the remote end has not sent its handshake yet (nobody has proved possession of that key)"
                                ));
                            }
                            let frame = if case.consensus {
                                hook::consensus::encode_handshake(vks[*answer_as].sign_msg(node::SessionId(peer.id())), genesis)
                            } else {
                                hook::gossip::encode_handshake(nk[*answer_as].sign_msg(node::SessionId(peer.id())), genesis, false)
                            };
                            write_frame(&mut peer, &frame, None).await;
                            Ok(())
                        } else if case.consensus {
                            hook::consensus::handshake_inbound(ctx, &vks[*answer_as], genesis, &mut peer).await.map(|_| ())
                        } else {
                            let pcfg = gossip_cfg(&nk[*answer_as]);
                            hook::gossip::handshake_inbound(ctx, &pcfg, genesis, &mut peer).await.map(|_| ())
                        };
                        let allowed = if case.consensus { *id < 3 } else { case.static_outbound.contains(id) };
                        let expect_admit = allowed && answer_as == id && !model_out.contains_key(id);
                        let started = settle(&outcome, || pool_ids(false).contains(id) && !before.contains(id)).await?;
                        match (&started, expect_admit) {
                            (Started::Serving, true) => {
                                model_out.insert(*id, open.len());
                                open.push(Open { inbound: false, id: *id, peer: Some(peer), outcome });
                            }
                            (Started::Ended(Err(_)), false) => {
                                st.class(if answer_as != id { "wrong_peer_answered_refused" } else if model_out.contains_key(id) { "duplicate_outbound_refused" } else { "not_allowed_outbound_refused" });
                                drop(peer);
                            }
                            (Started::Serving, false) => {
                                return Err(format!("step {step} {op:?}: the outbound connection was admitted; expected a refusal (dialled {id}, answered by {answer_as}, allowed: {allowed}, already connected: {})", model_out.contains_key(id)));
                            }
                            (Started::Ended(r), true) => return Err(format!("step {step} {op:?}: an honest, expected peer was not admitted: handler ended with {r:?}")),
                            (Started::Ended(Ok(())), false) => drop(peer),
                        }
                    }
                    AdmOp::Close { k } => {
                        let live: Vec<usize> = open.iter().enumerate().filter(|(_, o)| o.peer.is_some()).map(|(i, _)| i).collect();
                        if live.is_empty() {
                            continue;
                        }
                        let i = live[k % live.len()];
                        open[i].peer = None; // drops the peer end: RST
                        let (inbound, id) = (open[i].inbound, open[i].id);
                        let started = settle(&open[i].outcome, || false).await;
                        if !matches!(started, Ok(Started::Ended(_))) {
                            return Err("INFRA: the node did not notice a closed connection within 6 s".into());
                        }
                        if inbound { model_in.remove(&id) } else { model_out.remove(&id) };
                        st.class("closed_then_slot_released");
                    }
                }
                // the pools must hold exactly the admitted, still open connections (one per identity and direction)
                for (inbound, model) in [(true, &model_in), (false, &model_out)] {
                    let want: Vec<usize> = model.keys().copied().collect();
                    let mut got = pool_ids(inbound);
                    if got != want {
                        // the removal of a just-ended handler may still be in flight: re-read once after a short wait
                        tokio::time::sleep(std::time::Duration::from_millis(20)).await;
                        got = pool_ids(inbound);
                    }
                    if got != want {
                        return Err(format!("step {step} {op:?}: the {} pool holds identities {got:?}, the open admitted connections are {want:?}", if inbound { "inbound" } else { "outbound" }));
                    }
                }
            }
            if case.ops.iter().filter(|o| matches!(o, AdmOp::In { .. })).count() >= 2 {
                let ids: Vec<usize> = case.ops.iter().filter_map(|o| if let AdmOp::In { id } = o { Some(*id) } else { None }).collect();
                let dup = ids.iter().enumerate().any(|(i, x)| ids[..i].contains(x));
                if dup {
                    st.nontrivial(common::fingerprint(case));
                }
            }
            drop(open);
            Ok(())
        })
        .await;
        st.sample(|| serde_json::to_value(case).unwrap());
        res
    })
}

pub fn main(env: &Env) -> i32 {
    if let Mode::Replay(path) = env.mode() {
        let (part, case) = Env::read_replay(&path);
        let r = match part.as_str() {
            "pool" => common::replay_case::<PoolCase>(case, check_pool),
            "handshake" | "reflection" => common::replay_case::<HsCase>(case, check_hs),
            "relay" => common::replay_case::<RelayCase>(case, check_relay),
            "admission" => common::replay_case::<AdmCase>(case, check_adm),
            "pool_threads" => common::replay_case::<PoolThreadsCase>(case, check_pool_threads),
            p => Err(format!("unknown part {p}")),
        };
        return env.finish_replay(&path, r);
    }
    let mut parts: Vec<PartReport> = vec![];
    parts.extend(common::run_regress::<PoolCase>(env, "pool", check_pool));
    parts.extend(common::run_regress::<HsCase>(env, "handshake", check_hs));
    parts.push(run_proptest(
        env,
        "handshake",
        "the real gossip and validator-network handshake functions (inbound and outbound) over loopback TCP + real noise against an adversarial counterpart whose frame is built from: signer key, named key, session id {this session, another live session (relay/replay), random, short}, genesis {same, other}, dialled key, optional structured mutation or truncation; \
         oracle = ground truth: the function may return identity K only if K's secret key signed this very session's id under the same genesis (and for outbound K is the dialled key); genuine handshakes must succeed. Non-trivial = the signature verifies under the named key but the connection must still be refused",
        PartOpts { cases: env.tier.pick(8_000, 200_000), max_shrink_iters: 300, samples: 3 },
        || Choices::strategy(60).prop_map(|mut ch| gen_hs(&mut ch)),
        check_hs,
    ));
    parts.push(run_proptest(
        env,
        "reflection",
        "the real outbound handshake functions against a counterpart that holds no key at all and answers with the victim's own signed handshake frame, byte for byte (same session, same genesis, valid signature - made by the victim itself); the victim dialled another key (both networks) or its own key (validator network only: that is what a validator's loopback connection to its public address does; gossip nodes never dial themselves); \
         oracle: the function must not attribute the connection to anybody. Every case is non-trivial",
        PartOpts { cases: env.tier.pick(400, 8_000), max_shrink_iters: 40, samples: 2 },
        || Choices::strategy(8).prop_map(|mut ch| gen_reflect(&mut ch)),
        check_hs,
    ));
    parts.push(run_proptest(
        env,
        "relay",
        "a man in the middle between two honest parties (two live noise sessions) forwards the signed handshake frames verbatim, in one or both directions, for both networks; oracle: neither honest end attributes the connection to anybody",
        PartOpts { cases: env.tier.pick(64, 1_000), max_shrink_iters: 10, samples: 2 },
        || (any::<bool>(), any::<bool>()).prop_map(|(consensus, both_directions)| RelayCase { consensus, both_directions }),
        check_relay,
    ));
    parts.extend(common::run_regress::<AdmCase>(env, "admission", check_adm));
    parts.extend(common::run_regress::<PoolThreadsCase>(env, "pool_threads", check_pool_threads));
    {
        let mut seq = env.clone_for_part();
        seq.shards = 2;
        parts.push(run_proptest(
            &seq,
            "pool_threads",
            "the real PoolWatch on a multi-thread runtime (2-8 workers): 2-8 tasks released together insert keys drawn from 4 (so that keys repeat) into a fresh pool with 0-2 allowed keys and a quota of 0-2, 200 repetitions per case; \
             oracle valid under every interleaving: at most one insert per key is admitted (exactly one for an allowed key), the keys admitted outside the allowed set number exactly min(quota, distinct such keys), the pool holds exactly the admitted keys. Non-trivial = some key is inserted by two tasks",
            PartOpts { cases: env.tier.pick(150, 3_000), max_shrink_iters: 40, samples: 2 },
            || Choices::strategy(20).prop_map(|mut ch| gen_pool_threads(&mut ch)),
            check_pool_threads,
        ));
    }
    parts.push(run_proptest(
        env,
        "admission",
        "the real per-connection handlers of a node (gossip / validator network run_inbound_stream and run_outbound_stream: preface, handshake, pool admission, service loop, release) over loopback TCP: 2-8 operations {identity i connects and proves i; the node dials i and a peer proving j answers; a peer closes}, gossip with generated static inbound / outbound sets and a quota of 0-2 non-configured peers, validator network with a 3-member committee and 2 outsiders; \
         oracle after every operation: the handler serves iff the model admits (member, dialled = proven, not yet connected in that direction, quota), a refused attempt ends with an error, and each pool holds exactly the admitted connections that are still open (a refused duplicate must not release or replace the slot of the live one). Non-trivial = the same identity connects twice",
        PartOpts { cases: env.tier.pick(2_000, 40_000), max_shrink_iters: 200, samples: 2 },
        || Choices::strategy(60).prop_map(|mut ch| gen_adm(&mut ch)),
        check_adm,
    ));
    parts.push(run_proptest(
        env,
        "pool",
        "the real PoolWatch: allowed set of 0-3 keys, quota 0-3, 1-10 rounds of 1-5 concurrently issued insert/remove operations on 8 keys; oracle: set model (one entry per key, extras <= quota, results and content equal the model, no quota leak after churn). Non-trivial = an insert refused at the quota boundary after a removal",
        PartOpts { cases: env.tier.pick(40_000, 1_000_000), max_shrink_iters: 2000, samples: 2 },
        || Choices::strategy(150).prop_map(|mut ch| gen_pool(&mut ch)),
        check_pool,
    ));
    env.finish(
        "exploration",
        "generated adversarial handshake frames against construction ground truth, real relays, and a set model of the pool; the accept loop of a listening node (as opposed to the handshake functions and the pool it calls) is not driven as a whole",
        &["ed25519 / BLS unforgeability: the adversary can only sign with keys it holds", "loopback TCP: waits are bounded by the handshake's own 5 s timeout"],
        parts,
    )
}
