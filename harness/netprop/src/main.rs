fn main() {
    netprop::engine_main()
}
