//! Checks over the network crate (through its `verif` hook): C10, C12, C13, C14, C18, C19 and the
//! network halves of C09 / C15.
mod c10;
mod c12;
mod c13;
mod c14;
mod c15;
mod c18;
mod c19;
pub mod netvalues;
pub mod pipe;

fn main() {
    let env = common::Env::from_args();
    let code = match env.property.as_str() {
        "C10" => c10::main(&env),
        "C12" => c12::main(&env),
        "C13" => c13::main(&env),
        "C14" => c14::main(&env),
        "C15" => c15::main(&env),
        "C18" => c18::main(&env),
        "C19" => c19::main(&env),
        p => {
            eprintln!("netprop: unknown property {p}");
            2
        }
    };
    std::process::exit(code);
}
