//! C19 Block fetch requests are never lost and go only to peers that have the block.
//! Part (a): the real `fetch::Queue` driven step by step on the deterministic runtime.
use std::{
    collections::{BTreeMap, BTreeSet},
    sync::{Arc, Mutex},
};

use common::{det, run_proptest, Choices, Env, Mode, PartOpts, PartReport, Stats};
use proptest::prelude::*;
use serde::{Deserialize, Serialize};
use zksync_concurrency::{ctx, scope, sync};
use zksync_consensus_engine::{BlockStoreState, Last};
use zksync_consensus_network::verif::gossip::{Accepted, FetchQueue};
use zksync_consensus_roles::validator::BlockNumber;

#[derive(Debug, Clone, Serialize, Deserialize, Hash, PartialEq)]
pub enum Op {
    /// A requester starts waiting for block `n` (numbers are distinct per case).
    Request(u64),
    /// The requester of block `n` gives up.
    Cancel(u64),
    /// Peer `p` announces that it stores blocks `first..=last` (None = nothing).
    Announce(usize, u64, Option<u64>),
    /// Peer `p` starts an accept call (if it is not already in one and holds nothing).
    Accept(usize),
    /// Peer `p` reports success for the request it holds.
    Complete(usize),
    /// Peer `p` drops the request it holds (failure / timeout).
    Fail(usize),
    /// Peer `p` disconnects: its accept call is cancelled and a held request is dropped.
    Disconnect(usize),
}

#[derive(Debug, Clone, Serialize, Deserialize, Hash)]
pub struct Case {
    peers: usize,
    ops: Vec<Op>,
}

pub fn gen_case(ch: &mut Choices) -> Case {
    let peers = 1 + ch.below(4);
    let n = 2 + ch.below(40);
    let mut next_block = ch.range(0, 3);
    let mut requested = vec![];
    let mut ops = vec![];
    for _ in 0..n {
        let p = ch.below(peers);
        ops.push(match ch.below(12) {
            0 | 1 | 2 => {
                // mostly increasing numbers, sometimes a lower (never requested) one
                let b = next_block;
                next_block += 1 + ch.below(2) as u64;
                requested.push(b);
                Op::Request(b)
            }
            3 if !requested.is_empty() => Op::Cancel(ch.pick(&requested)),
            4 | 5 => {
                let first = ch.range(0, 4);
                let last = ch.chance(5, 6).then(|| first + ch.range(0, 8));
                Op::Announce(p, first, last)
            }
            6 | 7 | 8 => Op::Accept(p),
            9 => Op::Complete(p),
            10 => Op::Fail(p),
            _ => Op::Disconnect(p),
        });
    }
    Case { peers, ops }
}

fn state(first: u64, last: Option<u64>) -> BlockStoreState {
    BlockStoreState { first: BlockNumber(first), last: last.map(|l| Last::PreGenesis(BlockNumber(l))) }
}

/// Runs `work` inside its own scope so that the harness can cancel exactly this call.
struct Cancellable {
    cancel: Arc<tokio::sync::Notify>,
    task: tokio::task::JoinHandle<()>,
}

fn cancellable<F, Fut>(ctx: ctx::Ctx, work: F) -> Cancellable
where
    F: 'static + Send + FnOnce(&ctx::Ctx) -> Fut,
    Fut: Send + std::future::Future<Output = ()>,
{
    let cancel = Arc::new(tokio::sync::Notify::new());
    let c2 = cancel.clone();
    let task = tokio::spawn(async move {
        let done = Arc::new(tokio::sync::Notify::new());
        let d2 = done.clone();
        let _: Result<(), ctx::Canceled> = scope::run!(&ctx, |ctx, s| async {
            s.spawn_bg(async {
                // SAFETY of lifetimes: `work` only borrows `ctx` for the duration of the future
                work(ctx).await;
                d2.notify_one();
                Ok(())
            });
            tokio::select! {
                _ = c2.notified() => {},
                _ = done.notified() => {},
            }
            Ok(())
        })
        .await;
    });
    Cancellable { cancel, task }
}

#[derive(Default)]
struct Shared {
    /// block -> outcome of Queue::request once it returned.
    request_result: BTreeMap<u64, Result<(), ()>>,
    /// peer -> request handed to it by accept_block (taken by the driver).
    accepted: BTreeMap<usize, Accepted>,
    /// peers whose accept call returned Canceled.
    accept_cancelled: BTreeSet<usize>,
}

pub fn check(case: &Case, st: &mut Stats) -> Result<(), String> {
    det::run(|| async {
        let life = det::Life::new();
        let q = Arc::new(FetchQueue::default());
        let sh = Arc::new(Mutex::new(Shared::default()));
        // model
        let mut outstanding: BTreeSet<u64> = BTreeSet::new(); // requested, not completed, not cancelled
        let mut ever: BTreeSet<u64> = BTreeSet::new();
        let mut completed: BTreeSet<u64> = BTreeSet::new();
        let mut cancelled: BTreeSet<u64> = BTreeSet::new();
        let mut held: BTreeMap<usize, u64> = BTreeMap::new(); // peer -> block
        let mut held_handles: BTreeMap<usize, Accepted> = BTreeMap::new();
        let mut in_accept: BTreeSet<usize> = BTreeSet::new();
        let mut announced: Vec<(u64, Option<u64>)> = vec![(0, None); case.peers];
        let senders: Vec<sync::watch::Sender<BlockStoreState>> = (0..case.peers).map(|_| sync::watch::channel(state(0, None)).0).collect();
        let mut req_tasks: BTreeMap<u64, Cancellable> = BTreeMap::new();
        let mut acc_tasks: BTreeMap<usize, Cancellable> = BTreeMap::new();
        let mut all_tasks: Vec<tokio::task::JoinHandle<()>> = vec![];
        let contains = |a: &(u64, Option<u64>), n: u64| a.1.is_some_and(|l| a.0 <= n && n <= l);
        let (mut redelivered, mut cancelled_min_while_waiting) = (false, false);
        let mut failed_blocks: BTreeSet<u64> = BTreeSet::new();

        let res: Result<(), String> = async {
            for (i, op) in case.ops.iter().enumerate() {
                let queued_before: Vec<u64> = q.current_blocks();
                match op {
                    Op::Request(n) => {
                        if ever.insert(*n) {
                            outstanding.insert(*n);
                            let (q, sh, n) = (q.clone(), sh.clone(), *n);
                            req_tasks.insert(
                                n,
                                cancellable(life.child(), move |ctx| {
                                    let ctx: &'static ctx::Ctx = unsafe { std::mem::transmute(ctx) };
                                    async move {
                                        let r = q.request(ctx, BlockNumber(n)).await;
                                        sh.lock().unwrap().request_result.insert(n, r.map_err(|_| ()));
                                    }
                                }),
                            );
                        }
                    }
                    Op::Cancel(n) => {
                        if outstanding.contains(n) && !held.values().any(|b| b == n) || outstanding.contains(n) {
                            if let Some(t) = req_tasks.get(n) {
                                if queued_before.first() == Some(n) && !in_accept.is_empty() {
                                    cancelled_min_while_waiting = true;
                                }
                                t.cancel.notify_one();
                                outstanding.remove(n);
                                cancelled.insert(*n);
                            }
                        }
                    }
                    Op::Announce(p, first, last) => {
                        announced[*p] = (*first, *last);
                        senders[*p].send_replace(state(*first, *last));
                    }
                    Op::Accept(p) => {
                        if !in_accept.contains(p) && !held.contains_key(p) {
                            in_accept.insert(*p);
                            sh.lock().unwrap().accept_cancelled.remove(p);
                            let (q, sh, p2) = (q.clone(), sh.clone(), *p);
                            let mut recv = senders[*p].subscribe();
                            acc_tasks.insert(
                                *p,
                                cancellable(life.child(), move |ctx| {
                                    let ctx: &'static ctx::Ctx = unsafe { std::mem::transmute(ctx) };
                                    async move {
                                        match q.accept_block(ctx, &mut recv).await {
                                            Ok(a) => {
                                                sh.lock().unwrap().accepted.insert(p2, a);
                                            }
                                            Err(_) => {
                                                sh.lock().unwrap().accept_cancelled.insert(p2);
                                            }
                                        }
                                    }
                                }),
                            );
                        }
                    }
                    Op::Complete(p) => {
                        if let Some(h) = held_handles.remove(p) {
                            let n = held.remove(p).unwrap();
                            h.complete();
                            if outstanding.remove(&n) {
                                completed.insert(n);
                            }
                        }
                    }
                    Op::Fail(p) => {
                        if let Some(h) = held_handles.remove(p) {
                            let n = held.remove(p).unwrap();
                            failed_blocks.insert(n);
                            drop(h);
                        }
                    }
                    Op::Disconnect(p) => {
                        if let Some(t) = acc_tasks.get(p) {
                            t.cancel.notify_one();
                        }
                        if let Some(h) = held_handles.remove(p) {
                            let n = held.remove(p).unwrap();
                            failed_blocks.insert(n);
                            drop(h);
                        }
                    }
                }
                det::barrier().await;
                // collect what happened
                let mut g = sh.lock().unwrap();
                let newly: Vec<usize> = g.accepted.keys().copied().collect();
                for p in newly {
                    let a = g.accepted.remove(&p).unwrap();
                    let n = a.0 .0;
                    in_accept.remove(&p);
                    // accepted only what this peer announced, only an outstanding request, never one that is held elsewhere
                    if !contains(&announced[p], n) {
                        return Err(format!("step {i} {op:?}: peer {p} was handed block {n} although it announced {:?}", announced[p]));
                    }
                    if held.values().any(|b| *b == n) {
                        return Err(format!("step {i} {op:?}: block {n} was handed to peer {p} while another peer still holds it"));
                    }
                    if !outstanding.contains(&n) && !cancelled.contains(&n) {
                        return Err(format!("step {i} {op:?}: peer {p} was handed block {n}, which nobody is waiting for"));
                    }
                    // lowest missing block first: nothing lower may be waiting in the queue
                    if let Some(lower) = q.current_blocks().into_iter().find(|b| *b < n && !held.values().any(|h| h == b)) {
                        if contains(&announced[p], lower) {
                            return Err(format!("step {i} {op:?}: peer {p} was handed block {n} although the lower block {lower}, which it also stores, is still waiting"));
                        }
                    }
                    if failed_blocks.contains(&n) {
                        redelivered = true;
                    }
                    if cancelled.contains(&n) && !outstanding.contains(&n) {
                        // the requester gave up concurrently; the handle is simply dropped
                        drop(a);
                    } else {
                        held.insert(p, n);
                        held_handles.insert(p, a);
                    }
                }
                for p in g.accept_cancelled.clone() {
                    in_accept.remove(&p);
                }
                for (n, r) in &g.request_result {
                    match r {
                        Ok(()) if !completed.contains(n) => return Err(format!("step {i} {op:?}: request for block {n} returned Ok although no peer reported success")),
                        Err(()) if !cancelled.contains(n) => return Err(format!("step {i} {op:?}: request for block {n} returned Canceled although the requester did not give up")),
                        _ => {}
                    }
                }
                for n in completed.iter().chain(cancelled.iter()) {
                    if !g.request_result.contains_key(n) {
                        return Err(format!("step {i} {op:?}: request for block {n} did not return after {}", if completed.contains(n) { "success" } else { "cancellation" }));
                    }
                }
                drop(g);
                // every outstanding request is either queued or held by exactly one peer
                let queued: BTreeSet<u64> = q.current_blocks().into_iter().collect();
                for n in &outstanding {
                    let holders = held.values().filter(|b| *b == n).count();
                    let in_queue = queued.contains(n);
                    if holders + in_queue as usize != 1 {
                        return Err(format!(
                            "step {i} {op:?}: block {n} is requested but is in the queue {} times and held by {holders} peers (queue {queued:?}, held {held:?})",
                            in_queue as usize
                        ));
                    }
                }
                for n in &queued {
                    if !outstanding.contains(n) {
                        return Err(format!("step {i} {op:?}: block {n} is in the queue although nobody waits for it (completed or cancelled)"));
                    }
                }
                // no lost wake-up: no peer sits in accept while it stores the lowest waiting block
                if let Some(min) = queued.iter().next() {
                    for p in &in_accept {
                        if contains(&announced[*p], *min) {
                            return Err(format!(
                                "step {i} {op:?}: lost wake-up: peer {p} waits in accept_block, announces {:?}, and the lowest requested block {min} is waiting in the queue {queued:?}",
                                announced[*p]
                            ));
                        }
                    }
                }
            }
            Ok(())
        }
        .await;
        if redelivered {
            st.class("dropped_request_accepted_again");
        }
        if cancelled_min_while_waiting {
            st.class("cancelled_lowest_while_a_peer_waits");
        }
        if redelivered || cancelled_min_while_waiting {
            st.nontrivial(common::fingerprint(case));
        }
        st.max("max_ops", case.ops.len() as u64);
        st.count("completed_requests", completed.len() as u64);
        st.sample(|| serde_json::to_value(case).unwrap());
        // cleanup: cancel everything and join
        held_handles.clear();
        for (_, t) in req_tasks {
            t.cancel.notify_one();
            all_tasks.push(t.task);
        }
        for (_, t) in acc_tasks {
            t.cancel.notify_one();
            all_tasks.push(t.task);
        }
        life.end(all_tasks).await;
        res
    })
}

// ---------------------------------------------------------------------------------------------
// Part (a'): the same queue under real thread parallelism

#[derive(Debug, Clone, Serialize, Deserialize, Hash)]
pub struct QueueThreadsCase {
    /// Blocks 0..blocks are requested, each by its own task.
    blocks: u64,
    /// Per peer: the range it announces (first, last), all within 0..blocks; the union covers every block.
    peers: Vec<(u64, u64)>,
    /// Every k-th hand-over fails (the handle is dropped) instead of completing; 0 = never.
    fail_every: u8,
    workers: u8,
    reps: u16,
}

pub fn gen_queue_threads(ch: &mut Choices) -> QueueThreadsCase {
    let blocks = 2 + ch.below(11) as u64;
    let n = 2 + ch.below(3);
    let mut peers: Vec<(u64, u64)> = (0..n)
        .map(|_| {
            let a = ch.below(blocks as usize) as u64;
            let b = ch.below(blocks as usize) as u64;
            (a.min(b), a.max(b))
        })
        .collect();
    // somebody has everything, so that every request can be served
    let k = ch.below(n);
    peers[k] = (0, blocks - 1);
    QueueThreadsCase { blocks, peers, fail_every: ch.pick(&[0u8, 2, 3, 5]), workers: ch.pick(&[2u8, 4, 8]), reps: 40 }
}

/// Oracle valid under every interleaving: a block is never held by two peers at once, it is handed only to a peer that announces
/// it, and `request()` returns Ok only after some peer completed that very block. (A run that does not finish within a minute is
/// reported as inconclusive, not as a violation.)
pub fn check_queue_threads(case: &QueueThreadsCase, st: &mut Stats) -> Result<(), String> {
    use std::sync::atomic::{AtomicBool, AtomicU32, AtomicU64, Ordering};
    let rt = tokio::runtime::Builder::new_multi_thread().worker_threads(case.workers.clamp(2, 16) as usize).enable_all().build().map_err(|e| format!("INFRA: runtime: {e}"))?;
    let mut verdict: Result<(), String> = Ok(());
    for rep in 0..case.reps.max(1) {
        let n = case.blocks as usize;
        let q = Arc::new(FetchQueue::default());
        let holders: Arc<Vec<AtomicU32>> = Arc::new((0..n).map(|_| AtomicU32::new(0)).collect());
        let completed: Arc<Vec<AtomicBool>> = Arc::new((0..n).map(|_| AtomicBool::new(false)).collect());
        let violation: Arc<Mutex<Option<String>>> = Arc::default();
        let handovers = Arc::new(AtomicU64::new(0));
        let r: Result<(), String> = rt.block_on(async {
            // the scope is never dropped unfinished: a run that takes too long is cancelled through its context
            let ctx = &ctx::root().with_timeout(zksync_concurrency::time::Duration::seconds(60));
            let (q, holders, completed, violation, handovers) = (&q, &holders, &completed, &violation, &handovers);
            let unserved = &AtomicU32::new(0);
            let _ = scope::run!(ctx, |ctx, s| async move {
                for (p, (first, last)) in case.peers.iter().copied().enumerate() {
                    s.spawn_bg(async move {
                        let (_send, mut recv) = sync::watch::channel(state(first, Some(last)));
                        loop {
                            let Ok(a) = q.accept_block(ctx, &mut recv).await else { return Ok(()) };
                            let b = a.0 .0 as usize;
                            if b >= n || (b as u64) < first || (b as u64) > last {
                                *violation.lock().unwrap() = Some(format!("peer {p} announcing {first}..={last} was handed block {b}"));
                            } else if holders[b].fetch_add(1, Ordering::SeqCst) != 0 {
                                *violation.lock().unwrap() = Some(format!("block {b} is held by two peers at once"));
                            }
                            tokio::task::yield_now().await;
                            let k = handovers.fetch_add(1, Ordering::SeqCst) + 1;
                            if b < n {
                                holders[b].fetch_sub(1, Ordering::SeqCst);
                            }
                            if case.fail_every != 0 && k % case.fail_every as u64 == 0 {
                                drop(a); // failure: the request must become available again
                            } else {
                                if b < n {
                                    completed[b].store(true, Ordering::SeqCst);
                                }
                                a.complete();
                            }
                        }
                    });
                }
                let mut reqs = vec![];
                for b in 0..n {
                    reqs.push(s.spawn(async move {
                        match q.request(ctx, BlockNumber(b as u64)).await {
                            Ok(()) if !completed[b].load(Ordering::SeqCst) => {
                                *violation.lock().unwrap() = Some(format!("request({b}) returned Ok although no peer has completed block {b}"));
                            }
                            Ok(()) => {}
                            Err(_) => {
                                unserved.fetch_add(1, Ordering::SeqCst);
                            }
                        }
                        Ok::<(), ctx::Canceled>(())
                    }));
                }
                for r in reqs {
                    let _ = r.join(ctx).await;
                }
                Ok::<(), ctx::Canceled>(())
            })
            .await;
            if unserved.load(Ordering::SeqCst) > 0 {
                Err("INFRA: the requests were not all served within 60 s".to_string())
            } else {
                Ok(())
            }
        });
        if let Some(v) = violation.lock().unwrap().take() {
            verdict = Err(format!("repetition {rep}: {v}"));
            break;
        }
        if let Err(e) = r {
            verdict = Err(e);
            break;
        }
    }
    rt.shutdown_timeout(std::time::Duration::from_secs(5));
    if case.fail_every != 0 {
        st.class("some_handovers_fail");
    }
    st.nontrivial(common::fingerprint(case));
    st.sample(|| serde_json::to_value(case).unwrap());
    verdict
}

// ---------------------------------------------------------------------------------------------
// Part (b): a real node (gossip state + block fetcher + per-connection handlers) fetching from real peer nodes whose
// storage layer lies about some blocks

#[derive(Debug, Clone, Serialize, Deserialize, Hash)]
pub struct NodeCase {
    /// Number of blocks the peers store (the node starts empty).
    blocks: usize,
    /// What the first peer answers for some block numbers (index from the first block):
    /// 0 = the certified block with another payload, 1 = a valid block of another number, 2 = storage error.
    lies: Vec<(usize, u8)>,
}

pub fn gen_node(ch: &mut Choices) -> NodeCase {
    let blocks = 2 + ch.below(5);
    let n = ch.below(3);
    NodeCase { blocks, lies: (0..n).map(|_| (ch.below(blocks), ch.below(3) as u8)).collect() }
}

/// Storage layer of a peer: an honest in-memory engine whose `get_block` lies as instructed.
#[derive(Debug)]
struct LyingEngine {
    inner: zksync_consensus_engine::testonly::in_memory::Engine,
    first: u64,
    lies: Vec<(usize, u8)>,
    served: Arc<Mutex<Vec<u64>>>,
}

#[async_trait::async_trait]
impl zksync_consensus_engine::EngineInterface for LyingEngine {
    async fn genesis(&self, ctx: &ctx::Ctx) -> ctx::Result<zksync_consensus_roles::validator::Genesis> {
        self.inner.genesis(ctx).await
    }
    async fn get_validator_schedule(&self, ctx: &ctx::Ctx, number: BlockNumber) -> ctx::Result<(zksync_consensus_roles::validator::Schedule, BlockNumber)> {
        self.inner.get_validator_schedule(ctx, number).await
    }
    async fn get_pending_validator_schedule(&self, ctx: &ctx::Ctx, number: BlockNumber) -> ctx::Result<Option<(zksync_consensus_roles::validator::Schedule, BlockNumber)>> {
        self.inner.get_pending_validator_schedule(ctx, number).await
    }
    fn persisted(&self) -> sync::watch::Receiver<BlockStoreState> {
        self.inner.persisted()
    }
    async fn get_block(&self, ctx: &ctx::Ctx, number: BlockNumber) -> ctx::Result<zksync_consensus_roles::validator::Block> {
        use zksync_consensus_roles::validator::{v2, Block, Payload};
        self.served.lock().unwrap().push(number.0);
        let honest = self.inner.get_block(ctx, number).await?;
        let idx = (number.0 - self.first) as usize;
        match self.lies.iter().find(|(i, _)| *i == idx).map(|(_, k)| *k) {
            None => Ok(honest),
            Some(0) => match honest {
                Block::FinalV2(b) => Ok(Block::FinalV2(v2::FinalBlock { payload: Payload(vec![0xBA, 0xD0, idx as u8]), justification: b.justification })),
                other => Ok(other),
            },
            Some(1) => {
                // another genuine block: the neighbour
                let other = if idx == 0 { number.next() } else { BlockNumber(number.0 - 1) };
                self.inner.get_block(ctx, other).await
            }
            Some(_) => Err(anyhow::format_err!("storage error").into()),
        }
    }
    async fn queue_next_block(&self, ctx: &ctx::Ctx, block: zksync_consensus_roles::validator::Block) -> ctx::Result<()> {
        self.inner.queue_next_block(ctx, block).await
    }
    async fn verify_pregenesis_block(&self, ctx: &ctx::Ctx, block: &zksync_consensus_roles::validator::PreGenesisBlock) -> ctx::Result<()> {
        self.inner.verify_pregenesis_block(ctx, block).await
    }
    async fn verify_payload(&self, ctx: &ctx::Ctx, number: BlockNumber, payload: &zksync_consensus_roles::validator::Payload) -> ctx::Result<()> {
        self.inner.verify_payload(ctx, number, payload).await
    }
    async fn propose_payload(&self, ctx: &ctx::Ctx, number: BlockNumber) -> ctx::Result<zksync_consensus_roles::validator::Payload> {
        self.inner.propose_payload(ctx, number).await
    }
    async fn get_state(&self, ctx: &ctx::Ctx) -> ctx::Result<zksync_consensus_roles::validator::ReplicaState> {
        self.inner.get_state(ctx).await
    }
    async fn set_state(&self, ctx: &ctx::Ctx, state: &zksync_consensus_roles::validator::ReplicaState) -> ctx::Result<()> {
        self.inner.set_state(ctx, state).await
    }
    async fn push_tx(&self, ctx: &ctx::Ctx, tx: zksync_consensus_engine::Transaction) -> ctx::Result<bool> {
        self.inner.push_tx(ctx, tx).await
    }
}

pub fn check_node(case: &NodeCase, st: &mut Stats) -> Result<(), String> {
    use rand::SeedableRng as _;
    use zksync_consensus_engine::{testonly::in_memory, EngineManager};
    use zksync_consensus_network::verif::{self as hook, gossip::Node, NoiseTcp};
    use zksync_consensus_roles::validator;
    type Slot = Arc<Mutex<Option<Result<(), String>>>>;
    let rt = tokio::runtime::Builder::new_current_thread().enable_all().build().unwrap();
    rt.block_on(async {
        let ctx = &ctx::root();
        let rng = &mut rand::rngs::StdRng::seed_from_u64(11);
        let mut setup = validator::testonly::Setup::new_without_pregenesis(rng, 1);
        setup.push_blocks_v2(rng, case.blocks);
        let setup = &setup;
        let first = setup.first_block();
        let nk = gen::node_keys();
        let st2 = &mut *st;
        let res: Result<(), String> = scope::run!(ctx, |ctx, s| async move {
            let st = st2;
            // the node under test: empty store, fetcher running
            let eng_a = in_memory::Engine::new_random(setup, first);
            let (mgr_a, run_a) = EngineManager::new(ctx, Box::new(eng_a), zksync_concurrency::time::Duration::seconds(60)).await.map_err(|e| format!("INFRA: EngineManager::new: {e:?}"))?;
            s.spawn_bg(async { run_a.run(ctx).await.map_err(|e| format!("INFRA: engine runner: {e:#}")) });
            let mut cfg_a = crate::c12::gossip_cfg(&nk[9]);
            cfg_a.rpc.get_block_timeout = None;
            cfg_a.rpc.get_block_rate = zksync_concurrency::limiter::Rate::INF;
            cfg_a.rpc.push_block_store_state_rate = zksync_concurrency::limiter::Rate::INF;
            let a = Arc::new(Node::new(cfg_a, mgr_a.clone(), Some(setup.epoch)));
            {
                let a = a.clone();
                s.spawn_bg(async move {
                    a.run_block_fetcher(ctx).await;
                    Ok(())
                });
            }
            let last = first.0 + case.blocks as u64; // exclusive
            // a peer node storing all the blocks, connected to the node under test; returns the outcome slots of both handlers
            let served_by_liar: Arc<Mutex<Vec<u64>>> = Arc::default();
            let mut connect = |key: usize, lies: Vec<(usize, u8)>, served: Arc<Mutex<Vec<u64>>>| {
                let a = a.clone();
                async move {
                    // the blocks go straight into the peer's storage (not through its block store, whose cache would answer
                    // get_block without ever consulting the storage layer)
                    let inner = in_memory::Engine::new_random(setup, first);
                    for b in &setup.blocks {
                        use zksync_consensus_engine::EngineInterface as _;
                        inner.queue_next_block(ctx, b.clone()).await.map_err(|e| format!("INFRA: peer storage: {e:?}"))?;
                    }
                    let eng = LyingEngine { inner, first: first.0, lies, served };
                    let (mgr, run) = EngineManager::new(ctx, Box::new(eng), zksync_concurrency::time::Duration::seconds(60)).await.map_err(|e| format!("INFRA: EngineManager::new: {e:?}"))?;
                    s.spawn_bg(async { run.run(ctx).await.map_err(|e| format!("INFRA: engine runner: {e:#}")) });
                    if mgr.persisted().next().0 < last {
                        return Err(format!("INFRA: the peer's store holds {:?}, expected blocks up to {last}", mgr.persisted()));
                    }
                    let mut l = hook::TcpListener::bind().await.map_err(|e| format!("INFRA: bind: {e:#}"))?;
                    let mut cfg = crate::c12::gossip_cfg(&nk[key]);
                    cfg.rpc.get_block_rate = zksync_concurrency::limiter::Rate::INF;
                    cfg.rpc.push_block_store_state_rate = zksync_concurrency::limiter::Rate::INF;
                    cfg.gossip.static_outbound = [(nk[9].public(), zksync_concurrency::net::Host(l.addr().to_string()))].into_iter().collect();
                    let peer = Arc::new(Node::new(cfg, mgr, Some(setup.epoch)));
                    let (peer_slot, node_slot): (Slot, Slot) = (Arc::default(), Arc::default());
                    let (p2, ps, addr, akey) = (peer.clone(), peer_slot.clone(), l.addr(), nk[9].public());
                    s.spawn_bg(async move {
                        let r = p2.run_outbound_stream(ctx, &akey, addr).await;
                        *ps.lock().unwrap() = Some(r.map_err(|e| format!("{e:#}")));
                        Ok(())
                    });
                    let tcp = l.accept(ctx).await.map_err(|e| format!("INFRA: accept: {e:?}"))?;
                    let (stream, _) = NoiseTcp::preface_accept(ctx, tcp).await.map_err(|e| format!("INFRA: preface: {e:?}"))?;
                    let ns = node_slot.clone();
                    s.spawn_bg(async move {
                        let r = a.run_inbound_stream(ctx, stream).await;
                        *ns.lock().unwrap() = Some(r.map_err(|e| format!("{e:#}")));
                        Ok(())
                    });
                    Ok::<_, String>((peer_slot, node_slot))
                }
            };
            // waits (bounded, real time: sockets are involved) until `done()`
            async fn until(mut done: impl FnMut() -> bool, what: &str) -> Result<(), String> {
                for _ in 0..5000 {
                    if done() {
                        return Ok(());
                    }
                    tokio::time::sleep(std::time::Duration::from_millis(2)).await;
                }
                Err(format!("INFRA: {what} did not happen within 10 s"))
            }
            let lying = case.lies.iter().any(|(i, _)| *i < case.blocks);
            let (_liar_slot, node_slot) = connect(0, case.lies.clone(), served_by_liar.clone()).await?;
            if lying {
                // the node must drop the lying peer
                until(|| node_slot.lock().unwrap().is_some(), "dropping a peer that answered get_block with a bad block").await?;
                // every local consequence of the disconnect has been processed after a few scheduler rounds (no I/O involved)
                for _ in 0..200 {
                    tokio::task::yield_now().await;
                }
                let next = mgr_a.queued().next().0;
                let waiting = a.requested_blocks();
                let missing: Vec<u64> = (next..last).filter(|n| !waiting.contains(n)).collect();
                st.class("peer_dropped_after_bad_block");
                if !missing.is_empty() {
                    return Err(format!(
                        "after the only peer was dropped for a bad answer, the node stores blocks up to {} (exclusive), no peer is connected, and blocks {missing:?} are neither stored nor waiting in the fetch queue (waiting: {waiting:?}): nobody will ever be asked for them again",
                        next
                    ));
                }
                if next > first.0 {
                    st.class("some_blocks_fetched_before_the_lie");
                }
                st.nontrivial(common::fingerprint(case));
                // an honest peer arrives: everything must be fetched from it
                let (_p, _n) = connect(1, vec![], Arc::default()).await?;
            }
            until(|| mgr_a.queued().next().0 >= last, "fetching every announced block from an honest peer").await?;
            for b in &setup.blocks {
                let got = mgr_a.get_block(ctx, b.number()).await.map_err(|e| format!("INFRA: get_block: {e:?}"))?;
                if got.as_ref() != Some(b) {
                    return Err(format!("block {} stored by the node differs from the certified block", b.number().0));
                }
            }
            st.sample(|| serde_json::json!({"case": case, "served_by_first_peer": served_by_liar.lock().unwrap().clone()}));
            Ok(())
        })
        .await;
        res
    })
}


// ---------------------------------------------------------------------------------------------
// Part (c): a real node and SCRIPTED peers. The harness speaks the gossip protocol itself (real preface, noise and
// handshake, a real multiplexer carrying hand-made RPC frames), so it decides when a peer announces which range,
// sees the node's acknowledgement of every announcement, and sees every get_block request the moment it arrives.

#[derive(Debug, Clone, Serialize, Deserialize, Hash)]
pub struct PeerCase {
    /// Certified blocks that exist.
    blocks: usize,
    /// The node's `max_block_queue_size`: how many blocks it asks for at once.
    queue: usize,
    /// The first peer's second announcement starts `prune_to` blocks later (its head is unchanged: it pruned).
    prune_to: usize,
    /// The first peer answers the requests it is holding in reverse order.
    reverse: bool,
}

pub fn gen_peer(ch: &mut Choices) -> PeerCase {
    let blocks = 3 + ch.below(6);
    let queue = 1 + ch.below(3).min(blocks - 2);
    // mostly beyond what the node has already asked for, so that a block of the pruned part is needed after the pruning
    let prune_to = if ch.chance(4, 5) { (queue + 1 + ch.below(blocks)).min(blocks - 1) } else { 1 + ch.below(blocks - 1) };
    PeerCase { blocks, queue, prune_to, reverse: ch.bool() }
}

pub(crate) fn pb_varint(out: &mut Vec<u8>, mut x: u64) {
    loop {
        let b = (x & 0x7f) as u8;
        x >>= 7;
        if x == 0 {
            out.push(b);
            return;
        }
        out.push(b | 0x80);
    }
}
pub(crate) fn pb_len(field: u64, body: &[u8]) -> Vec<u8> {
    let mut out = vec![];
    pb_varint(&mut out, field << 3 | 2);
    pb_varint(&mut out, body.len() as u64);
    out.extend_from_slice(body);
    out
}
pub(crate) fn rpc_frame(body: &[u8]) -> Vec<u8> {
    let mut v = (body.len() as u32).to_le_bytes().to_vec();
    v.extend_from_slice(body);
    v
}

/// What a scripted peer has seen: (block number, number of announcements acknowledged when the request arrived).
type Inbox = Arc<Mutex<Vec<(u64, usize)>>>;

struct Scripted {
    push: zksync_consensus_network::verif::MuxQueue,
    inbox: Inbox,
    acked: Arc<Mutex<usize>>,
    /// Requests held back (not yet answered), with their sub-streams.
    held: Arc<Mutex<Vec<(u64, zksync_consensus_network::verif::MuxStream)>>>,
}

impl Scripted {
    /// Announces `first..=last` and waits for the node's acknowledgement (the RPC response).
    async fn announce(&self, ctx: &ctx::Ctx, setup: &zksync_consensus_roles::validator::testonly::Setup, first: u64, last: u64) -> Result<(), String> {
        let qc = match &setup.blocks[(last - setup.first_block().0) as usize] {
            zksync_consensus_roles::validator::Block::FinalV2(b) => b.justification.clone(),
            _ => return Err("harness: pre-genesis block in the chain material".into()),
        };
        let mut state = vec![0x08];
        pb_varint(&mut state, first);
        state.extend(pb_len(2, &pb_len(3, &zksync_protobuf::encode(&qc))));
        let req = pb_len(3, &state);
        let mut s = self.push.open(ctx).await.map_err(|_| "INFRA: opening a push_block_store_state call".to_string())?;
        s.write_all(ctx, &rpc_frame(&req)).await.map_err(|e| format!("INFRA: announce: {e:#}"))?;
        s.flush(ctx).await.map_err(|e| format!("INFRA: announce: {e:#}"))?;
        s.close_write();
        let resp = tokio::time::timeout(std::time::Duration::from_secs(10), s.read_exact(ctx, 4)).await.map_err(|_| "INFRA: the node did not acknowledge an announcement within 10 s".to_string())?;
        match resp {
            Ok(h) if h.len() == 4 => {
                *self.acked.lock().unwrap() += 1;
                Ok(())
            }
            other => Err(format!("the node refused a well-formed block range announcement {first}..={last}: {other:?}")),
        }
    }
}


/// An honest scripted peer: connects to a listening node, completes preface, noise and the gossip handshake as `key`,
/// runs a multiplexer and announces the chain's block range; Ok once the node has acknowledged the announcement.
pub(crate) async fn honest_probe<'a>(
    ctx: &'a ctx::Ctx,
    s: &'a scope::Scope<'a, String>,
    addr: std::net::SocketAddr,
    key: &'a zksync_consensus_roles::node::SecretKey,
    node_key: &'a zksync_consensus_roles::node::PublicKey,
    setup: &'a zksync_consensus_roles::validator::testonly::Setup,
) -> Result<(), String> {
    use zksync_consensus_network::verif::{self as hook, Mux, MuxConfig, NoiseTcp};
    let mut mine = NoiseTcp::preface_connect(ctx, addr, false).await.map_err(|e| format!("preface with the node failed: {e:?}"))?;
    let pcfg = crate::c12::gossip_cfg(key);
    hook::gossip::handshake_outbound(ctx, &pcfg, setup.genesis.hash(), &mut mine, node_key).await.map_err(|e| format!("handshake with the node failed: {e}"))?;
    let table = hook::rpc_table();
    let push_cap = table.iter().find(|t| t.0 == "push_block_store_state").map(|t| t.1).unwrap();
    let mut m = Mux::new(MuxConfig::rpc());
    let push = m.accept(ctx, push_cap, 1, zksync_concurrency::limiter::Rate::INF);
    s.spawn_bg(async move {
        let _ = m.run(ctx, mine).await;
        Ok(())
    });
    let peer = Scripted { push, inbox: Arc::default(), acked: Arc::default(), held: Arc::default() };
    let first = setup.first_block().0;
    peer.announce(ctx, setup, first, first + setup.blocks.len() as u64 - 1).await
}

pub fn check_peer(case: &PeerCase, st: &mut Stats) -> Result<(), String> {
    use rand::SeedableRng as _;
    use zksync_consensus_engine::{testonly::in_memory, EngineManager};
    use zksync_consensus_network::verif::{self as hook, gossip::Node, Mux, MuxConfig, NoiseTcp, Wire};
    use zksync_consensus_roles::validator;
    let rt = tokio::runtime::Builder::new_current_thread().enable_all().build().unwrap();
    rt.block_on(async {
        let ctx = &ctx::root();
        let rng = &mut rand::rngs::StdRng::seed_from_u64(12);
        let mut setup = validator::testonly::Setup::new_without_pregenesis(rng, 1);
        setup.push_blocks_v2(rng, case.blocks);
        let setup = &setup;
        let first = setup.first_block().0;
        let last = first + case.blocks as u64 - 1;
        let nk = gen::node_keys();
        let table = hook::rpc_table();
        let cap = |name: &str| table.iter().find(|t| t.0 == name).map(|t| (t.1, t.2)).unwrap();
        let (get_cap, get_inflight) = cap("get_block");
        let (push_cap, _) = cap("push_block_store_state");
        let st2 = &mut *st;
        let res: Result<(), String> = scope::run!(ctx, |ctx, s| async move {
            let st = st2;
            let eng_a = in_memory::Engine::new_random(setup, validator::BlockNumber(first));
            let (mgr_a, run_a) = EngineManager::new(ctx, Box::new(eng_a), zksync_concurrency::time::Duration::seconds(60)).await.map_err(|e| format!("INFRA: EngineManager::new: {e:?}"))?;
            s.spawn_bg(async { run_a.run(ctx).await.map_err(|e| format!("INFRA: engine runner: {e:#}")) });
            let mut cfg_a = crate::c12::gossip_cfg(&nk[9]);
            cfg_a.rpc.get_block_timeout = None;
            cfg_a.rpc.get_block_rate = zksync_concurrency::limiter::Rate::INF;
            cfg_a.rpc.push_block_store_state_rate = zksync_concurrency::limiter::Rate::INF;
            cfg_a.max_block_queue_size = case.queue;
            let a = Arc::new(Node::new(cfg_a, mgr_a.clone(), Some(setup.epoch)));
            {
                let a = a.clone();
                s.spawn_bg(async move {
                    a.run_block_fetcher(ctx).await;
                    Ok(())
                });
            }
            let genesis = setup.genesis.hash();
            // connects a scripted peer with identity `key`; `auto`: answers every request at once with the certified block
            let connect = |key: usize, auto: bool| {
                let a = a.clone();
                async move {
                    let mut l = hook::TcpListener::bind().await.map_err(|e| format!("INFRA: bind: {e:#}"))?;
                    let addr = l.addr();
                    let dial = async { NoiseTcp::preface_connect(ctx, addr, false).await.map_err(|e| format!("INFRA: preface_connect: {e:?}")) };
                    let acc = async {
                        let tcp = l.accept(ctx).await.map_err(|e| format!("INFRA: accept: {e:?}"))?;
                        NoiseTcp::preface_accept(ctx, tcp).await.map_err(|e| format!("INFRA: preface: {e:?}")).map(|x| x.0)
                    };
                    let (mine, theirs) = tokio::join!(dial, acc);
                    let (mut mine, theirs) = (mine?, theirs?);
                    s.spawn_bg(async move {
                        let _ = a.run_inbound_stream(ctx, theirs).await;
                        Ok(())
                    });
                    let pcfg = crate::c12::gossip_cfg(&nk[key]);
                    hook::gossip::handshake_outbound(ctx, &pcfg, genesis, &mut mine, &nk[9].public()).await.map_err(|e| format!("INFRA: handshake of a scripted peer: {e}"))?;
                    let mut m = Mux::new(MuxConfig::rpc());
                    let push = m.accept(ctx, push_cap, 1, zksync_concurrency::limiter::Rate::INF);
                    let serve = m.connect(ctx, get_cap, get_inflight, zksync_concurrency::limiter::Rate::INF);
                    s.spawn_bg(async move {
                        let _ = m.run(ctx, mine).await;
                        Ok(())
                    });
                    let peer = Arc::new(Scripted { push, inbox: Arc::default(), acked: Arc::default(), held: Arc::default() });
                    let p = peer.clone();
                    s.spawn_bg(async move {
                        // the get_block server of the scripted peer
                        while let Ok(mut call) = serve.open(ctx).await {
                            let Ok(req) = call.recv_msg(ctx, Wire::GetBlockReq, 1024).await else { continue };
                            let mut n = 0u64;
                            for (i, b) in req.iter().skip(1).enumerate() {
                                n |= ((*b & 0x7f) as u64) << (7 * i);
                            }
                            let acked = *p.acked.lock().unwrap();
                            p.inbox.lock().unwrap().push((n, acked));
                            if auto {
                                if let Some(b) = setup.blocks.get((n.wrapping_sub(first)) as usize) {
                                    let validator::Block::FinalV2(fb) = b else { continue };
                                    let _ = call.write_all(ctx, &rpc_frame(&pb_len(3, &zksync_protobuf::encode(fb)))).await;
                                    let _ = call.flush(ctx).await;
                                }
                                call.close_write();
                            } else {
                                p.held.lock().unwrap().push((n, call));
                            }
                        }
                        Ok(())
                    });
                    Ok::<_, String>(peer)
                }
            };
            async fn until(mut done: impl FnMut() -> bool, what: &str) -> Result<(), String> {
                for _ in 0..5000 {
                    if done() {
                        return Ok(());
                    }
                    tokio::time::sleep(std::time::Duration::from_millis(2)).await;
                }
                Err(format!("INFRA: {what} did not happen within 10 s"))
            }
            // 1. the first peer announces everything; the node asks for as many blocks as its queue allows, lowest first
            let p1 = connect(0, false).await?;
            p1.announce(ctx, setup, first, last).await?;
            let want = case.queue.min(case.blocks);
            until(|| p1.inbox.lock().unwrap().len() >= want, "the node asking an announcing peer for its first missing blocks").await?;
            // nothing else can be in flight: the node asks for at most `queue` blocks beyond what it stores
            for _ in 0..50 {
                tokio::task::yield_now().await;
            }
            {
                let mut got: Vec<u64> = p1.inbox.lock().unwrap().iter().map(|x| x.0).collect();
                got.sort();
                let expect: Vec<u64> = (first..first + want as u64).collect();
                if got != expect {
                    return Err(format!("the node stores nothing and may ask for {want} blocks at once; the only peer announced {first}..={last}; it was asked for {got:?} instead of the lowest missing blocks {expect:?}"));
                }
            }
            // 2. the peer prunes: same head, later first block; the node acknowledges
            let pruned_first = first + case.prune_to as u64;
            p1.announce(ctx, setup, pruned_first, last).await?;
            // 3. the requests received before the pruning are answered (the blocks were still on their way)
            let mut held = std::mem::take(&mut *p1.held.lock().unwrap());
            if case.reverse {
                held.reverse();
            }
            for (n, mut call) in held {
                let validator::Block::FinalV2(fb) = &setup.blocks[(n - first) as usize] else { continue };
                let _ = call.write_all(ctx, &rpc_frame(&pb_len(3, &zksync_protobuf::encode(fb)))).await;
                let _ = call.flush(ctx).await;
                call.close_write();
            }
            // 4. a second peer that stores everything and answers at once
            let p2 = connect(1, true).await?;
            p2.announce(ctx, setup, first, last).await?;
            // the first peer keeps serving what it announced
            {
                let p1 = p1.clone();
                s.spawn_bg(async move {
                    loop {
                        let held = std::mem::take(&mut *p1.held.lock().unwrap());
                        for (n, mut call) in held {
                            if n >= pruned_first && n <= last {
                                if let validator::Block::FinalV2(fb) = &setup.blocks[(n - first) as usize] {
                                    let _ = call.write_all(ctx, &rpc_frame(&pb_len(3, &zksync_protobuf::encode(fb)))).await;
                                    let _ = call.flush(ctx).await;
                                }
                            }
                            call.close_write();
                        }
                        if ctx.sleep(zksync_concurrency::time::Duration::milliseconds(2)).await.is_err() {
                            return Ok(());
                        }
                    }
                });
            }
            until(|| mgr_a.queued().next().0 > last, "fetching every block once a peer that stores everything is connected").await?;
            // oracle: after the node had acknowledged the pruned range, the first peer was never asked for a pruned block
            let inbox1 = p1.inbox.lock().unwrap().clone();
            let needed_pruned_block_afterwards = (first + want as u64) < pruned_first;
            st.class(if needed_pruned_block_afterwards { "pruned_block_needed_after_the_pruning" } else { "pruned_blocks_already_requested" });
            if needed_pruned_block_afterwards {
                st.nontrivial(common::fingerprint(case));
            }
            st.sample(|| serde_json::json!({"case": case, "first_peer_was_asked_for": inbox1, "second_peer_was_asked_for": p2.inbox.lock().unwrap().clone()}));
            for (n, acked) in &inbox1 {
                if *acked >= 2 && (*n < pruned_first || *n > last) {
                    return Err(format!(
                        "a peer announced blocks {first}..={last}, then (having pruned) {pruned_first}..={last}; after the node had acknowledged the second announcement it asked that peer for block {n}, which the peer no longer announces"
                    ));
                }
                if *n < first || *n > last {
                    return Err(format!("a peer that announced {first}..={last} was asked for block {n}"));
                }
            }
            for (n, _) in p2.inbox.lock().unwrap().iter() {
                if *n < first || *n > last {
                    return Err(format!("a peer that announced {first}..={last} was asked for block {n}"));
                }
            }
            for b in &setup.blocks {
                let got = mgr_a.get_block(ctx, b.number()).await.map_err(|e| format!("INFRA: get_block: {e:?}"))?;
                if got.as_ref() != Some(b) {
                    return Err(format!("block {} stored by the node differs from the certified block", b.number().0));
                }
            }
            Ok(())
        })
        .await;
        res
    })
}

// ---------------------------------------------------------------------------------------------
// C10 `live_state`: hostile block-range announcements against a node whose block fetcher is running

#[derive(Debug, Clone, Serialize, Deserialize, Hash)]
pub struct StateCase {
    /// Certified blocks that exist (the node stores none of them).
    blocks: usize,
    /// Announcements of the hostile peer: (first, kind of `last`: 0 none / 1 pre-genesis number / 2 certificate with that number, number, extremiser choices).
    anns: Vec<(u64, u8, u64, Vec<u16>)>,
}

pub fn gen_state(ch: &mut Choices) -> StateCase {
    let blocks = 2 + ch.below(3);
    let num = |ch: &mut Choices| match ch.below(7) {
        0 => u64::MAX,
        1 => u64::MAX - 1,
        2 => 0,
        3 => 1,
        4 => 1u64 << ch.below(64),
        5 => ch.below(8) as u64,
        _ => ch.u64(),
    };
    let k = 1 + ch.below(4);
    let anns = (0..k)
        .map(|_| {
            let mutate = if ch.chance(1, 3) { (0..12).map(|_| ch.raw()).collect() } else { vec![] };
            (if ch.chance(1, 2) { ch.below(4) as u64 } else { num(ch) }, ch.below(3) as u8, num(ch), mutate)
        })
        .collect();
    StateCase { blocks, anns }
}

pub fn check_state(case: &StateCase, st: &mut Stats) -> Result<(), String> {
    use rand::SeedableRng as _;
    use zksync_consensus_engine::{testonly::in_memory, EngineManager};
    use zksync_consensus_network::verif::{self as hook, gossip::Node, Mux, MuxConfig, NoiseTcp, Wire};
    use zksync_consensus_roles::validator;
    let rt = tokio::runtime::Builder::new_current_thread().enable_all().build().unwrap();
    let r = common::guard(|| rt.block_on(async {
        let ctx = &ctx::root();
        let rng = &mut rand::rngs::StdRng::seed_from_u64(12);
        let mut setup = validator::testonly::Setup::new_without_pregenesis(rng, 1);
        setup.push_blocks_v2(rng, case.blocks);
        let setup = &setup;
        let first = setup.first_block().0;
        let last = first + case.blocks as u64 - 1;
        let nk = gen::node_keys();
        let table = hook::rpc_table();
        let cap = |name: &str| table.iter().find(|t| t.0 == name).map(|t| (t.1, t.2)).unwrap();
        let (get_cap, get_inflight) = cap("get_block");
        let (push_cap, _) = cap("push_block_store_state");
        let st2 = &mut *st;
        let res: Result<(), String> = scope::run!(ctx, |ctx, s| async move {
            let st = st2;
            let eng_a = in_memory::Engine::new_random(setup, validator::BlockNumber(first));
            let (mgr_a, run_a) = EngineManager::new(ctx, Box::new(eng_a), zksync_concurrency::time::Duration::seconds(60)).await.map_err(|e| format!("INFRA: EngineManager::new: {e:?}"))?;
            s.spawn_bg(async { run_a.run(ctx).await.map_err(|e| format!("INFRA: engine runner: {e:#}")) });
            let mut cfg_a = crate::c12::gossip_cfg(&nk[9]);
            cfg_a.rpc.get_block_timeout = None;
            cfg_a.rpc.get_block_rate = zksync_concurrency::limiter::Rate::INF;
            cfg_a.rpc.push_block_store_state_rate = zksync_concurrency::limiter::Rate::INF;
            cfg_a.max_block_queue_size = 3;
            let a = Arc::new(Node::new(cfg_a, mgr_a.clone(), Some(setup.epoch)));
            {
                let a = a.clone();
                s.spawn_bg(async move {
                    a.run_block_fetcher(ctx).await;
                    Ok(())
                });
            }
            let genesis = setup.genesis.hash();
            // the handler task of a connection reports how it ended
            let ended: Arc<Mutex<Vec<String>>> = Arc::default();
            let connect = |key: usize, honest: bool| {
                let a = a.clone();
                let ended = ended.clone();
                async move {
                    let mut l = hook::TcpListener::bind().await.map_err(|e| format!("INFRA: bind: {e:#}"))?;
                    let addr = l.addr();
                    let dial = async { NoiseTcp::preface_connect(ctx, addr, false).await.map_err(|e| format!("INFRA: preface_connect: {e:?}")) };
                    let acc = async {
                        let tcp = l.accept(ctx).await.map_err(|e| format!("INFRA: accept: {e:?}"))?;
                        NoiseTcp::preface_accept(ctx, tcp).await.map_err(|e| format!("INFRA: preface: {e:?}")).map(|x| x.0)
                    };
                    let (mine, theirs) = tokio::join!(dial, acc);
                    let (mut mine, theirs) = (mine?, theirs?);
                    s.spawn_bg(async move {
                        let r = a.run_inbound_stream(ctx, theirs).await;
                        ended.lock().unwrap().push(format!("{r:?}").chars().take(160).collect());
                        Ok(())
                    });
                    let pcfg = crate::c12::gossip_cfg(&nk[key]);
                    hook::gossip::handshake_outbound(ctx, &pcfg, genesis, &mut mine, &nk[9].public()).await.map_err(|e| format!("INFRA: handshake of a scripted peer: {e}"))?;
                    let mut m = Mux::new(MuxConfig::rpc());
                    let push = m.accept(ctx, push_cap, 1, zksync_concurrency::limiter::Rate::INF);
                    let serve = m.connect(ctx, get_cap, get_inflight, zksync_concurrency::limiter::Rate::INF);
                    let (stop_tx, stop_rx) = tokio::sync::oneshot::channel::<()>();
                    s.spawn_bg(async move {
                        // the multiplexer runs as a background task of a scope of its own: when the stop signal arrives
                        // (or its sender is dropped) that scope is cancelled and the connection ends
                        let _: Result<(), String> = scope::run!(ctx, |ctx, s2| async move {
                            s2.spawn_bg(async move {
                                let _ = m.run(ctx, mine).await;
                                Ok(())
                            });
                            let _ = stop_rx.await;
                            Ok(())
                        })
                        .await;
                        Ok(())
                    });
                    let peer = Arc::new(Scripted { push, inbox: Arc::default(), acked: Arc::default(), held: Arc::default() });
                    let p = peer.clone();
                    s.spawn_bg(async move {
                        while let Ok(mut call) = serve.open(ctx).await {
                            let Ok(req) = call.recv_msg(ctx, Wire::GetBlockReq, 1024).await else { continue };
                            let mut n = 0u64;
                            for (i, b) in req.iter().skip(1).enumerate().take(10) {
                                n |= ((*b & 0x7f) as u64) << (7 * i);
                            }
                            p.inbox.lock().unwrap().push((n, 0));
                            if honest {
                                if let Some(validator::Block::FinalV2(fb)) = setup.blocks.get((n.wrapping_sub(first)) as usize) {
                                    let _ = call.write_all(ctx, &rpc_frame(&pb_len(3, &zksync_protobuf::encode(fb)))).await;
                                    let _ = call.flush(ctx).await;
                                }
                                call.close_write();
                            } else {
                                // the hostile peer never answers
                                p.held.lock().unwrap().push((n, call));
                            }
                        }
                        Ok(())
                    });
                    Ok::<_, String>((peer, stop_tx))
                }
            };
            // 1. the hostile peer: announcements with extreme numbers, some of them mutated at wire level
            let (mut hostile, mut stop) = connect(0, false).await?;
            let qc = match &setup.blocks[0] {
                validator::Block::FinalV2(b) => b.justification.clone(),
                _ => return Err("harness: pre-genesis block in the chain material".into()),
            };
            let desc = Wire::PushBlockStoreState.descriptor();
            let (mut acked, mut refused, mut mutated) = (0u64, 0u64, 0u64);
            let mut identity = 1usize;
            for (af, kind, num, mutate) in &case.anns {
                let mut state = vec![0x08];
                pb_varint(&mut state, *af);
                match kind {
                    0 => {}
                    1 => {
                        let mut x = vec![0x10];
                        pb_varint(&mut x, *num);
                        state.extend(pb_len(2, &x));
                    }
                    _ => {
                        let mut q = qc.clone();
                        q.message.proposal.number = validator::BlockNumber(*num);
                        state.extend(pb_len(2, &pb_len(3, &zksync_protobuf::encode(&q))));
                    }
                }
                let mut req = pb_len(3, &state);
                if !mutate.is_empty() {
                    req = gen::mutate::extremise(&mut Choices::new(mutate.clone()), &req, &desc).0;
                    mutated += 1;
                }
                let Ok(Ok(mut call)) = tokio::time::timeout(std::time::Duration::from_secs(10), hostile.push.open(ctx)).await else {
                    return Err("INFRA: the node did not open a push_block_store_state sub-stream within 10 s".into());
                };
                let _ = call.write_all(ctx, &rpc_frame(&req)).await;
                let _ = call.flush(ctx).await;
                call.close_write();
                let resp = tokio::time::timeout(std::time::Duration::from_secs(10), call.read_exact(ctx, 4)).await.map_err(|_| "INFRA: an announcement was neither acknowledged nor refused within 10 s".to_string())?;
                if matches!(&resp, Ok(h) if h.len() == 4) {
                    acked += 1;
                    // give the node's get_block loop of this connection a chance to look at the announced state
                    for _ in 0..20 {
                        tokio::time::sleep(std::time::Duration::from_millis(1)).await;
                        if !hostile.inbox.lock().unwrap().is_empty() {
                            break;
                        }
                    }
                } else {
                    // the node dropped the peer: come back under another identity
                    refused += 1;
                    let _ = stop.send(());
                    identity += 1;
                    (hostile, stop) = connect(identity % 8, false).await?;
                }
            }
            // 2. the hostile connection ends; whatever it had been asked for is wanted again
            let asked: Vec<u64> = hostile.inbox.lock().unwrap().iter().map(|x| x.0).collect();
            let _ = stop.send(());
            drop(hostile);
            // 3. an honest peer that stores everything: the node must still fetch the whole chain
            let (honest, _keep) = connect(8, true).await?;
            honest.announce(ctx, setup, first, last).await?;
            let mut ok = false;
            for _ in 0..5000 {
                if mgr_a.queued().next().0 > last {
                    ok = true;
                    break;
                }
                tokio::time::sleep(std::time::Duration::from_millis(2)).await;
            }
            st.count("announcements_acknowledged", acked);
            st.count("announcements_refused", refused);
            st.count("announcements_mutated_at_wire_level", mutated);
            st.count("requests_sent_to_the_hostile_peer", asked.len() as u64);
            if !ok {
                // a wall-clock wait: reported as inconclusive, never as a violation (a panic of a node task is caught above)
                return Err(format!(
                    "INFRA: after hostile block-range announcements {:?} (acknowledged {acked}, refused {refused}) and the end of that connection, the node did not fetch blocks {first}..={last} from an honest peer within 10 s (it stores up to {}); connection handlers ended with {:?}",
                    case.anns.iter().map(|a| (a.0, a.1, a.2)).collect::<Vec<_>>(), mgr_a.queued().next().0, ended.lock().unwrap()
                ));
            }
            for b in &setup.blocks {
                let got = mgr_a.get_block(ctx, b.number()).await.map_err(|e| format!("INFRA: get_block: {e:?}"))?;
                if got.as_ref() != Some(b) {
                    return Err(format!("block {} stored by the node differs from the certified block", b.number().0));
                }
            }
            if acked > 0 {
                st.nontrivial(common::fingerprint(case));
            }
            st.sample(|| serde_json::json!({"case": case, "hostile_peer_was_asked_for": asked}));
            Ok(())
        })
        .await;
        res
    }));
    match r {
        Ok(()) => Ok(()),
        Err(e) if e.starts_with("INFRA") => Err(e),
        Err(e) => Err(format!("hostile block-range announcements {:?}: {e}", case.anns.iter().map(|a| (a.0, a.1, a.2)).collect::<Vec<_>>())),
    }
}

pub fn main(env: &Env) -> i32 {
    if let Mode::Replay(path) = env.mode() {
        let (part, case) = Env::read_replay(&path);
        if part == "node" {
            return env.finish_replay(&path, common::replay_case::<NodeCase>(case, check_node));
        }
        if part == "scripted_peer" {
            return env.finish_replay(&path, common::replay_case::<PeerCase>(case, check_peer));
        }
        if part == "queue_threads" {
            return env.finish_replay(&path, common::replay_case::<QueueThreadsCase>(case, check_queue_threads));
        }
        return env.finish_replay(&path, common::replay_case::<Case>(case, check));
    }
    let mut parts: Vec<PartReport> = vec![];
    parts.extend(common::run_regress::<Case>(env, "queue", check));
    parts.extend(common::run_regress::<NodeCase>(env, "node", check_node));
    parts.push(run_proptest(
        env,
        "queue",
        "the real fetch queue with 1-4 peers and 2-41 operations {request a new block, requester gives up, peer announces a range (or nothing), peer starts accept, success, failure (handle dropped), disconnect (accept cancelled + handle dropped)}, quiescence barrier after every operation; \
         oracle after every step: each outstanding request is in the queue xor held by exactly one peer, the queue holds nothing else, a request is handed only to a peer that announces it and only if no lower waiting block is stored by that peer, \
         request() returns Ok only after success and Canceled only after giving up, and no peer sits in accept_block while it stores the lowest waiting block (lost wake-up). Non-trivial = a dropped request accepted again, or the lowest request cancelled while a peer waits",
        PartOpts { cases: env.tier.pick(150_000, 3_000_000), max_shrink_iters: 3000, samples: 2 },
        || Choices::strategy(200).prop_map(|mut ch| gen_case(&mut ch)),
        check,
    ));
    parts.extend(common::run_regress::<QueueThreadsCase>(env, "queue_threads", check_queue_threads));
    {
        let mut seq = env.clone_for_part();
        seq.shards = 2;
        parts.push(run_proptest(
            &seq,
            "queue_threads",
            "the real fetch queue on a multi-thread runtime (2-8 workers): 2-12 blocks each requested by its own task, 2-4 peer tasks announcing generated ranges (one of them everything) that accept, then complete or - every 2nd / 3rd / 5th hand-over - drop the request; 40 repetitions per case; \
             oracle valid under every interleaving: a block is never held by two peers at once, only a peer that announces a block is handed it, request() returns Ok only after that block was completed. Every case is non-trivial; a run that does not finish within 60 s is inconclusive",
            PartOpts { cases: env.tier.pick(80, 2_000), max_shrink_iters: 20, samples: 2 },
            || Choices::strategy(20).prop_map(|mut ch| gen_queue_threads(&mut ch)),
            check_queue_threads,
        ));
    }
    parts.push(run_proptest(
        env,
        "node",
        "a real node (gossip state, block fetcher loop, per-connection handler with its get_block client) with an empty store; a real peer node storing 2-6 certified blocks connects over loopback TCP, its storage layer lying about 0-2 of them (certified block with another payload / a genuine block of another number / storage error); \
         oracle: the node drops the peer on the first bad answer and, once that connection has ended, every block it still misses is waiting in its fetch queue again (no peer is connected, so 'handed to a peer' is impossible); then an honest peer connects and every block must be fetched and equal the certified one. Non-trivial = the first peer lied",
        PartOpts { cases: env.tier.pick(400, 8_000), max_shrink_iters: 60, samples: 2 },
        || Choices::strategy(20).prop_map(|mut ch| gen_node(&mut ch)),
        check_node,
    ));
    parts.extend(common::run_regress::<PeerCase>(env, "scripted_peer", check_peer));
    parts.push(run_proptest(
        env,
        "scripted_peer",
        "a real node (gossip state, block fetcher, per-connection handlers; max_block_queue_size 1-3) with an empty store and SCRIPTED peers over loopback TCP: the harness performs the real preface / noise / handshake and runs a real multiplexer carrying hand-made RPC frames, so it sees the node's acknowledgement of every announcement and every get_block request on arrival. \
         Script: the first peer announces 3-8 blocks and holds the node's requests; it then announces a pruned range (same head, later first block) and, once the node has acknowledged that, answers the held requests (in or against order); a second peer storing everything connects. \
         Oracle: the node first asks for exactly its lowest missing blocks; after the acknowledgement the first peer is never asked for a block below its new first block (the node needs such a block only after the pruning, because it asks for at most `queue` blocks at once); no peer is ever asked outside its announced range; every block is fetched and equals the certified one. Non-trivial = a pruned block is needed after the pruning",
        PartOpts { cases: env.tier.pick(240, 6_000), max_shrink_iters: 40, samples: 2 },
        || Choices::strategy(20).prop_map(|mut ch| gen_peer(&mut ch)),
        check_peer,
    ));
    env.finish(
        "exploration",
        "generated request / peer programs on a deterministic runtime with a set model, and a real node fetching from real peer nodes with a lying storage layer over loopback TCP",
        &["concurrent requests for the same block number are documented as unsupported and not generated"],
        parts,
    )
}
