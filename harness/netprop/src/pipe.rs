//! Scripted in-memory transport: the harness owns fragmentation, `Pending` and back-pressure.
//!
//! A `Pipe` is one direction. Every `poll_write` / `poll_read` consumes one script entry:
//! 0 = return `Pending` once (waking itself, i.e. a spurious pending), k > 0 = move at most k
//! bytes. An exhausted script moves as much as possible. The pipe has a capacity; a full pipe
//! back-pressures the writer, an empty one parks the reader; wake-ups are exact.
use std::{
    collections::VecDeque,
    pin::Pin,
    sync::{Arc, Mutex},
    task::{Context, Poll, Waker},
};

use tokio::io::{AsyncRead, AsyncWrite, ReadBuf};

#[derive(Default)]
pub struct PipeState {
    buf: VecDeque<u8>,
    capacity: usize,
    write_closed: bool,
    read_closed: bool,
    reader: Option<Waker>,
    writer: Option<Waker>,
    write_script: VecDeque<u16>,
    read_script: VecDeque<u16>,
    /// Every byte ever accepted from the writer.
    pub wire: Vec<u8>,
    /// Whether `wire` is recorded.
    pub record: bool,
    /// Total bytes accepted from the writer.
    pub written: u64,
    /// Total bytes handed to the reader.
    pub read: u64,
    /// Number of polls that hit a fragment boundary or a scripted Pending.
    pub fragments: u64,
}

#[derive(Clone)]
pub struct Pipe(pub Arc<Mutex<PipeState>>);

impl Pipe {
    pub fn new(capacity: usize, write_script: Vec<u16>, read_script: Vec<u16>) -> Self {
        Self(Arc::new(Mutex::new(PipeState {
            capacity: capacity.max(1),
            write_script: write_script.into(),
            read_script: read_script.into(),
            ..Default::default()
        })))
    }
    pub fn unbounded() -> Self {
        Self::new(usize::MAX, vec![], vec![])
    }
    pub fn recording(self) -> Self {
        self.0.lock().unwrap().record = true;
        self
    }
    pub fn wire(&self) -> Vec<u8> {
        self.0.lock().unwrap().wire.clone()
    }
    pub fn stats(&self) -> (u64, u64, u64) {
        let s = self.0.lock().unwrap();
        (s.written, s.read, s.fragments)
    }
    pub fn buffered(&self) -> usize {
        self.0.lock().unwrap().buf.len()
    }
    /// Injects bytes as if written by the writer (used to feed a prepared stream).
    pub fn inject(&self, data: &[u8]) {
        let mut s = self.0.lock().unwrap();
        s.buf.extend(data);
        s.written += data.len() as u64;
        if let Some(w) = s.reader.take() {
            w.wake();
        }
    }
    /// Closes the write side (the reader sees EOF after draining).
    pub fn close_write(&self) {
        let mut s = self.0.lock().unwrap();
        s.write_closed = true;
        if let Some(w) = s.reader.take() {
            w.wake();
        }
    }
    /// New capacity and scripts (content and counters are kept).
    pub fn reconfigure(&self, capacity: usize, write_script: &[u16], read_script: &[u16]) {
        let mut s = self.0.lock().unwrap();
        s.capacity = capacity.max(1);
        s.write_script = write_script.iter().copied().collect();
        s.read_script = read_script.iter().copied().collect();
        if let Some(w) = s.writer.take() {
            w.wake();
        }
    }
    /// Drops everything currently buffered.
    pub fn discard_buffer(&self) {
        self.0.lock().unwrap().buf.clear();
    }
    pub fn set_scripts(&self, write_script: Vec<u16>, read_script: Vec<u16>) {
        let mut s = self.0.lock().unwrap();
        s.write_script = write_script.into();
        s.read_script = read_script.into();
    }

    fn poll_write(&self, cx: &mut Context<'_>, data: &[u8]) -> Poll<std::io::Result<usize>> {
        let mut s = self.0.lock().unwrap();
        if s.write_closed || s.read_closed {
            return Poll::Ready(Err(std::io::ErrorKind::BrokenPipe.into()));
        }
        if data.is_empty() {
            return Poll::Ready(Ok(0));
        }
        let limit = match s.write_script.pop_front() {
            Some(0) => {
                s.fragments += 1;
                cx.waker().wake_by_ref();
                return Poll::Pending;
            }
            Some(k) => k as usize,
            None => usize::MAX,
        };
        let room = s.capacity.saturating_sub(s.buf.len());
        if room == 0 {
            s.writer = Some(cx.waker().clone());
            return Poll::Pending;
        }
        let n = data.len().min(limit).min(room);
        if n < data.len() {
            s.fragments += 1;
        }
        s.buf.extend(&data[..n]);
        if s.record {
            s.wire.extend_from_slice(&data[..n]);
        }
        s.written += n as u64;
        if let Some(w) = s.reader.take() {
            w.wake();
        }
        Poll::Ready(Ok(n))
    }

    fn poll_read(&self, cx: &mut Context<'_>, out: &mut ReadBuf<'_>) -> Poll<std::io::Result<()>> {
        let mut s = self.0.lock().unwrap();
        if out.remaining() == 0 {
            return Poll::Ready(Ok(()));
        }
        if s.buf.is_empty() {
            if s.write_closed {
                return Poll::Ready(Ok(())); // EOF
            }
            s.reader = Some(cx.waker().clone());
            return Poll::Pending;
        }
        let limit = match s.read_script.pop_front() {
            Some(0) => {
                s.fragments += 1;
                cx.waker().wake_by_ref();
                return Poll::Pending;
            }
            Some(k) => k as usize,
            None => usize::MAX,
        };
        let n = out.remaining().min(limit).min(s.buf.len());
        if n < out.remaining().min(s.buf.len()) {
            s.fragments += 1;
        }
        for _ in 0..n {
            let b = s.buf.pop_front().unwrap();
            out.put_slice(&[b]);
        }
        s.read += n as u64;
        if let Some(w) = s.writer.take() {
            w.wake();
        }
        Poll::Ready(Ok(()))
    }
}

/// One end of a duplex connection made of two pipes.
pub struct End {
    pub rx: Pipe,
    pub tx: Pipe,
}

/// Duplex connection: returns (a, b); `a.tx == b.rx` and vice versa.
pub fn duplex(a_to_b: Pipe, b_to_a: Pipe) -> (End, End) {
    (
        End { rx: b_to_a.clone(), tx: a_to_b.clone() },
        End { rx: a_to_b, tx: b_to_a },
    )
}

impl AsyncRead for End {
    fn poll_read(self: Pin<&mut Self>, cx: &mut Context<'_>, buf: &mut ReadBuf<'_>) -> Poll<std::io::Result<()>> {
        self.rx.poll_read(cx, buf)
    }
}

impl AsyncWrite for End {
    fn poll_write(self: Pin<&mut Self>, cx: &mut Context<'_>, buf: &[u8]) -> Poll<std::io::Result<usize>> {
        self.tx.poll_write(cx, buf)
    }
    fn poll_flush(self: Pin<&mut Self>, _cx: &mut Context<'_>) -> Poll<std::io::Result<()>> {
        Poll::Ready(Ok(()))
    }
    fn poll_shutdown(self: Pin<&mut Self>, _cx: &mut Context<'_>) -> Poll<std::io::Result<()>> {
        self.tx.close_write();
        Poll::Ready(Ok(()))
    }
}

impl Drop for End {
    fn drop(&mut self) {
        self.tx.close_write();
        let mut s = self.rx.0.lock().unwrap();
        s.read_closed = true;
        if let Some(w) = s.writer.take() {
            w.wake();
        }
    }
}

/// Deterministic payload byte at absolute offset `i` of stream `stream`.
pub fn prg(stream: u64, i: u64) -> u8 {
    let x = common::mix(&[stream, i / 8]);
    (x >> ((i % 8) * 8)) as u8
}

/// `len` payload bytes of stream `stream` starting at `off`.
pub fn prg_bytes(stream: u64, off: u64, len: usize) -> Vec<u8> {
    (0..len as u64).map(|i| prg(stream, off + i)).collect()
}
