//! Checks over the network crate (through its `verif` hook): C10, C12, C13, C14, C18, C19 and the
//! network halves of C09 / C15.
pub mod c09;
pub mod c10;
pub mod c12;
pub mod c13;
pub mod c14;
pub mod c15;
pub mod c18;
pub mod c19;
pub mod netvalues;
pub mod pipe;

/// Entry point of the engine binary.
pub fn engine_main() -> ! {
    common::set_fuzz_registry(fuzz_registry());
    let env = common::Env::from_args();
    let code = match env.property.as_str() {
        "C09" => c09::main(&env),
        "C10" => c10::main(&env),
        "C12" => c12::main(&env),
        "C13" => c13::main(&env),
        "C14" => c14::main(&env),
        "C15" => c15::main(&env),
        "C18" => c18::main(&env),
        "C19" => c19::main(&env),
        p => {
            eprintln!("netprop: unknown property {p}");
            2
        }
    };
    std::process::exit(code);
}

/// Parts that the libFuzzer bridge (`/verif/fuzz`) can drive.
pub fn fuzz_registry() -> Vec<common::FuzzEntry> {
    use common::fuzz_entry;
    vec![
        fuzz_entry!("C09", "net_types", 121, c09::gen_net, c09::check_net),
        fuzz_entry!("C09", "decoded_values", 161, c10::fuzz_gen_dec, c09::check_decoded),
        fuzz_entry!("C10", "decoders", 161, c10::fuzz_gen_dec, c10::check_dec),
        fuzz_entry!("C10", "noise_garbage", 80, c10::gen_noise, c10::check_noise),
        fuzz_entry!("C10", "mux_raw", 120, c10::gen_mux_raw, c10::check_mux_raw),
        fuzz_entry!("C10", "rpc_garbage", 400, c10::gen_rpc, c10::check_rpc),
        fuzz_entry!("C13", "noise", 200, c13::gen_case, c13::check),
        fuzz_entry!("C14", "streams", 400, c14::gen_case, c14::check),
        fuzz_entry!("C14", "flood", 9000, c14::gen_flood, c14::check_flood),
        fuzz_entry!("C15", "limiter", 150, c15::gen_case, c15::check),
        fuzz_entry!("C15", "service", 120, c15::gen_svc, c15::check_svc),
        fuzz_entry!("C18", "batches", 400, c18::gen_case, c18::check),
        fuzz_entry!("C18", "convergence", 200, c18::gen_conv, c18::check_conv),
        fuzz_entry!("C19", "queue", 300, c19::gen_case, c19::check),
    ]
}
