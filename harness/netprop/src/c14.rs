//! C14 Multiplexed streams are isolated, ordered and flow-controlled.
use std::{
    collections::{BTreeMap, BTreeSet},
    sync::{Arc, Mutex},
};

use common::{det, run_proptest, Choices, Env, Mode, PartOpts, PartReport, Stats};
use proptest::prelude::*;
use serde::{Deserialize, Serialize};
use zksync_concurrency::{ctx, limiter};
use zksync_consensus_network::verif::{Mux, MuxConfig, MuxQueue, MuxStream};

use crate::pipe::{duplex, prg_bytes, Pipe};

#[derive(Debug, Clone, Serialize, Deserialize, Hash)]
pub struct CapCfg {
    id: u64,
    accept: u32,
    connect: u32,
}

#[derive(Debug, Clone, Serialize, Deserialize, Hash)]
pub struct SideCfg {
    read_frame_size: u64,
    read_buffer_size: u64,
    read_frame_count: u64,
    write_frame_size: u64,
    caps: Vec<CapCfg>,
}

#[derive(Debug, Clone, Serialize, Deserialize, Hash)]
pub struct Script {
    /// Sizes of the write_all calls; the stream carries header + sum(chunks) bytes.
    chunks: Vec<u16>,
    flush_each: bool,
    /// Sizes of the read_exact calls, cycled.
    read_sizes: Vec<u16>,
    /// Drop the whole stream after having written this many chunks (abort); None = orderly.
    abort_after_chunks: Option<u8>,
    /// Drop the whole stream after having read this many bytes (typically in the middle of a frame).
    #[serde(default)]
    abort_read_after: Option<u16>,
    yields: u8,
    /// The writer abandons (drops) a flush call that has not completed after this many polls of the runtime and then
    /// flushes again: bytes that write_all had accepted must not get lost by an abandoned flush.
    #[serde(default)]
    impatient_flush: Option<u8>,
}

#[derive(Debug, Clone, Serialize, Deserialize, Hash)]
pub struct Session {
    cap: u64,
    opener_is_a: bool,
    opener: Script,
    acceptor: Script,
}

#[derive(Debug, Clone, Serialize, Deserialize, Hash)]
pub struct Case {
    a: SideCfg,
    b: SideCfg,
    sessions: Vec<Session>,
    capacity: usize,
    a2b: (Vec<u16>, Vec<u16>),
    b2a: (Vec<u16>, Vec<u16>),
}

fn gen_side(ch: &mut Choices, ncaps: usize) -> SideCfg {
    let read_frame_size = ch.pick(&[16u64, 17, 64, 100, 1000, 4096]);
    SideCfg {
        read_frame_size,
        read_buffer_size: read_frame_size * ch.range(1, 6),
        read_frame_count: ch.range(2, 32),
        write_frame_size: ch.pick(&[1u64, 2, 16, 100, 1000, 4096, 65535]),
        caps: {
            let mut caps = vec![];
            for i in 0..ncaps {
                if ch.chance(1, 8) {
                    continue;
                }
                caps.push(CapCfg { id: i as u64 * 7 + ch.below(2) as u64 * 100 * (i as u64 % 2), accept: ch.weighted(&[(1, 0u32), (2, 1), (3, 2), (1, 3), (1, 4)]), connect: ch.weighted(&[(1, 0u32), (2, 1), (3, 2), (1, 3), (1, 4)]) });
            }
            caps
        },
    }
}

fn gen_script(ch: &mut Choices) -> Script {
    let n = ch.below(6);
    Script {
        chunks: (0..n).map(|_| ch.pick(&[0u16, 1, 15, 16, 17, 200, 4096, 5000, 20000])).collect(),
        flush_each: ch.bool(),
        read_sizes: (0..1 + ch.below(3)).map(|_| ch.pick(&[1u16, 3, 16, 100, 5000])).collect(),
        abort_after_chunks: ch.chance(1, 8).then(|| ch.below(n + 1) as u8),
        abort_read_after: ch.chance(1, 6).then(|| ch.pick(&[1u16, 5, 17, 20, 100, 1000])),
        yields: ch.below(4) as u8,
        impatient_flush: ch.chance(1, 4).then(|| ch.below(6) as u8),
    }
}

pub fn gen_case(ch: &mut Choices) -> Case {
    let ncaps = 1 + ch.below(3);
    let mut a = gen_side(ch, ncaps);
    let mut b = gen_side(ch, ncaps);
    // mostly the same capability ids on both sides
    if ch.chance(5, 6) {
        for (i, c) in b.caps.iter_mut().enumerate() {
            if let Some(ac) = a.caps.get(i) {
                c.id = ac.id;
            }
        }
    }
    if a.caps.is_empty() {
        a.caps.push(CapCfg { id: 0, accept: 2, connect: 2 });
    }
    if b.caps.is_empty() {
        b.caps.push(CapCfg { id: 0, accept: 2, connect: 2 });
    }
    let ids: Vec<u64> = a.caps.iter().chain(&b.caps).map(|c| c.id).collect();
    let nsess = 1 + ch.below(10);
    // sessions concentrate on few capabilities so that several run concurrently on one
    let mut sessions = vec![];
    for _ in 0..nsess {
        let spread = ids.len().min(1 + ch.below(2));
        sessions.push(Session { cap: ids[ch.below(spread)], opener_is_a: ch.bool(), opener: gen_script(ch), acceptor: gen_script(ch) });
    }
    let script = |ch: &mut Choices| -> Vec<u16> { (0..ch.below(30)).map(|_| ch.pick(&[0u16, 1, 2, 3, 5, 100, 10000])).collect() };
    Case {
        a,
        b,
        sessions,
        capacity: ch.pick(&[1usize, 7, 100, 5000, 1 << 20]),
        a2b: (script(ch), script(ch)),
        b2a: (script(ch), script(ch)),
    }
}

const MAGIC: u32 = 0x6d757821;

fn header(cap: u64, serial: u32, len: u32) -> Vec<u8> {
    let mut h = MAGIC.to_le_bytes().to_vec();
    h.extend((cap as u32).to_le_bytes());
    h.extend(serial.to_le_bytes());
    h.extend(len.to_le_bytes());
    h
}

#[derive(Default, Debug)]
struct Shared {
    /// serial -> (cap, sent by side a?, by opener?, declared len, bytes actually written (set at close/abort))
    sent: BTreeMap<u32, (u64, bool, bool, u32, Option<u32>)>,
    /// serial -> bytes received, eos seen
    received: BTreeMap<u32, (u32, bool)>,
    /// (side a?, cap, accept-direction?) -> (currently open, max)
    open: BTreeMap<(bool, u64, bool), (i64, i64)>,
    done_parties: BTreeSet<(usize, bool)>,
    /// party -> serial it received completely (None = it dropped the stream before finishing)
    party_received: BTreeMap<(usize, bool), Option<u32>>,
    opened_parties: BTreeSet<(usize, bool)>,
    error: Option<String>,
    abandoned_flushes: u64,
}

fn fail(sh: &Arc<Mutex<Shared>>, e: String) {
    let mut g = sh.lock().unwrap();
    if g.error.is_none() {
        g.error = Some(e);
    }
}

struct OpenGuard {
    sh: Arc<Mutex<Shared>>,
    key: (bool, u64, bool),
    halves: Arc<Mutex<u8>>,
}
impl Drop for OpenGuard {
    fn drop(&mut self) {
        let mut h = self.halves.lock().unwrap();
        *h -= 1;
        if *h == 0 {
            self.sh.lock().unwrap().open.get_mut(&self.key).unwrap().0 -= 1;
        }
    }
}

#[allow(clippy::too_many_arguments)]
async fn party(
    ctx: ctx::Ctx,
    sh: Arc<Mutex<Shared>>,
    queue: MuxQueue,
    idx: usize,
    is_opener: bool,
    side_a: bool,
    cap: u64,
    script: Script,
) {
    let Ok(stream) = queue.open(&ctx).await else { return };
    let key = (side_a, cap, !is_opener);
    {
        let mut g = sh.lock().unwrap();
        let e = g.open.entry(key).or_default();
        e.0 += 1;
        e.1 = e.1.max(e.0);
        g.opened_parties.insert((idx, is_opener));
    }
    let halves = Arc::new(Mutex::new(2u8));
    let (r, w) = stream.split();
    let serial = (idx as u32) << 1 | is_opener as u32;
    let total: u32 = script.chunks.iter().map(|c| *c as u32).sum();
    sh.lock().unwrap().sent.insert(serial, (cap, side_a, is_opener, total, None));
    let abort_flag = Arc::new(tokio::sync::Notify::new());
    let stop_writer = Arc::new(std::sync::atomic::AtomicBool::new(false));
    // writer
    let wt = {
        let (ctx, sh, script, abort_flag, stop_writer) = (ctx.clone_ctx(), sh.clone(), script.clone(), abort_flag.clone(), stop_writer.clone());
        let guard = OpenGuard { sh: sh.clone(), key, halves: halves.clone() };
        tokio::spawn(async move {
            let _guard = guard;
            let mut w: MuxStream = w;
            let mut written = 0u32;
            let res: anyhow::Result<()> = async {
                w.write_all(&ctx, &header(cap, serial, total)).await?;
                for (i, c) in script.chunks.iter().enumerate() {
                    if script.abort_after_chunks == Some(i as u8) || stop_writer.load(std::sync::atomic::Ordering::SeqCst) {
                        break;
                    }
                    det::yields(script.yields as usize).await;
                    w.write_all(&ctx, &prg_bytes(serial as u64, written as u64, *c as usize)).await?;
                    written += *c as u32;
                    if script.flush_each {
                        if let Some(k) = script.impatient_flush {
                            let gave_up = tokio::select! {
                                biased;
                                r = w.flush(&ctx) => {
                                    r?;
                                    false
                                }
                                _ = det::yields(1 + k as usize) => true,
                            };
                            if gave_up {
                                sh.lock().unwrap().abandoned_flushes += 1;
                                w.flush(&ctx).await?;
                            }
                        } else {
                            w.flush(&ctx).await?;
                        }
                    }
                }
                Ok(())
            }
            .await;
            if let Err(e) = res {
                fail(&sh, format!("session {idx} (opener={is_opener}): write failed: {e:#}"));
            }
            sh.lock().unwrap().sent.get_mut(&serial).unwrap().4 = Some(written);
            if script.abort_after_chunks.is_some() {
                abort_flag.notify_one();
            }
            drop(w); // CLOSE
        })
    };
    // reader
    let guard = OpenGuard { sh: sh.clone(), key, halves };
    let mut r: MuxStream = r;
    let read_fut = async {
        let read_limit = script.abort_read_after.map(|x| x as u32);
        if read_limit.is_some_and(|l| l < 16) {
            let _ = r.read_exact(&ctx, read_limit.unwrap() as usize).await?;
            return Ok(None);
        }
        let h = r.read_exact(&ctx, 16).await?;
        if h.is_empty() {
            // the peer aborted before sending anything / closed at once: no data at all is legal only if it wrote nothing
            return Ok::<Option<(u32, u32, bool)>, anyhow::Error>(None);
        }
        anyhow::ensure!(h.len() == 16, "stream ended inside the header ({} bytes)", h.len());
        anyhow::ensure!(u32::from_le_bytes(h[0..4].try_into().unwrap()) == MAGIC, "bad magic: bytes of another stream or offset");
        let hcap = u32::from_le_bytes(h[4..8].try_into().unwrap());
        let hserial = u32::from_le_bytes(h[8..12].try_into().unwrap());
        let hlen = u32::from_le_bytes(h[12..16].try_into().unwrap());
        anyhow::ensure!(hcap as u64 == cap & 0xffff_ffff, "stream opened on capability {cap} delivered data sent on capability {hcap}");
        let mut got = 0u32;
        let mut i = 0;
        let mut eos = false;
        while got < hlen {
            if read_limit.is_some_and(|l| got + 16 >= l) {
                return Ok(None);
            }
            let want = (script.read_sizes[i % script.read_sizes.len()] as u32).min(hlen - got);
            i += 1;
            let d = r.read_exact(&ctx, want as usize).await?;
            anyhow::ensure!(
                d == prg_bytes(hserial as u64, got as u64, d.len()),
                "payload of stream serial {hserial} corrupted / reordered at offset {got}"
            );
            got += d.len() as u32;
            if (d.len() as u32) < want {
                eos = true;
                break;
            }
        }
        if !eos {
            let extra = r.read_exact(&ctx, 1).await?;
            anyhow::ensure!(extra.is_empty(), "data after the announced end of stream serial {hserial}");
            eos = true;
        }
        Ok(Some((hserial, got, eos)))
    };
    let res = if script.abort_after_chunks.is_some() {
        tokio::select! {
            r = read_fut => Some(r),
            _ = abort_flag.notified() => None,
        }
    } else {
        Some(read_fut.await)
    };
    sh.lock().unwrap().party_received.insert(
        (idx, is_opener),
        match &res {
            Some(Ok(Some((hserial, _, _)))) => Some(*hserial),
            _ => None,
        },
    );
    match res {
        Some(Ok(Some((hserial, got, eos)))) => {
            let mut g = sh.lock().unwrap();
            if g.received.insert(hserial, (got, eos)).is_some() {
                drop(g);
                fail(&sh, format!("stream serial {hserial} was delivered twice"));
            } else {
                match g.sent.get(&hserial) {
                    None => {
                        drop(g);
                        fail(&sh, format!("received a stream with unknown serial {hserial}"));
                    }
                    Some((scap, s_a, s_opener, _, _)) => {
                        if *scap != cap || *s_a == side_a || *s_opener == is_opener {
                            let msg = format!(
                                "session {idx}: stream on capability {cap} (side_a={side_a}, opener={is_opener}) received data of serial {hserial} sent on capability {scap} by side_a={s_a}, opener={s_opener}"
                            );
                            drop(g);
                            fail(&sh, msg);
                        }
                    }
                }
            }
        }
        Some(Ok(None)) | None => {}
        Some(Err(e)) => fail(&sh, format!("session {idx} (opener={is_opener}, cap {cap}): {e:#}")),
    }
    if script.abort_read_after.is_some() {
        stop_writer.store(true, std::sync::atomic::Ordering::SeqCst);
    }
    drop(r);
    drop(guard);
    let _ = wt.await;
    sh.lock().unwrap().done_parties.insert((idx, is_opener));
}

trait CtxClone {
    fn clone_ctx(&self) -> ctx::Ctx;
}
impl CtxClone for ctx::Ctx {
    fn clone_ctx(&self) -> ctx::Ctx {
        self.with_deadline(zksync_concurrency::time::Deadline::Infinite)
    }
}

fn mux_cfg(s: &SideCfg) -> MuxConfig {
    MuxConfig {
        read_frame_size: s.read_frame_size,
        read_buffer_size: s.read_buffer_size,
        read_frame_count: s.read_frame_count,
        write_frame_size: s.write_frame_size,
    }
}

pub fn check(case: &Case, st: &mut Stats) -> Result<(), String> {
    det::run(|| async {
        let life = det::Life::new();
        let ctx = life.child();
        let a2b = Pipe::new(case.capacity, case.a2b.0.clone(), case.a2b.1.clone());
        let b2a = Pipe::new(case.capacity, case.b2a.0.clone(), case.b2a.1.clone());
        let (ea, eb) = duplex(a2b, b2a);
        let mut queues: BTreeMap<(bool, u64, bool), MuxQueue> = BTreeMap::new();
        let mut ma = Mux::new(mux_cfg(&case.a));
        let mut mb = Mux::new(mux_cfg(&case.b));
        for (side_a, m, cfg) in [(true, &mut ma, &case.a), (false, &mut mb, &case.b)] {
            for c in &cfg.caps {
                if queues.contains_key(&(side_a, c.id, true)) {
                    continue; // duplicate id within one side: first wins
                }
                queues.insert((side_a, c.id, true), m.accept(&ctx, c.id, c.accept, limiter::Rate::INF));
                queues.insert((side_a, c.id, false), m.connect(&ctx, c.id, c.connect, limiter::Rate::INF));
            }
        }
        let limit = |side_a: bool, cap: u64, accept: bool| -> u32 {
            let find = |s: &SideCfg| s.caps.iter().find(|c| c.id == cap).map(|c| (c.accept, c.connect));
            let (me, peer) = if side_a { (find(&case.a), find(&case.b)) } else { (find(&case.b), find(&case.a)) };
            match (me, peer) {
                (Some(me), Some(peer)) => {
                    if accept {
                        me.0.min(peer.1)
                    } else {
                        me.1.min(peer.0)
                    }
                }
                _ => 0,
            }
        };
        let sh = Arc::new(Mutex::new(Shared::default()));
        let run_a = tokio::spawn({
            let ctx = ctx.clone_ctx();
            async move { ma.run(&ctx, ea).await }
        });
        let run_b = tokio::spawn({
            let ctx = ctx.clone_ctx();
            async move { mb.run(&ctx, eb).await }
        });
        let mut tasks: Vec<tokio::task::JoinHandle<()>> = vec![];
        let mut expect_blocked = BTreeSet::new();
        for (idx, s) in case.sessions.iter().enumerate() {
            for is_opener in [true, false] {
                let side_a = s.opener_is_a == is_opener;
                let accept = !is_opener;
                let Some(q) = queues.get(&(side_a, s.cap, accept)) else {
                    expect_blocked.insert((idx, is_opener));
                    continue;
                };
                if limit(side_a, s.cap, accept) == 0 {
                    expect_blocked.insert((idx, is_opener));
                }
                let script = if is_opener { s.opener.clone() } else { s.acceptor.clone() };
                tasks.push(tokio::spawn(party(ctx.clone_ctx(), sh.clone(), q.clone(), idx, is_opener, side_a, s.cap, script)));
            }
        }
        det::barrier().await;
        let g = sh.lock().unwrap();
        let res = (|| {
            if let Some(e) = &g.error {
                return Err(e.clone());
            }
            if run_a.is_finished() || run_b.is_finished() {
                return Err("Mux::run returned while the transport was healthy".to_string());
            }
            for (k, (_, max)) in &g.open {
                let lim = limit(k.0, k.1, k.2) as i64;
                if *max > lim {
                    return Err(format!(
                        "side_a={} capability {} {}: {max} transient streams were open at once, the agreed limit is {lim}",
                        k.0,
                        k.1,
                        if k.2 { "accept" } else { "connect" }
                    ));
                }
            }
            for (idx, s) in case.sessions.iter().enumerate() {
                for is_opener in [true, false] {
                    let done = g.done_parties.contains(&(idx, is_opener));
                    // a session whose capability cannot carry a stream (limit 0 on either end) must stay pending
                    let blocked = expect_blocked.contains(&(idx, true)) || expect_blocked.contains(&(idx, false));
                    if blocked && g.opened_parties.contains(&(idx, is_opener)) {
                        return Err(format!("session {idx}: a stream was opened on capability {} although the agreed limit is 0", s.cap));
                    }
                    if !blocked && !done {
                        // more openers than acceptors on a capability never happens: sessions are paired
                        return Err(format!(
                            "deadlock: session {idx} (cap {}, opener_is_a={}, party opener={is_opener}) did not complete although every stream is read to the end (opened={})",
                            s.cap,
                            s.opener_is_a,
                            g.opened_parties.contains(&(idx, is_opener))
                        ));
                    }
                }
            }
            // completeness: every stream that was sent was received exactly once, completely and in order with EOS
            // (or exactly the written prefix when the sender dropped it). Parties are paired by the multiplexer, not
            // by session index, so a stream may legitimately be unreceived only if its counterpart is a party that
            // dropped its stream early; those are counted per (receiving side, capability, role).
            let mut unreceived: BTreeMap<(bool, u64, bool), i64> = BTreeMap::new();
            for (serial, (cap, sender_a, sender_opener, total, written)) in &g.sent {
                let Some(written) = written else { continue };
                match g.received.get(serial) {
                    None => *unreceived.entry((!*sender_a, *cap, !*sender_opener)).or_default() += 1,
                    Some((got, eos)) => {
                        if !eos || got != written {
                            return Err(format!(
                                "stream serial {serial} (cap {cap}): {written} of {total} payload bytes were written before the sender closed / dropped it, its counterpart received {got} (eos={eos})"
                            ));
                        }
                    }
                }
            }
            for ((side_a, cap, opener), n) in unreceived {
                let droppers = case
                    .sessions
                    .iter()
                    .enumerate()
                    .filter(|(idx, s)| {
                        let script = if opener { &s.opener } else { &s.acceptor };
                        s.cap == cap
                            && (s.opener_is_a == opener) == side_a
                            && (script.abort_after_chunks.is_some() || script.abort_read_after.is_some())
                            && g.party_received.get(&(*idx, opener)) == Some(&None)
                    })
                    .count() as i64;
                if n > droppers {
                    return Err(format!(
                        "{n} streams sent towards side_a={side_a} capability {cap} (receiver is opener={opener}) were never delivered, but only {droppers} receiving parties dropped their stream early"
                    ));
                }
            }
            Ok(())
        })();
        // classification
        let concurrent = g.open.values().any(|(_, max)| *max >= 2);
        let multi_frame = case.sessions.iter().any(|s| s.opener.chunks.iter().chain(&s.acceptor.chunks).any(|c| *c as u64 > case.a.write_frame_size.min(case.b.write_frame_size)));
        let aborts = case.sessions.iter().any(|s| s.opener.abort_after_chunks.is_some() || s.acceptor.abort_after_chunks.is_some() || s.opener.abort_read_after.is_some() || s.acceptor.abort_read_after.is_some());
        if concurrent {
            st.class("concurrent_streams_on_one_capability");
        }
        if multi_frame {
            st.class("multi_frame_writes");
        }
        if aborts {
            st.class("stream_dropped_early");
        }
        if !expect_blocked.is_empty() {
            st.class("capability_without_streams");
        }
        if g.abandoned_flushes > 0 {
            st.class("flush_abandoned_and_repeated");
            st.count("abandoned_flushes", g.abandoned_flushes);
        }
        st.max("max_sessions", case.sessions.len() as u64);
        if concurrent && multi_frame {
            st.nontrivial(common::fingerprint(case));
        }
        st.sample(|| serde_json::to_value(case).unwrap());
        drop(g);
        drop(queues);
        life.end(tasks).await;
        let _ = (run_a.await, run_b.await);
        res
    })
}

// ---------------------------------------------------------------------------------------------
// non-cooperative peer

#[derive(Debug, Clone, Serialize, Deserialize, Hash)]
pub struct FloodCase {
    cfg: SideCfg,
    /// Streams the peer opens (all on capability 0, CONNECT kind).
    streams: u8,
    /// Whether the local application accepts the streams (and then does not read) or never accepts.
    app_accepts: bool,
    /// Flood frames: (stream selector, DATA length 1..=65535, close after?).
    frames: Vec<(u8, u16)>,
    /// Finally let the application read everything.
    drain: bool,
    /// Control-frame flood instead of a DATA flood: this many CLOSE frames (no DATA at all), cycling over the streams.
    #[serde(default)]
    control: u16,
    /// After the flood the application reads these many bytes, one read at a time, and stalls again after each
    /// (one stream only, so that a read can never be blocked behind another stream's unread frames).
    #[serde(default)]
    partial: Vec<u16>,
}

pub fn gen_flood(ch: &mut Choices) -> FloodCase {
    let read_frame_size = ch.pick(&[16u64, 100, 1000, 4096, 16384]);
    let cfg = SideCfg {
        read_frame_size,
        read_buffer_size: read_frame_size * ch.range(1, 10),
        read_frame_count: ch.range(1, 40),
        write_frame_size: 1000,
        caps: vec![CapCfg { id: 0, accept: 4, connect: 4 }],
    };
    let budget = (cfg.read_buffer_size * ch.range(4, 12)) as usize;
    let mut frames = vec![];
    let mut total = 0usize;
    while total < budget && frames.len() < 4000 {
        let len = match ch.below(6) {
            0 => 1,
            1 => 65535,
            2 => cfg.read_frame_size as u16,
            3 => (cfg.read_frame_size + 1).min(65535) as u16,
            _ => ch.range(1, 65535) as u16,
        };
        total += len as usize;
        frames.push((ch.below(4) as u8, len));
    }
    let control = if ch.chance(1, 4) { (cfg.read_frame_count as u16) * ch.range(2, 5) as u16 + ch.range(3, 60) as u16 } else { 0 };
    if control > 0 {
        frames.clear();
    }
    let mut case = FloodCase { cfg, streams: 1 + ch.below(4) as u8, app_accepts: ch.bool(), frames, drain: ch.chance(2, 3), control, partial: vec![] };
    if control == 0 && ch.chance(1, 3) {
        // the application reads in pieces that do not line up with frame boundaries and stalls in between
        case.streams = 1;
        case.app_accepts = true;
        let rfs = case.cfg.read_frame_size as usize;
        for _ in 0..ch.range(1, 12) {
            let k = match ch.below(6) {
                0 => 1,
                1 => rfs.saturating_sub(1).max(1),
                2 => rfs + 1,
                3 => rfs / 2 + 1,
                4 => 3 * rfs + 1,
                _ => ch.range(1, 4 * rfs as u64) as usize,
            };
            case.partial.push(k.min(u16::MAX as usize) as u16);
        }
    }
    case
}

const OPEN: u16 = 0;
const DATA: u16 = 0x4000;
const CLOSE: u16 = 0x8000;
const KIND_CONNECT: u16 = 0x2000;

fn mux_handshake_frame(accept: &[(u64, u32)], connect: &[(u64, u32)]) -> Vec<u8> {
    fn varint(out: &mut Vec<u8>, mut x: u64) {
        loop {
            let b = (x & 0x7f) as u8;
            x >>= 7;
            if x == 0 {
                out.push(b);
                break;
            }
            out.push(b | 0x80);
        }
    }
    let mut body = vec![];
    for (field, list) in [(5u64, accept), (6u64, connect)] {
        for (id, max) in list {
            let mut cap = vec![];
            cap.push(0x08);
            varint(&mut cap, *id);
            cap.push(0x10);
            varint(&mut cap, *max as u64);
            varint(&mut body, field << 3 | 2);
            varint(&mut body, cap.len() as u64);
            body.extend(cap);
        }
    }
    let mut f = (body.len() as u32).to_le_bytes().to_vec();
    f.extend(body);
    f
}

pub fn check_flood(case: &FloodCase, st: &mut Stats) -> Result<(), String> {
    det::run(|| async {
        let life = det::Life::new();
        let ctx = life.child();
        let to_local = Pipe::unbounded();
        let from_local = Pipe::unbounded();
        let (local_end, raw) = duplex(from_local.clone(), to_local.clone());
        // `raw` is unused as an object: the adversary injects bytes directly
        let mut m = Mux::new(mux_cfg(&case.cfg));
        let acc = m.accept(&ctx, 0, 4, limiter::Rate::INF);
        let _con = m.connect(&ctx, 0, 4, limiter::Rate::INF);
        let run_result: Arc<Mutex<Option<Result<(), String>>>> = Arc::default();
        let run = tokio::spawn({
            let ctx = ctx.clone_ctx();
            let slot = run_result.clone();
            async move {
                let r = m.run(&ctx, local_end).await;
                *slot.lock().unwrap() = Some(r);
            }
        });
        let mut app_tasks: Vec<tokio::task::JoinHandle<()>> = vec![];
        let held: Arc<Mutex<Vec<MuxStream>>> = Arc::default();
        let res: Result<(), String> = async {
        let nstreams = case.streams.min(4) as u16;
        to_local.inject(&mux_handshake_frame(&[(0, 4)], &[(0, 4)]));
        for id in 0..nstreams {
            to_local.inject(&(OPEN | KIND_CONNECT | id).to_le_bytes());
        }
        // application side
        if case.app_accepts {
            for _ in 0..nstreams {
                let (ctx, acc, held) = (ctx.clone_ctx(), acc.clone(), held.clone());
                app_tasks.push(tokio::spawn(async move {
                    if let Ok(s) = acc.open(&ctx).await {
                        held.lock().unwrap().push(s);
                    }
                }));
            }
        }
        det::barrier().await;
        if let Some(r) = run_result.lock().unwrap().clone() {
            return Err(format!("Mux::run ended during a valid handshake / OPEN: {r:?}"));
        }
        let base = to_local.stats().1;
        if std::env::var("VERIF_DEBUG").is_ok() { eprintln!("after open: held={} pulled={} from_local_written={}", held.lock().unwrap().len(), base, from_local.stats().0); }
        // flood
        let mut sent: BTreeMap<u16, u64> = BTreeMap::new();
        let mut total = 0u64;
        for (sel, len) in &case.frames {
            let id = (*sel as u16) % nstreams;
            let off = sent.entry(id).or_default();
            let mut f = (DATA | KIND_CONNECT | id).to_le_bytes().to_vec();
            f.extend(len.to_le_bytes());
            f.extend(prg_bytes(1000 + id as u64, *off, *len as usize));
            *off += *len as u64;
            total += *len as u64 + 4;
            to_local.inject(&f);
        }
        if case.control > 0 {
            // control frames carry no data but each of them is a frame the multiplexer holds until the application gets to it
            for k in 0..case.control {
                to_local.inject(&(CLOSE | KIND_CONNECT | (k % nstreams)).to_le_bytes());
            }
            det::barrier().await;
            let pulled = to_local.stats().1 - base;
            let bound = 2 * (case.cfg.read_frame_count + 1);
            st.class("control_frame_flood");
            if case.control as u64 > case.cfg.read_frame_count + 1 {
                st.nontrivial(common::fingerprint(case));
            }
            st.sample(|| serde_json::json!({"cfg": case.cfg, "streams": nstreams, "close_frames": case.control, "pulled": pulled, "bound": bound}));
            if let Some(r) = run_result.lock().unwrap().clone() {
                return Err(format!("Mux::run ended while being flooded with CLOSE frames on open streams: {r:?}"));
            }
            if pulled > bound {
                return Err(format!(
                    "the multiplexer pulled {pulled} bytes = {} CLOSE frames from the transport while the application was not reading; read_frame_count is {} (at most that many frames held plus one header read ahead = {bound} bytes)",
                    pulled / 2,
                    case.cfg.read_frame_count
                ));
            }
            return Ok(());
        }
        det::barrier().await;
        let pulled = to_local.stats().1 - base;
        let bound = case.cfg.read_buffer_size + 4 * (case.cfg.read_frame_count + 1);
        st.class(if case.app_accepts { "application_accepted_but_does_not_read" } else { "application_never_accepts" });
        st.max("max_flood_bytes", total);
        // the flood must actually have reached the limits: everything admitted up to the last frame that fits
        let saturated = pulled + case.cfg.read_frame_size + 4 >= case.cfg.read_buffer_size.min(total);
        if saturated {
            st.class("flood_saturated_the_buffer");
        }
        if total >= 4 * case.cfg.read_buffer_size && saturated {
            st.nontrivial(common::fingerprint(case));
        }
        st.sample(|| serde_json::json!({"cfg": case.cfg, "streams": nstreams, "frames": case.frames.len(), "flood_bytes": total, "pulled": pulled, "bound": bound}));
        if let Some(r) = run_result.lock().unwrap().clone() {
            return Err(format!("Mux::run ended while being flooded with well-formed DATA frames: {r:?}"));
        }
        if pulled > bound {
            return Err(format!(
                "the multiplexer pulled {pulled} bytes from the transport while the application was not reading; configured read_buffer_size {} + 4*(read_frame_count {} + 1) = {bound}",
                case.cfg.read_buffer_size, case.cfg.read_frame_count
            ));
        }
        // partial reads: the application consumes a few bytes at a time and stalls again. Whatever it has not consumed is
        // still held by the multiplexer, so the payload pulled from the transport may never exceed consumed + buffer size
        let mut consumed: u64 = 0;
        if !case.partial.is_empty() && case.app_accepts && nstreams == 1 {
            let mut s = match held.lock().unwrap().pop() {
                Some(s) => s,
                None => return Err("the opened stream was not handed to the application".into()),
            };
            st.class("partial_reads_between_stalls");
            let payload_of = |pulled: u64| -> (u64, u64) {
                // (payload bytes, frames started) among the first `pulled` flood bytes (all frames are on stream 0)
                let (mut left, mut payload, mut started) = (pulled, 0u64, 0u64);
                for (_, len) in &case.frames {
                    if left == 0 {
                        break;
                    }
                    started += 1;
                    let whole = 4 + *len as u64;
                    if left >= whole {
                        payload += *len as u64;
                        left -= whole;
                    } else {
                        payload += left.saturating_sub(4);
                        left = 0;
                    }
                }
                (payload, started)
            };
            let mut got: Vec<u8> = vec![];
            let mut worst: u64 = 0;
            for k in &case.partial {
                let avail = total - 4 * case.frames.len() as u64 - consumed;
                let k = (*k as u64).min(avail) as usize;
                if k == 0 {
                    break;
                }
                let mut fut = Box::pin(s.read_exact(&ctx, k));
                let r = det::until_quiescent(&mut fut).await;
                drop(fut);
                match r {
                    Some(Ok(d)) if d.len() == k => got.extend(d),
                    Some(Ok(d)) => return Err(format!("a read of {k} bytes returned {} bytes although the peer has sent more and has not closed the stream", d.len())),
                    Some(Err(e)) => return Err(format!("a read of {k} bytes failed during the flood: {e:#}")),
                    None => return Err(format!("a read of {k} bytes did not complete although the peer had sent {avail} more bytes on this stream (the only one)")),
                }
                consumed += k as u64;
                det::barrier().await;
                let (payload, _) = payload_of(to_local.stats().1 - base);
                let unconsumed = payload - consumed;
                worst = worst.max(unconsumed);
                if unconsumed > case.cfg.read_buffer_size {
                    return Err(format!(
                        "after the application had consumed {consumed} bytes in unaligned pieces the multiplexer had pulled {payload} payload bytes from the transport: {unconsumed} bytes received but not consumed, read_buffer_size is {}",
                        case.cfg.read_buffer_size
                    ));
                }
            }
            st.max("max_unconsumed_after_partial_reads_permille_of_buffer", worst * 1000 / case.cfg.read_buffer_size);
            if got != prg_bytes(1000, 0, got.len()) {
                return Err("the bytes obtained by partial reads are not the bytes the peer sent".into());
            }
            if consumed > 0 && total >= 4 * case.cfg.read_buffer_size {
                st.nontrivial(common::fingerprint(&(case, "partial")));
            }
            held.lock().unwrap().push(s);
        }
        // drain: once the application reads, everything must arrive in order
        if case.drain && case.app_accepts {
            let streams = std::mem::take(&mut *held.lock().unwrap());
            if streams.len() != nstreams as usize {
                return Err(format!("only {} of {nstreams} opened streams were handed to the application", streams.len()));
            }
            // the peer now ends every stream, so that each reader terminates at EOS
            for id in 0..nstreams {
                to_local.inject(&(CLOSE | KIND_CONNECT | id).to_le_bytes());
            }
            let results: Arc<Mutex<Vec<Result<u16, String>>>> = Arc::default();
            let mut readers = vec![];
            for mut s in streams {
                let (ctx, results, sent) = (ctx.clone_ctx(), results.clone(), sent.clone());
                readers.push(tokio::spawn(async move {
                    let mut got: Vec<u8> = vec![];
                    loop {
                        match s.read_exact(&ctx, 4096).await {
                            Ok(d) => {
                                let n = d.len();
                                got.extend(d);
                                if n < 4096 {
                                    break;
                                }
                            }
                            Err(e) => {
                                results.lock().unwrap().push(Err(format!("read failed: {e:#}")));
                                return;
                            }
                        }
                    }
                    let id = (0..4u16).find(|id| {
                        let t = sent.get(id).copied().unwrap_or(0);
                        t >= consumed && t - consumed == got.len() as u64 && got == prg_bytes(1000 + *id as u64, consumed, (t - consumed) as usize)
                    });
                    results.lock().unwrap().push(match id {
                        Some(id) if !got.is_empty() || consumed > 0 => Ok(id),
                        Some(_) => Ok(u16::MAX),
                        None => Err(format!("a flooded stream delivered {} bytes that are not exactly the bytes sent on one stream", got.len())),
                    });
                }));
            }
            det::barrier().await;
            let res = results.lock().unwrap().clone();
            for t in readers {
                t.abort();
            }
            if let Some(Err(e)) = res.iter().find(|r| r.is_err()) {
                return Err(format!("after the flood: {e}"));
            }
            if res.len() != nstreams as usize {
                return Err(format!(
                    "after the flood only {} of {nstreams} streams reached end-of-stream once the application started reading (lost wake-up / permits not released)",
                    res.len()
                ));
            }
            let mut ids: Vec<u16> = res.iter().filter_map(|r| r.clone().ok()).filter(|id| *id != u16::MAX).collect();
            ids.sort();
            let mut want: Vec<u16> = sent.iter().filter(|(_, t)| **t > 0).map(|(id, _)| *id).collect();
            want.sort();
            if ids != want {
                return Err(format!("after the flood the streams with data were {want:?} but the application received the data of {ids:?}"));
            }
            st.class("drained_after_flood");
        }
        Ok(())
        }
        .await;
        for t in &app_tasks {
            t.abort();
        }
        held.lock().unwrap().clear();
        drop(acc);
        drop(_con);
        life.end(Vec::<tokio::task::JoinHandle<()>>::new()).await;
        let _ = run.await;
        drop(raw);
        res
    })
}

pub fn main(env: &Env) -> i32 {
    if let Mode::Replay(path) = env.mode() {
        let (part, case) = Env::read_replay(&path);
        let r = match part.as_str() {
            "streams" => common::replay_case::<Case>(case, check),
            "flood" => common::replay_case::<FloodCase>(case, check_flood),
            p => Err(format!("unknown part {p}")),
        };
        return env.finish_replay(&path, r);
    }
    let mut parts: Vec<PartReport> = vec![];
    parts.extend(common::run_regress::<Case>(env, "streams", check));
    parts.extend(common::run_regress::<FloodCase>(env, "flood", check_flood));
    parts.push(run_proptest(
        env,
        "streams",
        "two real multiplexers over a scripted in-memory pipe (capacity 1..1M, Pending / 1-3 byte fragments) with independent configs (1-3 capabilities, possibly different ids per side, accept/connect limits 0-4, read frame 16-4096, buffer 1-6 frames, count 2-32, write frame 1-65535) \
         and 1..10 sessions; each party opens/accepts on its capability, writes header(cap, serial, len) + PRG(serial) in chunks {0,1,15,16,17,200,4096,5000,20000} with optional flush, reads concurrently in pieces {1,3,16,100,5000}, and either closes orderly or drops the stream after k chunks. \
         Oracle at quiescence: no cross-talk (capability, direction, serial, exactly once), every stream complete and in order with EOS only at its end (or exactly the written prefix when the sender dropped it), open streams per (side, capability, direction) <= min of the two announced limits, \
         sessions on a capability with agreed limit 0 never open, all other sessions complete (no deadlock), Mux::run still running. Non-trivial = >= 2 streams open at once on one capability and multi-frame writes",
        PartOpts { cases: env.tier.pick(4_000, 100_000), max_shrink_iters: 300, samples: 2 },
        || Choices::strategy(400).prop_map(|mut ch| gen_case(&mut ch)),
        check,
    ));
    parts.push(run_proptest(
        env,
        "flood",
        "a raw peer completes the mux handshake, opens 1-4 streams and floods them with DATA frames of length {1, 65535, frame, frame+1, random} totalling 4-12x the read buffer while the application either holds the accepted streams without reading or never accepts; \
         oracle: bytes pulled from the transport since the flood began <= read_buffer_size + 4*(read_frame_count+1), Mux::run keeps running, and when the application finally reads, every flooded stream delivers exactly its bytes in order. Non-trivial = flood >= 4x buffer",
        PartOpts { cases: env.tier.pick(1_500, 40_000), max_shrink_iters: 200, samples: 2 },
        || Choices::strategy(9000).prop_map(|mut ch| gen_flood(&mut ch)),
        check_flood,
    ));
    env.finish(
        "exploration",
        "generated workloads and floods against the real multiplexer on a deterministic runtime; completeness is asserted only for programs whose readers run concurrently with their writers (head-of-line blocking is documented)",
        &["zero-length DATA frames and frames addressed to a stream that is not open hold no memory and are outside the flow-control bound; they are generated under C10"],
        parts,
    )
}
