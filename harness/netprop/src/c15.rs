//! C15 Rate and concurrency limits are enforced on every RPC stream.
use std::{
    collections::{BTreeMap, BTreeSet},
    sync::{
        atomic::{AtomicI64, Ordering},
        Arc, Mutex,
    },
};

use common::{det, run_proptest, Choices, Env, Mode, PartOpts, PartReport, Stats};
use proptest::prelude::*;
use serde::{Deserialize, Serialize};
use zksync_concurrency::{ctx, limiter, scope, time};
use zksync_consensus_network::verif::{self as hook, Mux, MuxConfig, Wire};
use zksync_consensus_roles::validator;

use crate::{
    netvalues,
    pipe::{duplex, Pipe},
};

// ---------------------------------------------------------------------------------------------
// (a) the limiter

#[derive(Debug, Clone, Serialize, Deserialize, Hash, PartialEq)]
pub enum Op {
    /// Task `id` starts acquiring `p` permits.
    Acquire(usize, usize),
    /// Task `id` stops waiting (or, if it already holds its permits, drops them).
    Cancel(usize),
    /// Task `id` drops its permits.
    Release(usize),
    /// The clock advances by this many nanoseconds.
    Advance(u64),
    /// Task `id` starts acquiring `p` permits and gives up at the same clock instant, before anything else happens.
    AcquireCancel(usize, usize),
    /// Several tasks start acquiring within one step, in this (arrival) order.
    Burst(Vec<(usize, usize)>),
    /// Several simple operations within one step: no task runs between them (e.g. a permit is
    /// released and the clock jumps before the sleeping waiter is polled again).
    Group(Vec<Op>),
}

#[derive(Debug, Clone, Serialize, Deserialize, Hash)]
pub struct Case {
    burst: usize,
    refresh_ns: u64,
    ops: Vec<Op>,
}

pub fn gen_case(ch: &mut Choices) -> Case {
    let burst = 1 + ch.below(8);
    let r = ch.pick(&[1u64, 7, 1_000, 1_000_000_000, 10_000_000_000]);
    let n = 2 + ch.below(30);
    let mut ops = vec![];
    let mut next = 0usize;
    let mut live: Vec<usize> = vec![];
    // greedy phrase: take single permits and give them back at once, `k` times, at one clock instant -
    // whatever the bucket holds (or wrongly believes it holds) is pulled out and counted by the window oracle
    let drain = |ops: &mut Vec<Op>, live: &mut Vec<usize>, next: &mut usize, k: usize| {
        for _ in 0..k {
            ops.push(Op::Acquire(*next, 1));
            ops.push(Op::Release(*next));
            live.push(*next);
            *next += 1;
        }
    };
    for _ in 0..n {
        if ch.chance(1, 12) {
            // directed phrase: hold some permits, empty the bucket, park a waiter in its sleep, then return held
            // permits and jump the clock within one step (the release is processed at the new time before the
            // sleeper runs), and finally pull out everything that is available
            let held = 1 + ch.below(burst.min(3));
            let first = next;
            for _ in 0..held {
                ops.push(Op::Acquire(next, 1));
                live.push(next);
                next += 1;
            }
            let k = (burst - held) + ch.below(2);
            drain(&mut ops, &mut live, &mut next, k);
            let sleeper = next;
            ops.push(Op::Acquire(next, 1 + ch.below(2)));
            live.push(next);
            next += 1;
            let jump = (1 + ch.below(2 * burst + 3)) as u64 * r + ch.pick(&[0u64, 0, r / 2]);
            let mut g: Vec<Op> = (0..1 + ch.below(held)).map(|i| Op::Release(first + i)).collect();
            if ch.chance(3, 4) {
                g.push(Op::Advance(jump));
            } else {
                g.insert(0, Op::Advance(jump));
            }
            ops.push(Op::Group(g));
            if ch.chance(2, 3) {
                ops.push(Op::Release(sleeper));
            }
            let k = ch.below(2 * burst + 4);
            drain(&mut ops, &mut live, &mut next, k);
            continue;
        }
        if ch.chance(1, 12) {
            let k = 1 + ch.below(burst + 2);
            drain(&mut ops, &mut live, &mut next, k);
            continue;
        }
        if ch.chance(1, 14) {
            // directed phrase: the limiter idles for very many refresh periods (around 2^31, 2^32, 2^40 ticks: tick
            // counters of any width narrower than the clock give way here), then everything available is pulled out at
            // one instant and counted by the window oracle
            let ticks = ch.pick(&[(1u64 << 31) - 1, 1 << 31, (1 << 31) + 3, (1 << 32) + 1, 1 << 33, 1 << 40]);
            ops.push(Op::Advance(r.saturating_mul(ticks).min(1 << 61) + ch.pick(&[0u64, 0, r / 2])));
            let k = burst + 1 + ch.below(burst + 4);
            drain(&mut ops, &mut live, &mut next, k);
            if ch.bool() {
                ops.push(Op::Advance(r));
                let k = 1 + ch.below(burst + 3);
                drain(&mut ops, &mut live, &mut next, k);
            }
            continue;
        }
        ops.push(match ch.below(10) {
            0 | 1 | 2 | 3 => {
                let p = match ch.below(8) {
                    0 => 0,
                    1 => burst,
                    2 => burst + 1,
                    _ => 1 + ch.below(burst),
                };
                live.push(next);
                next += 1;
                Op::Acquire(next - 1, p)
            }
            4 if !live.is_empty() => Op::Cancel(ch.pick(&live)),
            9 => {
                next += 1;
                Op::AcquireCancel(next - 1, 1 + ch.below(burst))
            }
            8 => {
                let k = 2 + ch.below(4);
                let v: Vec<(usize, usize)> = (0..k)
                    .map(|_| {
                        live.push(next);
                        next += 1;
                        (next - 1, 1 + ch.below(burst))
                    })
                    .collect();
                Op::Burst(v)
            }
            5 | 6 if !live.is_empty() => Op::Release(ch.pick(&live)),
            7 if !live.is_empty() && ch.chance(1, 2) => {
                let k = 2 + ch.below(3);
                let mut v = vec![];
                for _ in 0..k {
                    v.push(match ch.below(5) {
                        0 => {
                            live.push(next);
                            next += 1;
                            Op::Acquire(next - 1, 1 + ch.below(burst))
                        }
                        1 => Op::Cancel(ch.pick(&live)),
                        2 | 3 => Op::Release(ch.pick(&live)),
                        _ => Op::Advance(match ch.below(4) {
                            0 => r,
                            1 => 2 * r,
                            2 => 3 * r + r / 2,
                            _ => (burst as u64 + 2) * r,
                        }),
                    });
                }
                Op::Group(v)
            }
            _ => Op::Advance(match ch.below(7) {
                0 => 0,
                1 => r / 2,
                2 => r,
                3 => r + 1,
                4 => 3 * r,
                5 => burst as u64 * r,
                _ => ch.range(0, 5) * r + ch.range(0, r.min(1000)),
            }),
        });
    }
    Case { burst, refresh_ns: r, ops }
}

struct TaskCtl {
    cancel: Arc<tokio::sync::Notify>,
    release: Arc<tokio::sync::Notify>,
    handle: tokio::task::JoinHandle<()>,
}

#[derive(Default, Debug, Clone, PartialEq)]
struct Timeline {
    /// (task, clock in ns since start, permits) in grant order.
    grants: Vec<(usize, i128, usize)>,
    ended: BTreeSet<usize>,
}

/// Runs the program; `skip` = tasks to leave out entirely. Returns the timeline or a violation.
async fn run_program(case: &Case, skip: &BTreeSet<usize>, drain: bool) -> Result<(Timeline, BTreeSet<usize>), String> {
    let life = det::Life::new();
    let t0 = life.clock.now();
    let lim = Arc::new(limiter::Limiter::new(&life.ctx, limiter::Rate { burst: case.burst, refresh: time::Duration::nanoseconds(case.refresh_ns as i64) }));
    let tl = Arc::new(Mutex::new(Timeline::default()));
    let mut tasks: BTreeMap<usize, TaskCtl> = BTreeMap::new();
    let mut perm: BTreeMap<usize, usize> = BTreeMap::new();
    let mut cancelled_before_grant: BTreeSet<usize> = BTreeSet::new();
    let mut holders: BTreeSet<usize> = BTreeSet::new();
    let mut acquire_order: Vec<usize> = vec![];
    let clock = life.clock.clone();
    let res: Result<(), String> = async {
        let step = |tl: &Timeline, holders: &mut BTreeSet<usize>, perm: &BTreeMap<usize, usize>, what: String| -> Result<(), String> {
            // new grants
            for (id, _, _) in &tl.grants {
                if !tl.ended.contains(id) {
                    holders.insert(*id);
                }
            }
            holders.retain(|id| !tl.ended.contains(id));
            let held: usize = holders.iter().map(|id| perm[id]).sum();
            if held > case.burst {
                return Err(format!("{what}: {held} permits are held at once, burst is {}", case.burst));
            }
            Ok(())
        };
        let expanded: Vec<Op> = case
            .ops
            .iter()
            .flat_map(|op| match op {
                Op::AcquireCancel(id, p) => vec![Op::Acquire(*id, *p), Op::Cancel(*id)],
                Op::Burst(v) => {
                    // all but the last are marked "no barrier" by a zero-length advance sentinel handled below
                    let mut out = vec![];
                    for (k, (id, p)) in v.iter().enumerate() {
                        out.push(Op::Acquire(*id, *p));
                        if k + 1 < v.len() {
                            out.push(Op::Burst(vec![]));
                        }
                    }
                    out
                }
                Op::Group(v) => {
                    let mut out = vec![];
                    for (k, o) in v.iter().enumerate() {
                        out.push(o.clone());
                        if k + 1 < v.len() {
                            out.push(Op::Burst(vec![]));
                        }
                    }
                    out
                }
                o => vec![o.clone()],
            })
            .collect();
        let mut skip_barrier_after: Vec<bool> = vec![false; expanded.len()];
        for i in 0..expanded.len() {
            if matches!(&expanded[i], Op::Burst(v) if v.is_empty()) && i > 0 {
                skip_barrier_after[i - 1] = true;
                skip_barrier_after[i] = true;
            }
        }
        for (i, op) in expanded.iter().enumerate() {
            match op {
                Op::AcquireCancel(..) | Op::Group(_) => unreachable!(),
                Op::Burst(_) => continue,
                Op::Acquire(id, p) => {
                    if skip.contains(id) {
                        continue;
                    }
                    perm.insert(*id, *p);
                    acquire_order.push(*id);
                    let (cancel, release) = (Arc::new(tokio::sync::Notify::new()), Arc::new(tokio::sync::Notify::new()));
                    let (c2, r2, lim, tl, clock, id, p, ctx) = (cancel.clone(), release.clone(), lim.clone(), tl.clone(), clock.clone(), *id, *p, life.child());
                    let handle = tokio::spawn(async move {
                        let (lim, tl, clock, r2, c2) = (&lim, &tl, &clock, &r2, &c2);
                        let _: Result<(), ctx::Canceled> = scope::run!(&ctx, |ctx, s| async move {
                            let done = Arc::new(tokio::sync::Notify::new());
                            let d2 = done.clone();
                            s.spawn_bg(async move {
                                if let Ok(permit) = lim.acquire(ctx, p).await {
                                    tl.lock().unwrap().grants.push((id, (clock.now() - t0).whole_nanoseconds(), p));
                                    tokio::select! {
                                        _ = r2.notified() => {},
                                        _ = ctx.canceled() => {},
                                    }
                                    drop(permit);
                                }
                                tl.lock().unwrap().ended.insert(id);
                                d2.notify_one();
                                Ok(())
                            });
                            tokio::select! {
                                _ = c2.notified() => {},
                                _ = done.notified() => {},
                            }
                            Ok(())
                        })
                        .await;
                    });
                    tasks.insert(id, TaskCtl { cancel, release, handle });
                }
                Op::Cancel(id) => {
                    if let Some(t) = tasks.get(id) {
                        if !tl.lock().unwrap().grants.iter().any(|g| g.0 == *id) {
                            cancelled_before_grant.insert(*id);
                        }
                        t.cancel.notify_one();
                    }
                }
                Op::Release(id) => {
                    if let Some(t) = tasks.get(id) {
                        if tl.lock().unwrap().grants.iter().any(|g| g.0 == *id) {
                            t.release.notify_one();
                        }
                    }
                }
                Op::Advance(ns) => clock.advance(time::Duration::nanoseconds(*ns as i64)),
            }
            if skip_barrier_after[i] {
                continue;
            }
            det::barrier().await;
            step(&tl.lock().unwrap(), &mut holders, &perm, format!("step {i} {op:?}"))?;
        }
        if drain {
            // liveness: with all permits returned and enough time, every waiter (p <= burst) is served
            let mut rounds = 0;
            loop {
                let snapshot = tl.lock().unwrap().clone();
                let waiting: Vec<usize> = acquire_order
                    .iter()
                    .copied()
                    .filter(|id| !snapshot.grants.iter().any(|g| g.0 == *id) && !snapshot.ended.contains(id) && perm[id] <= case.burst && !cancelled_before_grant.contains(id))
                    .collect();
                for (id, t) in &tasks {
                    if snapshot.grants.iter().any(|g| g.0 == *id) {
                        t.release.notify_one();
                    }
                }
                if waiting.is_empty() {
                    break;
                }
                rounds += 1;
                if rounds > 2 * acquire_order.len() + 4 {
                    return Err(format!(
                        "starvation: tasks {waiting:?} are still waiting although every permit was returned and the clock advanced by {rounds} full refills"
                    ));
                }
                clock.advance(time::Duration::nanoseconds((case.burst as u64 * case.refresh_ns) as i64 + 1));
                det::barrier().await;
                step(&tl.lock().unwrap(), &mut holders, &perm, format!("drain round {rounds}"))?;
            }
        }
        Ok(())
    }
    .await;
    let timeline = tl.lock().unwrap().clone();
    for t in tasks.values() {
        t.cancel.notify_one();
    }
    life.end(tasks.into_values().map(|t| t.handle).collect()).await;
    res?;
    // (1) window bound over all pairs of grant events
    let g = &timeline.grants;
    for i in 0..g.len() {
        let mut sum = 0u128;
        for j in i..g.len() {
            sum += g[j].2 as u128;
            let t = (g[j].1 - g[i].1) as u128;
            let bound = case.burst as u128 + t / case.refresh_ns as u128 + 1;
            if sum > bound {
                return Err(format!(
                    "{sum} permits were granted within a window of {t} ns (grants {i}..={j}: {:?}); burst {} + T/r + 1 = {bound} with r = {} ns",
                    &g[i..=j], case.burst, case.refresh_ns
                ));
            }
        }
    }
    // (2) arrival order
    let order: Vec<usize> = g.iter().map(|x| x.0).collect();
    let pos: BTreeMap<usize, usize> = acquire_order.iter().enumerate().map(|(i, id)| (*id, i)).collect();
    // zero-permit acquires and acquires on an infinite rate are granted without queueing; all others are FIFO
    let queued: Vec<usize> = order.iter().copied().filter(|id| perm[id] > 0).collect();
    if queued.windows(2).any(|w| pos[&w[0]] > pos[&w[1]]) {
        return Err(format!("waiting callers were not served in arrival order: grants {queued:?}, arrival order {acquire_order:?}"));
    }
    for (id, _, _) in g {
        if perm[id] > case.burst {
            return Err(format!("task {id} asked for {} permits with burst {} and was served", perm[id], case.burst));
        }
    }
    Ok((timeline, cancelled_before_grant))
}

pub fn check(case: &Case, st: &mut Stats) -> Result<(), String> {
    det::run(|| async {
        let none = BTreeSet::new();
        let (tl, cancelled) = run_program(case, &none, true).await?;
        // (3) metamorphic: a wait that is abandoned at the very instant it started, before anything else
        //     happens, consumes nothing: the same program without those waits must produce the same grants
        //     at the same clock readings. (Waits cancelled later may legitimately have delayed callers
        //     queued behind them - arrival order - so they are not part of this relation.)
        let cancelled: BTreeSet<usize> = cancelled
            .into_iter()
            .filter(|id| case.ops.iter().any(|o| matches!(o, Op::AcquireCancel(x, _) if x == id)))
            .collect();
        // A step that cancels a wait and moves the clock / returns permits at the same instant is a genuine race
        // (either outcome is allowed and other waiters may tip it), so such programs are outside the relation.
        let racy = case.ops.iter().any(|o| matches!(o, Op::Group(v) if v.iter().any(|x| matches!(x, Op::Cancel(_)))));
        if racy {
            st.class("cancel_races_with_clock_or_release");
        }
        if !cancelled.is_empty() && !racy {
            let (tl2, _) = run_program(case, &cancelled, true).await.map_err(|e| format!("without the cancelled waits: {e}"))?;
            if tl.grants != tl2.grants {
                return Err(format!(
                    "a cancelled wait changed what other callers got: with cancelled waits {cancelled:?} the grants are {:?}, without them {:?}",
                    tl.grants, tl2.grants
                ));
            }
            st.class("with_cancelled_waits");
        }
        let mut nontrivial = false;
        // a release while another acquire waits, and an advance that is not a multiple of r
        let mut waiting = 0i32;
        for op in &case.ops {
            match op {
                Op::Acquire(..) | Op::AcquireCancel(..) => waiting += 1,
                Op::Burst(v) => waiting += v.len() as i32,
                Op::Group(v) => {
                    waiting += v.iter().filter(|o| matches!(o, Op::Acquire(..))).count() as i32;
                    let rel = v.iter().position(|o| matches!(o, Op::Release(_)));
                    let adv = v.iter().rposition(|o| matches!(o, Op::Advance(_)));
                    if let (Some(r), Some(a)) = (rel, adv) {
                        if r < a && waiting >= 2 {
                            st.class("release_and_clock_jump_within_one_step");
                            nontrivial = true;
                        }
                    }
                }
                Op::Release(_) if waiting >= 2 => nontrivial = true,
                _ => {}
            }
        }
        let odd_advance = case.ops.iter().any(|o| matches!(o, Op::Advance(d) if d % case.refresh_ns != 0));
        if odd_advance {
            st.class("advance_not_multiple_of_refresh");
        }
        if nontrivial && (odd_advance || case.refresh_ns == 1) && tl.grants.len() >= 2 {
            st.nontrivial(common::fingerprint(case));
        }
        st.max("max_grants", tl.grants.len() as u64);
        st.sample(|| serde_json::json!({"case": case, "grants": tl.grants.iter().map(|g| (g.0, g.1 as u64, g.2)).collect::<Vec<_>>()}));
        Ok(())
    })
}

// ---------------------------------------------------------------------------------------------
// (b) per RPC stream: the real service against a client that opens calls as fast as the protocol lets it

#[derive(Debug, Clone, Serialize, Deserialize, Hash)]
pub struct SvcCase {
    burst: usize,
    refresh_ms: u64,
    /// How long each handler invocation runs (ms of manual clock), cycled.
    hold_ms: Vec<u64>,
    /// Number of concurrent client callers.
    callers: usize,
    calls_per_caller: usize,
    /// Clock advances (ms) driving the run.
    advances: Vec<u64>,
    ping: bool,
    /// The client stays idle for this long (in 4 clock steps) after the connection is up, then all callers start at once:
    /// whatever the server has made available in the meantime is taken at one instant.
    #[serde(default)]
    idle_ms: u64,
}

pub fn gen_svc(ch: &mut Choices) -> SvcCase {
    SvcCase {
        burst: 1 + ch.below(5),
        refresh_ms: ch.pick(&[1u64, 100, 1000]),
        hold_ms: (0..1 + ch.below(3)).map(|_| ch.pick(&[0u64, 1, 50, 500, 3000])).collect(),
        callers: 1 + ch.below(8),
        calls_per_caller: 1 + ch.below(4),
        advances: (0..5 + ch.below(30)).map(|_| ch.pick(&[0u64, 1, 10, 100, 250, 1000, 5000])).collect(),
        ping: ch.chance(1, 3),
        idle_ms: 0,
    }
    .with_idle(ch)
}

impl SvcCase {
    fn with_idle(mut self, ch: &mut Choices) -> Self {
        self.idle_ms = self.refresh_ms * ch.pick(&[0u64, 0, 0, 3, 10, 25]);
        self
    }
}

struct SlowHandler {
    clock: ctx::ManualClock,
    t0: time::Instant,
    hold_ms: Vec<u64>,
    starts: Mutex<Vec<i128>>,
    running: AtomicI64,
    max_running: AtomicI64,
}

#[async_trait::async_trait]
impl hook::ConsensusHandler for SlowHandler {
    async fn handle(&self, ctx: &ctx::Ctx, _msg: validator::Signed<validator::ConsensusMsg>) -> anyhow::Result<()> {
        let k = {
            let mut s = self.starts.lock().unwrap();
            s.push((self.clock.now() - self.t0).whole_milliseconds());
            s.len()
        };
        let r = self.running.fetch_add(1, Ordering::SeqCst) + 1;
        self.max_running.fetch_max(r, Ordering::SeqCst);
        let _ = ctx.sleep(time::Duration::milliseconds(self.hold_ms[k % self.hold_ms.len()] as i64)).await;
        self.running.fetch_sub(1, Ordering::SeqCst);
        Ok(())
    }
    fn max_req_size(&self) -> usize {
        1 << 20
    }
}

pub fn check_svc(case: &SvcCase, st: &mut Stats) -> Result<(), String> {
    det::run(|| async {
        let life = det::Life::new();
        let ctx = life.child();
        let (ea, eb) = duplex(Pipe::unbounded(), Pipe::unbounded());
        let table = hook::rpc_table();
        let entry = |name: &str| *table.iter().find(|t| t.0 == name).unwrap();
        let (rpc_name, wire_req) = if case.ping { ("ping", Wire::PingReq) } else { ("consensus", Wire::ConsensusReq) };
        let (_, cap, inflight) = entry(rpc_name);
        let rate = if case.ping { hook::ping_rate() } else { limiter::Rate { burst: case.burst, refresh: time::Duration::milliseconds(case.refresh_ms as i64) } };
        let handler = Arc::new(SlowHandler {
            clock: life.clock.clone(),
            t0: life.clock.now(),
            hold_ms: case.hold_ms.clone(),
            starts: Mutex::default(),
            running: 0.into(),
            max_running: 0.into(),
        });
        let node = tokio::spawn({
            let (ctx, handler, ping) = (life.child(), handler.clone(), case.ping);
            async move {
                let clients = hook::RpcClients::new(&ctx, None, None);
                hook::run_rpc_service(&ctx, eb, ping, if ping { None } else { Some((&*handler, rate)) }, &clients).await
            }
        });
        // the remote side: more streams than agreed, no rate limit of its own
        let mut m = Mux::new(MuxConfig::rpc());
        let q = m.accept(&ctx, cap, 64, limiter::Rate::INF);
        let peer = tokio::spawn({
            let ctx = life.child();
            async move { m.run(&ctx, ea).await }
        });
        let t0 = life.clock.now();
        let opens: Arc<Mutex<Vec<i128>>> = Arc::default();
        let open_now: Arc<AtomicI64> = Arc::new(0.into());
        let max_open: Arc<AtomicI64> = Arc::new(0.into());
        let req = netvalues::sample(wire_req, &mut Choices::new(vec![3; 40]));
        let mut callers = vec![];
        det::barrier().await;
        for _ in 0..4 {
            if case.idle_ms > 0 {
                life.clock.advance(time::Duration::milliseconds((case.idle_ms / 4).max(1) as i64));
                det::barrier().await;
            }
        }
        for _ in 0..case.callers {
            let (ctx, q, opens, clock, req, n, open_now, max_open) = (life.child(), q.clone(), opens.clone(), life.clock.clone(), req.clone(), case.calls_per_caller, open_now.clone(), max_open.clone());
            callers.push(tokio::spawn(async move {
                for _ in 0..n {
                    let Ok(mut s) = q.open(&ctx).await else { return };
                    // the server sent OPEN: it has started to serve one more request
                    opens.lock().unwrap().push((clock.now() - t0).whole_milliseconds());
                    let cur = open_now.fetch_add(1, Ordering::SeqCst) + 1;
                    max_open.fetch_max(cur, Ordering::SeqCst);
                    let mut f = (req.len() as u32).to_le_bytes().to_vec();
                    f.extend_from_slice(&req);
                    if s.write_all(&ctx, &f).await.is_err() || s.flush(&ctx).await.is_err() {
                        return;
                    }
                    s.close_write();
                    let _ = s.read_exact(&ctx, 4).await;
                    let _ = s.read_exact(&ctx, 1 << 16).await;
                    open_now.fetch_sub(1, Ordering::SeqCst);
                    drop(s);
                }
            }));
        }
        det::barrier().await;
        for a in &case.advances {
            life.clock.advance(time::Duration::milliseconds(*a as i64));
            det::barrier().await;
        }
        let opens_v = opens.lock().unwrap().clone();
        let starts_v = handler.starts.lock().unwrap().clone();
        let res = (|| {
            let r_ms = rate.refresh.whole_milliseconds().max(1) as u128;
            for (what, ev) in [("sub-streams opened by the server", &opens_v), ("handler invocations", &starts_v)] {
                for i in 0..ev.len() {
                    for j in i..ev.len() {
                        let t = (ev[j] - ev[i]) as u128;
                        let bound = rate.burst as u128 + t / r_ms + 1;
                        if (j - i + 1) as u128 > bound {
                            return Err(format!(
                                "{} {what} within {t} ms (times {:?}); configured burst {} + T/{r_ms} ms + 1 = {bound}",
                                j - i + 1,
                                &ev[i..=j],
                                rate.burst
                            ));
                        }
                    }
                }
            }
            if handler.max_running.load(Ordering::SeqCst) > inflight as i64 {
                return Err(format!("{} handlers ran concurrently, the in-flight limit of {rpc_name} is {inflight}", handler.max_running.load(Ordering::SeqCst)));
            }
            if max_open.load(Ordering::SeqCst) > inflight as i64 {
                return Err(format!("{} sub-streams of {rpc_name} were open at once, the in-flight limit is {inflight}", max_open.load(Ordering::SeqCst)));
            }
            Ok(())
        })();
        st.class(rpc_name);
        if case.idle_ms > 0 {
            st.class("client_idles_then_fires_everything_at_once");
        }
        st.max("max_requests_started", opens_v.len() as u64);
        if opens_v.len() > rate.burst + 1 && case.callers > inflight as usize {
            st.nontrivial(common::fingerprint(case));
        }
        st.sample(|| serde_json::json!({"case": case, "server_open_times_ms": opens_v.iter().map(|x| *x as u64).collect::<Vec<_>>(), "handler_start_times_ms": starts_v.iter().map(|x| *x as u64).collect::<Vec<_>>()}));
        drop(q);
        let mut tasks = vec![];
        for c in callers {
            tasks.push(c);
        }
        life.end(vec![node, peer]).await;
        for t in tasks {
            t.abort();
        }
        res
    })
}


// ---------------------------------------------------------------------------------------------
// the configured per-RPC rates on a live gossip connection

/// A real gossip node serves one connection (real handler, real rpc::Service with the rates of its configuration);
/// the harness is the peer (real preface, noise, handshake, its own multiplexer) and opens calls of one RPC kind as
/// fast as the protocol lets it.
#[derive(Debug, Clone, Serialize, Deserialize, Hash)]
pub struct LiveRateCase {
    /// 0 = get_block, 1 = push_block_store_state.
    rpc: u8,
    burst: u8,
    refresh_ms: u8,
    /// Calls beyond the burst.
    extra: u8,
}

pub fn gen_live_rate(ch: &mut Choices) -> LiveRateCase {
    LiveRateCase { rpc: ch.below(2) as u8, burst: 1 + ch.below(4) as u8, refresh_ms: ch.pick(&[10u8, 20, 30]), extra: 4 + ch.below(6) as u8 }
}

pub fn check_live_rate(case: &LiveRateCase, st: &mut Stats) -> Result<(), String> {
    use rand::SeedableRng as _;
    use zksync_concurrency::scope;
    use zksync_consensus_engine::{testonly::in_memory, EngineManager};
    use zksync_consensus_network::verif::{self as hook, gossip::Node, Mux, MuxConfig, NoiseTcp};
    use zksync_consensus_roles::validator;
    let rt = tokio::runtime::Builder::new_current_thread().enable_all().build().unwrap();
    rt.block_on(async {
        let ctx = &ctx::root();
        let rng = &mut rand::rngs::StdRng::seed_from_u64(14);
        let mut setup = validator::testonly::Setup::new_without_pregenesis(rng, 1);
        setup.push_blocks_v2(rng, 2);
        let setup = &setup;
        let nk = gen::node_keys();
        let rate = limiter::Rate { burst: case.burst.max(1) as usize, refresh: time::Duration::milliseconds(case.refresh_ms.max(1) as i64) };
        let (name, wire_resp) = if case.rpc == 0 { ("get_block", hook::Wire::GetBlockResp) } else { ("push_block_store_state", hook::Wire::ConsensusResp) };
        let table = hook::rpc_table();
        let (cap, inflight) = table.iter().find(|t| t.0 == name).map(|t| (t.1, t.2)).unwrap();
        let total = case.burst as usize + case.extra as usize;
        let res: Result<std::time::Duration, String> = scope::run!(ctx, |ctx, s| async move {
            let eng = in_memory::Engine::new_random(setup, setup.first_block());
            let (mgr, run) = EngineManager::new(ctx, Box::new(eng), time::Duration::seconds(60)).await.map_err(|e| format!("INFRA: EngineManager::new: {e:?}"))?;
            s.spawn_bg(async { run.run(ctx).await.map_err(|e| format!("INFRA: engine runner: {e:#}")) });
            let mut cfg = crate::c12::gossip_cfg(&nk[9]);
            cfg.rpc.get_block_rate = if case.rpc == 0 { rate } else { limiter::Rate::INF };
            cfg.rpc.push_block_store_state_rate = if case.rpc == 1 { rate } else { limiter::Rate::INF };
            let a = std::sync::Arc::new(Node::new(cfg, mgr, Some(setup.epoch)));
            let mut l = hook::TcpListener::bind().await.map_err(|e| format!("INFRA: bind: {e:#}"))?;
            let addr = l.addr();
            let dial = async { NoiseTcp::preface_connect(ctx, addr, false).await.map_err(|e| format!("INFRA: preface_connect: {e:?}")) };
            let acc = async {
                let tcp = l.accept(ctx).await.map_err(|e| format!("INFRA: accept: {e:?}"))?;
                NoiseTcp::preface_accept(ctx, tcp).await.map_err(|e| format!("INFRA: preface: {e:?}")).map(|x| x.0)
            };
            let (mine, theirs) = tokio::join!(dial, acc);
            let (mut mine, theirs) = (mine?, theirs?);
            {
                let a = a.clone();
                s.spawn_bg(async move {
                    let _ = a.run_inbound_stream(ctx, theirs).await;
                    Ok(())
                });
            }
            let pcfg = crate::c12::gossip_cfg(&nk[3]);
            hook::gossip::handshake_outbound(ctx, &pcfg, setup.genesis.hash(), &mut mine, &nk[9].public()).await.map_err(|e| format!("INFRA: handshake of the scripted peer: {e}"))?;
            let mut m = Mux::new(MuxConfig::rpc());
            let calls = m.accept(ctx, cap, inflight, limiter::Rate::INF);
            s.spawn_bg(async move {
                let _ = m.run(ctx, mine).await;
                Ok(())
            });
            // the request: get_block(first block) / an announcement of the two blocks
            let request: Vec<u8> = if case.rpc == 0 {
                let mut r = vec![0x08];
                crate::c19::pb_varint(&mut r, setup.first_block().0);
                r
            } else {
                let validator::Block::FinalV2(b) = &setup.blocks[1] else { return Err("harness: chain material".into()) };
                let mut state = vec![0x08];
                crate::c19::pb_varint(&mut state, setup.first_block().0);
                state.extend(crate::c19::pb_len(2, &crate::c19::pb_len(3, &zksync_protobuf::encode(&b.justification))));
                crate::c19::pb_len(3, &state)
            };
            let start = std::time::Instant::now();
            let mut last_grant = start;
            for _ in 0..total {
                // the server opens a sub-stream only when its rate limiter grants a permit
                let mut call = calls.open(ctx).await.map_err(|_| "INFRA: opening a call".to_string())?;
                last_grant = std::time::Instant::now();
                call.write_all(ctx, &crate::c19::rpc_frame(&request)).await.map_err(|e| format!("INFRA: sending a request: {e:#}"))?;
                call.flush(ctx).await.map_err(|e| format!("INFRA: sending a request: {e:#}"))?;
                call.close_write();
                let resp = tokio::time::timeout(std::time::Duration::from_secs(10), call.read_exact(ctx, 4)).await.map_err(|_| "INFRA: a call was not answered within 10 s".to_string())?;
                if !matches!(&resp, Ok(h) if h.len() == 4) {
                    return Err(format!("the node did not answer a well-formed {name} call: {resp:?}"));
                }
            }
            let _ = wire_resp;
            Ok(last_grant - start)
        })
        .await;
        let span = res?;
        // `total` grants within `span` (measured from before the first grant until after the last one, so it can only be
        // longer than the true span): total <= burst + span / refresh + 1
        let need = std::time::Duration::from_millis((total as u64).saturating_sub(case.burst as u64 + 1) * case.refresh_ms.max(1) as u64);
        st.class(if case.rpc == 0 { "get_block_server_rate" } else { "push_block_store_state_server_rate" });
        st.max("max_calls_per_connection", total as u64);
        st.nontrivial(common::fingerprint(case));
        st.sample(|| serde_json::json!({"case": case, "calls": total, "span_ms": span.as_millis() as u64, "minimum_span_ms": need.as_millis() as u64}));
        if span < need {
            return Err(format!(
                "{name}: the node served {total} calls of one connection within {} ms; its configured rate (burst {}, one permit per {} ms) allows that many only after {} ms",
                span.as_millis(), case.burst, case.refresh_ms, need.as_millis()
            ));
        }
        Ok(())
    })
}

pub fn main(env: &Env) -> i32 {
    if let Mode::Replay(path) = env.mode() {
        let (part, case) = Env::read_replay(&path);
        let r = match part.as_str() {
            "limiter" => common::replay_case::<Case>(case, check),
            "service" => common::replay_case::<SvcCase>(case, check_svc),
            "live_rates" => common::replay_case::<LiveRateCase>(case, check_live_rate),
            p => Err(format!("unknown part {p}")),
        };
        return env.finish_replay(&path, r);
    }
    let mut parts: Vec<PartReport> = vec![];
    parts.extend(common::run_regress::<Case>(env, "limiter", check));
    parts.extend(common::run_regress::<SvcCase>(env, "service", check_svc));
    parts.push(run_proptest(
        env,
        "limiter",
        "the real limiter on a manual clock: burst 1-8, refresh {1 ns, 7 ns, 1 us, 1 s, 10 s}, 2-31 operations {acquire p in {0, 1..burst, burst, burst+1}, cancel, release, advance {0, r/2, r, r+1, 3r, burst*r, random}} with a quiescence barrier after each, then a drain phase; \
         oracle: for every pair of grant events the permits granted in between <= burst + T/r + 1; held permits <= burst; queued callers served in arrival order; callers asking for more than burst never served; after all permits are returned and enough refills every waiter is served (no lost wake-up); \
         metamorphic: re-running the program without the waits that were cancelled before being served yields identical grants at identical clock readings. Non-trivial = a release while another caller waits together with an advance that is not a multiple of r",
        PartOpts { cases: env.tier.pick(200_000, 4_000_000), max_shrink_iters: 3000, samples: 2 },
        || Choices::strategy(150).prop_map(|mut ch| gen_case(&mut ch)),
        check,
    ));
    parts.push(run_proptest(
        env,
        "service",
        "the real rpc::Service (consensus server with generated rate burst 1-5 / refresh {1,100,1000} ms and handlers that run {0..3000} ms; or the real ping server with its hard-coded rate) behind the real multiplexer, against 1-8 concurrent callers on a peer multiplexer that announces 64 streams and has no rate limit; \
         the manual clock is advanced in 5-34 generated steps; oracle: the times at which the server opens a sub-stream and at which handlers start obey the window bound burst + T/r + 1, and at most INFLIGHT handlers / sub-streams are active at once. Non-trivial = more callers than the in-flight limit and more requests than burst+1",
        PartOpts { cases: env.tier.pick(8_000, 200_000), max_shrink_iters: 500, samples: 2 },
        || Choices::strategy(120).prop_map(|mut ch| gen_svc(&mut ch)),
        check_svc,
    ));
    parts.extend(common::run_regress::<LiveRateCase>(env, "live_rates", check_live_rate));
    {
        // wall-clock spans are measured: few cases at a time, so that the node is not starved
        let mut seq = env.clone_for_part();
        seq.shards = 4;
        parts.push(run_proptest(
            &seq,
            "live_rates",
            "a real gossip node serving one connection over loopback TCP (real handler, real rpc::Service wired with the rates of its configuration: burst 1-4, one permit per 10-30 ms for get_block or for push_block_store_state); the harness is the peer (real preface, noise and handshake, its own multiplexer) and issues burst + 4..9 calls of that RPC, each as soon as the previous one is answered; \
             oracle: the wall-clock span from before the connection's first grant until after the last one is at least (calls - burst - 1) refresh periods - a lower bound on time, so load can only make the observed span longer, never shorter. Every case is non-trivial",
            PartOpts { cases: env.tier.pick(96, 2_000), max_shrink_iters: 20, samples: 2 },
            || Choices::strategy(8).prop_map(|mut ch| gen_live_rate(&mut ch)),
            check_live_rate,
        ));
    }
    env.finish(
        "exploration",
        "generated acquire/cancel/release/advance programs and client workloads on a manual clock",
        &["the window bound is checked between grant events (a grant is the return of acquire / the server's OPEN frame)"],
        parts,
    )
}
