//! Checks over pure functions of the roles / protobuf crates: C02 (decision function), C04, C07,
//! C09, C11.
mod c02;
mod c04;
mod c07;
mod c09;
mod c11;

fn main() {
    let env = common::Env::from_args();
    let code = match env.property.as_str() {
        "C02" => c02::main(&env),
        "C04" => c04::main(&env),
        "C07" => c07::main(&env),
        "C09" => c09::main(&env),
        "C11" => c11::main(&env),
        p => {
            eprintln!("rolesprop: unknown property {p}");
            2
        }
    };
    std::process::exit(code);
}
