fn main() {
    rolesprop::engine_main()
}
