//! C09 Wire encoding is lossless and canonical.
//!
//! For every wire/storage type: (1) decode(encode(x)) == x; (2) encode is canonical and idempotent
//! under `canonical_raw`; (3) every alternative valid serialisation produced by the harness' own
//! schema-aware rewriter (fields permuted, repeated scalars re-chunked packed/unpacked, redundant
//! varint padding) normalises to the same bytes and decodes to the same value; (4) values that are
//! equal but constructed differently encode identically.
use std::fmt::Debug;

use bit_vec::BitVec;
use common::{run_proptest, Choices, Env, Mode, PartOpts, PartReport, Stats};
use gen::wire::{self, Style};
use proptest::prelude::*;
use prost_reflect::ReflectMessage;
use rand::Rng;
use serde::{Deserialize, Serialize};
use zksync_concurrency::{limiter, time};
use zksync_consensus_roles::{node, validator, validator::v2};
use zksync_protobuf::{canonical, canonical_raw, decode, encode, ProtoFmt};

#[derive(Debug, Clone, Serialize, Deserialize, Hash)]
pub struct Case {
    /// Index into `TYPES`.
    ty: usize,
    /// Type name (informational).
    name: String,
    /// Generator choices from which the value and the re-serialisations are derived.
    choices: Vec<u16>,
}

struct Outcome {
    nontrivial: bool,
    canonical: Vec<u8>,
    classes: Vec<&'static str>,
}

/// The generic oracle.
fn check_value<T: ProtoFmt + PartialEq + Debug>(x: &T, ch: &mut Choices, special: bool) -> Result<Outcome, String> {
    let e = encode(x);
    let desc = <T::Proto as Default>::default().descriptor();
    let dbg = |x: &T| {
        let s = format!("{x:?}");
        if s.len() > 600 { format!("{}…", &s[..600]) } else { s }
    };
    // (1) lossless
    let back: T = decode(&e).map_err(|err| format!("encode output does not decode: {err:#}; value {}", dbg(x)))?;
    if &back != x {
        return Err(format!("decode(encode(x)) != x: x = {}, decoded = {}", dbg(x), dbg(&back)));
    }
    // (2) canonical, deterministic and idempotent
    if canonical(x) != e || encode(&back) != e {
        return Err(format!("encoding is not deterministic for {}", dbg(x)));
    }
    let c = canonical_raw(&e, &desc).map_err(|err| format!("canonical_raw rejects encode output: {err:#}"))?;
    if c != e {
        return Err(format!("canonical_raw(encode(x)) != encode(x) for {}", dbg(x)));
    }
    // the plain prost serialisation is a valid serialisation as well
    use prost::Message as _;
    let plain = x.build().encode_to_vec();
    if canonical_raw(&plain, &desc).map_err(|err| format!("canonical_raw rejects prost output: {err:#}"))? != e {
        return Err(format!("prost serialisation does not normalise to encode(x) for {}", dbg(x)));
    }
    // (3) alternative serialisations
    let tree = wire::parse(&e, &desc).map_err(|err| format!("harness: cannot parse canonical bytes: {err}"))?;
    let (depth, rep) = wire::shape(&tree);
    let mut classes = vec![];
    let styles = [
        Style { permute: true, repack: false, pad_varints: false },
        Style { permute: true, repack: true, pad_varints: false },
        Style { permute: false, repack: true, pad_varints: true },
        Style { permute: true, repack: true, pad_varints: true },
    ];
    let mut differed = false;
    for (si, style) in styles.iter().enumerate() {
        for _ in 0..2 {
            let alt = wire::emit(&tree, &desc, ch, style);
            if alt != e {
                differed = true;
            }
            let what = format!("style {si} ({style:?})");
            let c = canonical_raw(&alt, &desc)
                .map_err(|err| format!("{what}: canonical_raw rejects a valid serialisation: {err:#}; value {}; bytes {}", dbg(x), hex(&alt)))?;
            if c != e {
                return Err(format!(
                    "{what}: a valid serialisation normalises to different bytes; value {}; alt {} canonical {} expected {}",
                    dbg(x), hex(&alt), hex(&c), hex(&e)
                ));
            }
            let y: T = decode(&alt).map_err(|err| format!("{what}: valid serialisation does not decode: {err:#}; value {}", dbg(x)))?;
            if &y != x {
                return Err(format!("{what}: valid serialisation decodes to another value: {} vs {}", dbg(x), dbg(&y)));
            }
        }
    }
    if differed {
        classes.push("reserialisation_differs_from_canonical");
    }
    if depth >= 3 {
        classes.push("nesting>=3");
    }
    if rep >= 2 {
        classes.push("repeated>=2");
    }
    Ok(Outcome { nontrivial: depth >= 3 || rep >= 2 || special, canonical: e, classes })
}

fn hex(b: &[u8]) -> String {
    let s: String = b.iter().take(200).map(|x| format!("{x:02x}")).collect();
    if b.len() > 200 { format!("{s}…({} bytes)", b.len()) } else { s }
}

use gen::values::*;

// ---------------------------------------------------------------------------------------------
// type table

type Runner = fn(&mut Choices) -> Result<Outcome, String>;

macro_rules! rand_ty {
    ($t:ty) => {
        (|ch: &mut Choices| {
            let x: $t = rng_of(ch).gen();
            check_value(&x, ch, false)
        }) as Runner
    };
}
macro_rules! crafted_ty {
    ($f:expr) => {
        (|ch: &mut Choices| {
            let (x, special) = $f(ch);
            check_value(&x, ch, special)
        }) as Runner
    };
}
macro_rules! crafted_plain {
    ($f:expr) => {
        (|ch: &mut Choices| {
            let x = $f(ch);
            check_value(&x, ch, false)
        }) as Runner
    };
}

const TYPES: &[(&str, Runner)] = &[
    ("std.Void", crafted_plain!(|_ch: &mut Choices| ())),
    ("std.SocketAddr", crafted_ty!(g_addr)),
    ("std.Timestamp", crafted_ty!(g_utc)),
    ("std.Duration", crafted_ty!(g_duration)),
    ("std.BitVector", crafted_ty!(g_bitvec)),
    ("std.RateLimit", crafted_ty!(g_rate)),
    ("validator.PublicKey", rand_ty!(validator::PublicKey)),
    ("validator.Signature", rand_ty!(validator::Signature)),
    ("validator.AggregateSignature", rand_ty!(validator::AggregateSignature)),
    ("validator.AggregateSignature/crafted", crafted_plain!(g_agg)),
    ("validator.PayloadHash", rand_ty!(validator::PayloadHash)),
    ("validator.GenesisHash", rand_ty!(validator::GenesisHash)),
    ("validator.MsgHash", rand_ty!(validator::MsgHash)),
    ("validator.BlockHeaderV2", rand_ty!(v2::BlockHeader)),
    ("validator.BlockHeaderV2/crafted", crafted_plain!(g_header)),
    ("validator.ViewV2", rand_ty!(v2::View)),
    ("validator.ViewV2/crafted", crafted_plain!(g_view)),
    ("validator.Signers", rand_ty!(v2::Signers)),
    ("validator.PhaseV2", crafted_plain!(|ch: &mut Choices| ch.pick(&[v2::Phase::Prepare, v2::Phase::Commit, v2::Phase::Timeout]))),
    ("validator.ReplicaCommitV2", rand_ty!(v2::ReplicaCommit)),
    ("validator.ReplicaCommitV2/crafted", crafted_plain!(g_commit)),
    ("validator.CommitQCV2", rand_ty!(v2::CommitQC)),
    ("validator.CommitQCV2/crafted", crafted_ty!(g_commit_qc)),
    ("validator.ReplicaTimeoutV2", rand_ty!(v2::ReplicaTimeout)),
    ("validator.ReplicaTimeoutV2/crafted", crafted_ty!(g_timeout)),
    ("validator.TimeoutQCV2", rand_ty!(v2::TimeoutQC)),
    ("validator.TimeoutQCV2/crafted", crafted_ty!(g_timeout_qc)),
    ("validator.ProposalJustificationV2", rand_ty!(v2::ProposalJustification)),
    ("validator.ProposalJustificationV2/crafted", crafted_ty!(g_just)),
    ("validator.LeaderProposalV2", rand_ty!(v2::LeaderProposal)),
    ("validator.LeaderProposalV2/crafted", crafted_ty!(g_proposal)),
    ("validator.ReplicaNewViewV2", rand_ty!(v2::ReplicaNewView)),
    ("validator.ChonkyMsgV2", rand_ty!(v2::ChonkyMsg)),
    ("validator.ChonkyMsgV2/crafted", crafted_ty!(g_chonky)),
    ("validator.ConsensusMsg", rand_ty!(validator::ConsensusMsg)),
    ("validator.Msg", rand_ty!(validator::Msg)),
    ("validator.Msg/crafted", crafted_ty!(g_msg)),
    ("validator.Signed<ConsensusMsg>/crafted", crafted_ty!(g_signed)),
    ("validator.Signed<NetAddress>/crafted", crafted_ty!(g_signed_addr)),
    ("validator.Signed<ConsensusMsg>", rand_ty!(validator::Signed<validator::ConsensusMsg>)),
    ("validator.Signed<NetAddress>", rand_ty!(validator::Signed<validator::NetAddress>)),
    ("validator.Signed<ReplicaCommit>", rand_ty!(validator::Signed<v2::ReplicaCommit>)),
    ("validator.FinalBlockV2", rand_ty!(v2::FinalBlock)),
    ("validator.PreGenesisBlock", rand_ty!(validator::PreGenesisBlock)),
    ("validator.Block", rand_ty!(validator::Block)),
    ("validator.Block/crafted", crafted_ty!(g_block)),
    ("validator.Proposal", rand_ty!(validator::Proposal)),
    ("validator.ChonkyV2State", rand_ty!(v2::ChonkyV2State)),
    ("validator.ReplicaState", rand_ty!(validator::ReplicaState)),
    ("validator.ReplicaState/crafted", crafted_ty!(g_state)),
    ("validator.NetAddress", rand_ty!(validator::NetAddress)),
    ("validator.NetAddress/crafted", crafted_ty!(g_net_address)),
    ("validator.Genesis(Raw)", rand_ty!(validator::GenesisRaw)),
    ("validator.Genesis(Raw)/crafted", crafted_ty!(g_genesis_raw)),
    ("validator.Genesis", rand_ty!(validator::Genesis)),
    ("validator.ValidatorSchedule", rand_ty!(validator::Schedule)),
    ("validator.ValidatorSchedule/crafted", crafted_ty!(g_schedule)),
    ("validator.ValidatorInfo", rand_ty!(validator::ValidatorInfo)),
    ("validator.LeaderSelection", rand_ty!(validator::LeaderSelection)),
    ("validator.LeaderSelectionMode", rand_ty!(validator::LeaderSelectionMode)),
    ("node.PublicKey", rand_ty!(node::PublicKey)),
    ("node.Signature", rand_ty!(node::Signature)),
    ("node.Signed<SessionId>", rand_ty!(node::Signed<node::SessionId>)),
];

pub fn check(case: &Case, st: &mut Stats) -> Result<(), String> {
    let (name, run) = TYPES[case.ty % TYPES.len()];
    let mut ch = Choices::new(case.choices.clone());
    let out = run(&mut ch).map_err(|e| format!("{name}: {e}"))?;
    st.class(&format!("type={name}"));
    for c in &out.classes {
        st.class(c);
    }
    if out.nontrivial {
        st.nontrivial(common::fingerprint(&(name, &out.canonical)));
    }
    st.sample(|| serde_json::json!({"type": name, "canonical_hex": hex(&out.canonical)}));
    Ok(())
}

// ---------------------------------------------------------------------------------------------
// (4) equal values constructed differently

#[derive(Debug, Clone, Serialize, Deserialize, Hash)]
pub struct EqCase {
    kind: usize,
    choices: Vec<u16>,
}

fn same<T: ProtoFmt + PartialEq + Debug>(what: &str, a: &T, b: &T) -> Result<(), String> {
    if a != b {
        return Err(format!("{what}: the two constructions of one value are not equal (by ==): {a:?} vs {b:?}"));
    }
    if encode(a) != encode(b) {
        return Err(format!("{what}: equal values encode to different bytes: {a:?} -> {} vs {}", hex(&encode(a)), hex(&encode(b))));
    }
    Ok(())
}

fn check_eq(case: &EqCase, st: &mut Stats) -> Result<(), String> {
    let mut ch = Choices::new(case.choices.clone());
    let ch = &mut ch;
    match case.kind % 6 {
        0 => {
            // timeout certificate: same groups inserted in two orders; vote map must be serialised sorted
            let (groups, view, signature, _) = g_timeout_qc_parts(ch);
            let a = v2::TimeoutQC { view: view.clone(), map: groups.iter().cloned().collect(), signature: signature.clone() };
            let mut entries = groups.clone();
            entries.reverse();
            let r = ch.below(entries.len().max(1));
            entries.rotate_left(r);
            let b = v2::TimeoutQC { view, map: entries.into_iter().collect(), signature };
            // groups with different votes are different entries, whichever leaf the votes differ in
            if a.map.len() != groups.len() || b.map.len() != groups.len() {
                return Err(format!(
                    "TimeoutQC: {} groups with pairwise different votes (by ==) occupy {} / {} map entries depending on the insertion order: votes {:?}",
                    groups.len(), a.map.len(), b.map.len(), groups.iter().map(|g| &g.0).collect::<Vec<_>>()
                ));
            }
            st.class("timeout_qc_insertion_order");
            if a.map.len() >= 2 {
                st.nontrivial(common::fingerprint(&encode(&a)));
            }
            same("TimeoutQC built in two insertion orders", &a, &b)?;
            // signatures computed by different nodes agree: the message hash is identical
            let ma = validator::Msg::Consensus(validator::ConsensusMsg::V2(v2::ChonkyMsg::ReplicaNewView(v2::ReplicaNewView { justification: v2::ProposalJustification::Timeout(a) })));
            let mb = validator::Msg::Consensus(validator::ConsensusMsg::V2(v2::ChonkyMsg::ReplicaNewView(v2::ReplicaNewView { justification: v2::ProposalJustification::Timeout(b) })));
            if ma.hash() != mb.hash() {
                return Err("equal new-view messages hash differently".into());
            }
        }
        1 => {
            // schedule listed in two orders
            let (a, _) = g_schedule(ch);
            let mut infos: Vec<_> = a.iter().cloned().collect();
            infos.reverse();
            let r = ch.below(infos.len());
            infos.rotate_left(r);
            let b = validator::Schedule::new(infos, a.leader_selection().clone()).unwrap();
            st.class("schedule_listing_order");
            if a.len() >= 2 {
                st.nontrivial(common::fingerprint(&encode(&a)));
            }
            same("Schedule listed in two orders", &a, &b)?;
            let ga = validator::GenesisRaw { chain_id: validator::ChainId(1), fork_number: validator::ForkNumber(2), protocol_version: validator::ProtocolVersion::CURRENT, first_block: validator::BlockNumber(3), validators_schedule: Some(a) }.with_hash();
            let gb = validator::GenesisRaw { chain_id: validator::ChainId(1), fork_number: validator::ForkNumber(2), protocol_version: validator::ProtocolVersion::CURRENT, first_block: validator::BlockNumber(3), validators_schedule: Some(b) }.with_hash();
            if ga.hash() != gb.hash() {
                return Err("genesis hash depends on the order in which validators were listed".into());
            }
        }
        2 => {
            // bit vector built three ways
            let (a, special) = g_bitvec(ch);
            let mut b = BitVec::new();
            for x in a.iter() {
                b.push(x);
            }
            let mut c = BitVec::from_elem(a.len() + 13, true);
            c.truncate(a.len());
            for (i, x) in a.iter().enumerate() {
                c.set(i, x);
            }
            let mut d = BitVec::from_elem(a.len(), true);
            d.and(&a);
            st.class("bitvec_constructions");
            if special {
                st.nontrivial(common::fingerprint(&encode(&a)));
            }
            same("BitVec via push", &a, &b)?;
            same("BitVec via oversized from_elem + truncate + set", &a, &c)?;
            same("BitVec via and()", &a, &d)?;
        }
        3 => {
            // duration with nanos given in the other sign convention
            let (a, special) = g_duration(ch);
            let b = time::Duration::seconds(a.whole_seconds()) + time::Duration::nanoseconds(a.subsec_nanoseconds() as i64);
            st.class("duration_constructions");
            if special {
                st.nontrivial(common::fingerprint(&encode(&a)));
            }
            same("Duration", &a, &b)?;
        }
        4 => {
            // the same aggregate built in another order of additions
            let k = 2 + ch.below(3);
            let sigs: Vec<_> = (0..k).map(|_| ch.pick(sig_pool())).collect();
            let a = validator::AggregateSignature::aggregate(sigs.iter());
            let b = validator::AggregateSignature::aggregate(sigs.iter().rev());
            st.class("aggregate_addition_order");
            st.nontrivial(common::fingerprint(&encode(&a)));
            same("AggregateSignature", &a, &b)?;
        }
        _ => {
            // a value and its decoded copy (different in-memory history) hash the same
            let (m, special) = g_msg(ch);
            let m2: validator::Msg = decode(&encode(&m)).map_err(|e| format!("{e:#}"))?;
            st.class("msg_hash_after_roundtrip");
            if special {
                st.nontrivial(common::fingerprint(&encode(&m)));
            }
            if m.hash() != m2.hash() {
                return Err(format!("hash changes across encode/decode: {m:?}"));
            }
            same("Msg and its decoded copy", &m, &m2)?;
        }
    }
    Ok(())
}

// ---------------------------------------------------------------------------------------------
// packed / unpacked repeated scalars on a harness-built schema (production schemas have none)

fn scalar_desc() -> prost_reflect::MessageDescriptor {
    use prost_reflect::prost_types::{field_descriptor_proto::{Label, Type}, DescriptorProto, EnumDescriptorProto, EnumValueDescriptorProto, FieldDescriptorProto, FileDescriptorProto, FileDescriptorSet};
    static D: std::sync::OnceLock<prost_reflect::MessageDescriptor> = std::sync::OnceLock::new();
    D.get_or_init(|| {
        let f = |name: &str, num: i32, ty: Type, label: Label, type_name: Option<&str>, opt: bool| FieldDescriptorProto {
            name: Some(name.into()),
            number: Some(num),
            label: Some(label as i32),
            r#type: Some(ty as i32),
            type_name: type_name.map(|s| s.to_string()),
            proto3_optional: Some(opt),
            oneof_index: None,
            ..Default::default()
        };
        let scalars = [
            Type::Int32, Type::Int64, Type::Uint32, Type::Uint64, Type::Sint32, Type::Sint64, Type::Bool,
            Type::Fixed32, Type::Sfixed32, Type::Float, Type::Fixed64, Type::Sfixed64, Type::Double,
        ];
        let mut fields = vec![];
        for (i, t) in scalars.iter().enumerate() {
            fields.push(f(&format!("r{i}"), 1 + i as i32, *t, Label::Repeated, None, false));
        }
        fields.push(f("e", 20, Type::Enum, Label::Repeated, Some(".verif.E"), false));
        fields.push(f("sub", 21, Type::Message, Label::Repeated, Some(".verif.S"), false));
        fields.push(f("b", 22, Type::Bytes, Label::Repeated, None, false));
        let msg = DescriptorProto { name: Some("S".into()), field: fields, ..Default::default() };
        let en = EnumDescriptorProto {
            name: Some("E".into()),
            value: (0..4).map(|i| EnumValueDescriptorProto { name: Some(format!("V{i}")), number: Some(i), ..Default::default() }).collect(),
            ..Default::default()
        };
        let file = FileDescriptorProto {
            name: Some("verif.proto".into()),
            package: Some("verif".into()),
            syntax: Some("proto3".into()),
            message_type: vec![msg],
            enum_type: vec![en],
            ..Default::default()
        };
        let pool = prost_reflect::DescriptorPool::from_file_descriptor_set(FileDescriptorSet { file: vec![file] }).unwrap();
        pool.get_message_by_name("verif.S").unwrap()
    })
    .clone()
}

#[derive(Debug, Clone, Serialize, Deserialize, Hash)]
pub struct PackCase {
    choices: Vec<u16>,
}

fn gen_scalar_tree(ch: &mut Choices, desc: &prost_reflect::MessageDescriptor, depth: usize) -> Vec<wire::Field> {
    use wire::{Field, Val};
    let mut out = vec![];
    for fd in desc.fields() {
        let n = ch.weighted(&[(3, 0usize), (2, 1), (3, 2), (2, 5)]);
        for _ in 0..n {
            let val = match fd.kind() {
                prost_reflect::Kind::Message(d) => {
                    if depth >= 2 {
                        continue;
                    }
                    Val::Msg(gen_scalar_tree(ch, &d, depth + 1), d.clone())
                }
                prost_reflect::Kind::Bytes | prost_reflect::Kind::String => Val::Bytes(vec![ch.raw() as u8; ch.below(4)]),
                prost_reflect::Kind::Fixed64 | prost_reflect::Kind::Sfixed64 | prost_reflect::Kind::Double => Val::I64(u64x(ch)),
                prost_reflect::Kind::Fixed32 | prost_reflect::Kind::Sfixed32 | prost_reflect::Kind::Float => Val::I32(u64x(ch) as u32),
                prost_reflect::Kind::Bool => Val::Varint(ch.below(2) as u64),
                prost_reflect::Kind::Enum(_) => Val::Varint(ch.below(4) as u64),
                prost_reflect::Kind::Int32 => Val::Varint((u64x(ch) as i32) as i64 as u64),
                prost_reflect::Kind::Uint32 | prost_reflect::Kind::Sint32 => Val::Varint(u64x(ch) as u32 as u64),
                _ => Val::Varint(u64x(ch)),
            };
            out.push(Field { num: fd.number(), val });
        }
    }
    out
}

pub fn check_pack(case: &PackCase, st: &mut Stats) -> Result<(), String> {
    let desc = scalar_desc();
    let mut ch = Choices::new(case.choices.clone());
    let tree = gen_scalar_tree(&mut ch, &desc, 0);
    let plain = wire::emit(&tree, &desc, &mut ch, &Style::default());
    let canon = canonical_raw(&plain, &desc).map_err(|e| format!("canonical_raw rejects an unpacked serialisation: {e:#}; bytes {}", hex(&plain)))?;
    // canonical form: reparse must give the same tree (lossless) and be a fixed point
    let back = wire::parse(&canon, &desc).map_err(|e| format!("canonical output is not a valid serialisation: {e}; {}", hex(&canon)))?;
    let mut sorted = tree.clone();
    sorted.sort_by_key(|f| f.num);
    fn norm(fs: &[wire::Field]) -> Vec<wire::Field> {
        let mut v: Vec<wire::Field> = fs
            .iter()
            .map(|f| wire::Field { num: f.num, val: match &f.val { wire::Val::Msg(x, d) => wire::Val::Msg(norm(x), d.clone()), v => v.clone() } })
            .collect();
        v.sort_by_key(|f| f.num);
        v
    }
    if norm(&back) != norm(&tree) {
        return Err(format!("canonical_raw changed the content of the message: {} -> {}", hex(&plain), hex(&canon)));
    }
    if canonical_raw(&canon, &desc).map_err(|e| format!("{e:#}"))? != canon {
        return Err("canonical_raw is not idempotent".into());
    }
    let (depth, rep) = wire::shape(&tree);
    for style in [
        Style { permute: false, repack: true, pad_varints: false },
        Style { permute: true, repack: true, pad_varints: false },
        Style { permute: true, repack: true, pad_varints: true },
        Style { permute: true, repack: false, pad_varints: false },
    ] {
        for _ in 0..3 {
            let alt = wire::emit(&tree, &desc, &mut ch, &style);
            let c = canonical_raw(&alt, &desc).map_err(|e| format!("{style:?}: canonical_raw rejects a valid serialisation: {e:#}; bytes {}", hex(&alt)))?;
            if c != canon {
                return Err(format!("{style:?}: serialisations of the same message normalise differently: {} -> {} vs {} -> {}", hex(&plain), hex(&canon), hex(&alt), hex(&c)));
            }
        }
    }
    st.class(&format!("max_repeated={}", rep.min(5)));
    if rep >= 2 {
        st.nontrivial(common::fingerprint(&canon));
    }
    let _ = depth;
    st.sample(|| serde_json::json!({"unpacked_hex": hex(&plain), "canonical_hex": hex(&canon)}));
    Ok(())
}

pub fn main(env: &Env) -> i32 {
    if let Mode::Replay(path) = env.mode() {
        let (part, case) = Env::read_replay(&path);
        let r = match part.as_str() {
            "types" => common::replay_case::<Case>(case, check),
            "equal_values" => common::replay_case::<EqCase>(case, check_eq),
            "packed_scalars" => common::replay_case::<PackCase>(case, check_pack),
            p => Err(format!("unknown part {p}")),
        };
        return env.finish_replay(&path, r);
    }
    let mut parts: Vec<PartReport> = vec![];
    parts.extend(common::run_regress::<Case>(env, "types", check));
    parts.extend(common::run_regress::<EqCase>(env, "equal_values", check_eq));
    parts.extend(common::run_regress::<PackCase>(env, "packed_scalars", check_pack));
    let ntypes = TYPES.len();
    parts.push(run_proptest(
        env,
        "types",
        "for each of the roles/std wire and storage types (63 generators: the repository's own random distributions seeded from the case, plus crafted boundary generators: bit vectors of length 0,1,7,8,9,..,1000 built four ways, \
         negative/sub-second/extreme durations and timestamps, v4/v6/v4-mapped addresses, u64 extremes, Some(empty payload) vs None, multi-group timeout certificates, all three phases, both block kinds): \
         round-trip, determinism, canonical_raw fixed point, prost serialisation, and 8 re-serialisations (field permutation, re-chunked packing, varint padding) by the harness' own wire rewriter; \
         non-trivial = nesting >= 3 or a repeated field with >= 2 entries or a trap value (non-byte-aligned bit vector, negative/sub-second duration, v4-mapped address, empty-but-present payload); distinct = canonical bytes",
        PartOpts { cases: env.tier.pick(30_000, 600_000), max_shrink_iters: 2000, samples: 3 },
        || (0..ntypes, proptest::collection::vec(any::<u16>(), 0..200)).prop_map(|(ty, choices)| Case { ty, name: TYPES[ty].0.to_string(), choices }),
        check,
    ));
    parts.push(run_proptest(
        env,
        "equal_values",
        "values equal by == but constructed differently (timeout certificate insertion orders, schedule listing orders, bit vectors built 4 ways, durations, aggregate addition order, decoded copies) must encode to identical bytes and hash identically",
        PartOpts { cases: env.tier.pick(6_000, 120_000), max_shrink_iters: 2000, samples: 2 },
        || (0..6usize, proptest::collection::vec(any::<u16>(), 0..200)).prop_map(|(kind, choices)| EqCase { kind, choices }),
        check_eq,
    ));
    parts.push(run_proptest(
        env,
        "packed_scalars",
        "messages of a harness-built proto3 schema with a repeated field of every scalar wire type, enums, bytes and recursion: unpacked, packed and arbitrarily chunked serialisations (with field permutation and varint padding) \
         must all normalise to one byte string that re-parses to the same content; non-trivial = some repeated field has >= 2 entries",
        PartOpts { cases: env.tier.pick(20_000, 400_000), max_shrink_iters: 2000, samples: 2 },
        || proptest::collection::vec(any::<u16>(), 0..400).prop_map(|choices| PackCase { choices }),
        check_pack,
    ));
    env.finish(
        "exploration",
        "generated values of every roles/std wire type; the network-crate types are covered by the netprop part of C09 once the network hook is in place",
        &["not generated because proto_fmt.rs documents them as unsupported rather than normalised: a singular field occurring several times, unknown fields, maps, implicit-presence fields"],
        parts,
    )
}

/// libFuzzer bridge: the first choice selects the type, the rest drive the value generator.
pub fn fuzz_gen(ch: &mut Choices) -> Case {
    let ty = ch.below(TYPES.len());
    let mut choices = vec![];
    for _ in 0..200 {
        choices.push(ch.raw());
    }
    while choices.last() == Some(&0) {
        choices.pop();
    }
    Case { ty, name: TYPES[ty].0.to_string(), choices }
}

/// libFuzzer bridge for the packed-scalars part.
pub fn fuzz_gen_pack(ch: &mut Choices) -> PackCase {
    let mut choices = vec![];
    for _ in 0..400 {
        choices.push(ch.raw());
    }
    while choices.last() == Some(&0) {
        choices.pop();
    }
    PackCase { choices }
}
