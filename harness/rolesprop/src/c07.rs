//! C07 Quorum thresholds satisfy the n >= 5f+1 intersection arithmetic.
//!
//! Domain: total weights n in [1, 2^64-1]: exhaustive low range, exhaustive top range, +-8 around
//! every 2^k and 5*2^k, random u64. Oracle: u128 arithmetic (independent of the library).
use common::{run_enum, run_proptest, Env, Mode, PartOpts, PartReport, Stats, Tier};
use proptest::prelude::*;
use serde::{Deserialize, Serialize};
use zksync_consensus_roles::validator;

#[derive(Debug, Clone, Serialize, Deserialize)]
pub struct Range {
    start: u64,
    /// Number of consecutive values (saturating at u64::MAX).
    len: u64,
    /// Also go through a one-validator `Schedule` every `sched_every` values (0 = never).
    sched_every: u64,
}

fn oracle(n: u64, f: u64, q: u64, s: u64) -> Result<(), String> {
    let (n_, f_, q_, s_) = (n as u128, f as u128, q as u128, s as u128);
    let err = |what: &str| Err(format!("n={n}: f={f} q={q} s={s}: {what}"));
    if f_ != (n_ - 1) / 5 {
        return err("f != floor((n-1)/5)");
    }
    if q_ != n_ - f_ {
        return err("quorum != n-f");
    }
    if n_ < 3 * f_ || s_ != n_ - 3 * f_ {
        return err("subquorum != n-3f");
    }
    if !(5 * f_ + 1 <= n_ && n_ < 5 * (f_ + 1) + 1) {
        return err("5f+1 <= n < 5(f+1)+1 violated");
    }
    // two quorums share more than f weight
    if !(2 * q_ > n_ && 2 * q_ - n_ > f_) {
        return err("two quorums do not share more than f");
    }
    // commit quorum and timeout quorum share at least the sub-quorum of correct weight
    if !(2 * q_ - n_ >= f_ + s_) {
        return err("quorum intersection minus f below subquorum");
    }
    // the weight able to report a conflicting block (2f) stays below the subquorum
    if !(2 * f_ < s_) {
        return err("2f >= subquorum");
    }
    if !(1 <= s_ && s_ <= q_ && q_ <= n_) {
        return err("1 <= s <= q <= n violated");
    }
    Ok(())
}

fn check_n(n: u64, via_schedule: bool) -> Result<(), String> {
    let f = validator::max_faulty_weight(n);
    let q = validator::quorum_threshold(n);
    let s = validator::subquorum_threshold(n);
    oracle(n, f, q, s)?;
    if via_schedule {
        let sch = validator::Schedule::new(
            [validator::ValidatorInfo {
                key: gen::val_keys()[0].public(),
                weight: n,
                leader: true,
            }],
            validator::LeaderSelection::default(),
        )
        .map_err(|e| format!("n={n}: schedule rejected: {e:#}"))?;
        if (sch.total_weight(), sch.max_faulty_weight(), sch.quorum_threshold(), sch.subquorum_threshold())
            != (n, f, q, s)
        {
            return Err(format!("n={n}: Schedule methods disagree with the free functions"));
        }
    }
    Ok(())
}

fn check_range(r: &Range, st: &mut Stats) -> Result<(), String> {
    let mut n = r.start;
    let mut i = 0u64;
    let mut residues = [0u64; 5];
    let mut nontrivial = 0u64;
    loop {
        if i >= r.len {
            break;
        }
        check_n(n, r.sched_every != 0 && i % r.sched_every == 0)?;
        residues[(n % 5) as usize] += 1;
        if n >= 6 {
            nontrivial += 1;
        }
        i += 1;
        if n == u64::MAX {
            break;
        }
        n += 1;
    }
    st.evaluations += i.saturating_sub(1);
    for (k, c) in residues.iter().enumerate() {
        st.count(&format!("n_mod_5_eq_{k}"), *c);
    }
    // Distinct by construction: the enumerated ranges are disjoint (see `ranges`).
    st.nontrivial_counted += nontrivial;
    st.sample(|| serde_json::json!({"n": r.start, "f": validator::max_faulty_weight(r.start),
        "quorum": validator::quorum_threshold(r.start), "subquorum": validator::subquorum_threshold(r.start)}));
    Ok(())
}

/// Disjoint chunks: [1, lo_end], [2^64 - top, 2^64-1], and the +-8 windows outside these.
fn ranges(tier: Tier) -> Vec<Range> {
    let lo_end: u64 = tier.pick(1 << 22, 1 << 26);
    let top: u64 = tier.pick(1 << 20, 1 << 24);
    let chunk = 1 << 16;
    let mut out = vec![];
    let mut s = 1u64;
    while s <= lo_end {
        let len = chunk.min(lo_end - s + 1);
        out.push(Range { start: s, len, sched_every: 4099 });
        s += len;
    }
    let top_start = u64::MAX - top + 1;
    let mut s = top_start;
    loop {
        let len = chunk.min(u64::MAX - s).saturating_add(1).min(chunk);
        out.push(Range { start: s, len, sched_every: 4099 });
        match s.checked_add(len) {
            Some(x) => s = x,
            None => break,
        }
    }
    // windows around 2^k and 5*2^k (and 5*2^k+1), kept disjoint from the two big ranges and each other
    let mut centers: Vec<u64> = vec![];
    for k in 0..64u32 {
        centers.push(1u64 << k);
        if let Some(c) = 5u64.checked_mul(1u64 << k) {
            centers.push(c);
        }
        if let Some(c) = 3u64.checked_mul(1u64 << k) {
            centers.push(c);
        }
    }
    centers.sort();
    let mut last_end = lo_end;
    for c in centers {
        let a = c.saturating_sub(8).max(last_end + 1);
        let b = c.saturating_add(8).min(top_start - 1);
        if a <= b {
            out.push(Range { start: a, len: b - a + 1, sched_every: 1 });
            last_end = b;
        }
    }
    out
}

#[derive(Debug, Clone, Serialize, Deserialize)]
pub struct Overflow {
    weights: Vec<u64>,
    /// Bit i set = validator i is NOT leader-eligible (at least one leader is kept). The thresholds are about the
    /// whole committee: eligibility must not matter.
    #[serde(default)]
    non_leaders: u8,
}

fn check_overflow(c: &Overflow, st: &mut Stats) -> Result<(), String> {
    // keep at least one leader (a schedule without one is refused for another reason)
    let mask = if (0..c.weights.len()).all(|i| c.non_leaders >> i & 1 == 1) { c.non_leaders & !1 } else { c.non_leaders };
    let infos = c.weights.iter().enumerate().map(|(i, w)| validator::ValidatorInfo {
        key: gen::val_keys()[i].public(),
        weight: *w,
        leader: mask >> i & 1 == 0,
    });
    if mask & ((1u8 << c.weights.len()) - 1) != 0 {
        st.class("some_validators_not_leader_eligible");
    }
    let sum: u128 = c.weights.iter().map(|w| *w as u128).sum();
    let res = validator::Schedule::new(infos, validator::LeaderSelection::default());
    let overflow = sum > u64::MAX as u128;
    st.class(if overflow { "sum_overflows" } else { "sum_fits" });
    if sum.abs_diff(u64::MAX as u128) <= 2 {
        st.class("sum_within_2_of_u64_max");
    }
    st.nontrivial(common::fingerprint(&(&c.weights, mask)));
    st.sample(|| serde_json::json!({"weights": c.weights, "accepted": res.is_ok()}));
    match (overflow, res) {
        (true, Ok(s)) => Err(format!(
            "weights {:?} sum to {sum} > u64::MAX but the schedule was accepted with total {}",
            c.weights,
            s.total_weight()
        )),
        (false, Err(e)) => Err(format!("weights {:?} (sum {sum}) rejected: {e:#}", c.weights)),
        (false, Ok(s)) => {
            if s.total_weight() as u128 != sum {
                return Err(format!("total weight {} != {sum}", s.total_weight()));
            }
            // the weight of the whole committee, of every member and of every signer set, through the schedule's own accessors
            let all = validator::v2::Signers(bit_vec::BitVec::from_elem(s.len(), true));
            if all.weight(&s) as u128 != sum {
                return Err(format!("weights {:?}: weight(all signers) = {} != {sum}", c.weights, all.weight(&s)));
            }
            for (i, w) in c.weights.iter().enumerate() {
                let key = gen::val_keys()[i].public();
                if s.get(s.index(&key).ok_or("member without index")?).map(|v| v.weight) != Some(*w) {
                    return Err(format!("weights {:?}: member {i} is listed with another weight", c.weights));
                }
            }
            if (s.max_faulty_weight(), s.quorum_threshold(), s.subquorum_threshold())
                != (validator::max_faulty_weight(sum as u64), validator::quorum_threshold(sum as u64), validator::subquorum_threshold(sum as u64))
            {
                return Err(format!("weights {:?} (leader mask {mask:#b}): the schedule's thresholds are not those of its total weight {sum}", c.weights));
            }
            oracle(s.total_weight(), s.max_faulty_weight(), s.quorum_threshold(), s.subquorum_threshold())
        }
        (true, Err(_)) => Ok(()),
    }
}

fn overflow_strategy() -> impl Strategy<Value = Overflow> {
    // (a) weights whose sum lands near 2^64: k-1 random weights plus a last one chosen as
    //     (2^64 - partial) + delta, delta in -3..=3;
    // (b) weights whose sum is far beyond 2^64, so that the running sum wraps at an early or middle entry (possibly
    //     more than once) and the entries after it do not wrap again: huge and small weights in any order.
    let near = (2usize..6)
        .prop_flat_map(|k| (proptest::collection::vec(1u64..u64::MAX / 8, k - 1), -3i128..=3, any::<bool>()))
        .prop_map(|(mut ws, delta, shuffle)| {
            let partial: u128 = ws.iter().map(|w| *w as u128).sum();
            let last = ((1u128 << 64) - partial) as i128 - 1 + delta;
            ws.push(last.clamp(1, u64::MAX as i128) as u64);
            if shuffle {
                ws.reverse();
            }
            Overflow { weights: ws, non_leaders: 0 }
        });
    let weight = prop_oneof![
        Just(1u64 << 63),
        Just(1u64 << 62),
        Just(u64::MAX),
        Just(u64::MAX / 2 + 1),
        Just(u64::MAX / 5),
        1u64..8,
        (1u64 << 60)..u64::MAX,
    ];
    let far = proptest::collection::vec(weight, 2..7).prop_map(|weights| Overflow { weights, non_leaders: 0 });
    // (c) ordinary committees: 1-7 small or medium weights
    let small = proptest::collection::vec(prop_oneof![1u64..6, 1u64..1000, 1u64..(1 << 40)], 1..8).prop_map(|weights| Overflow { weights, non_leaders: 0 });
    // every list with and without validators that are not leader-eligible
    (prop_oneof![near, far, small], prop_oneof![Just(0u8), any::<u8>()]).prop_map(|(mut o, m)| {
        o.non_leaders = m;
        o
    })
}

#[derive(Debug, Clone, Serialize, Deserialize)]
pub struct One {
    n: u64,
}

fn check_one(c: &One, st: &mut Stats) -> Result<(), String> {
    check_n(c.n, c.n % 64 == 0)?;
    st.class(&format!("n_mod_5_eq_{}", c.n % 5));
    if c.n >= 6 {
        st.nontrivial(c.n);
    }
    st.sample(|| serde_json::json!({"n": c.n, "f": validator::max_faulty_weight(c.n)}));
    Ok(())
}

pub fn main(env: &Env) -> i32 {
    if let Mode::Replay(path) = env.mode() {
        let (part, case) = Env::read_replay(&path);
        let r = match part.as_str() {
            "ranges" => common::replay_case::<Range>(case, check_range),
            "random" => common::replay_case::<One>(case, check_one),
            "overflow" => common::replay_case::<Overflow>(case, check_overflow),
            p => Err(format!("unknown part {p}")),
        };
        return env.finish_replay(&path, r);
    }
    let mut parts: Vec<PartReport> = vec![];
    parts.extend(common::run_regress::<Range>(env, "ranges", check_range));
    parts.extend(common::run_regress::<One>(env, "random", check_one));
    parts.extend(common::run_regress::<Overflow>(env, "overflow", check_overflow));
    let rs = ranges(env.tier);
    let p = run_enum(
        env,
        "ranges",
        "every n in [1,2^22] (thorough 2^26), every n in the top 2^20 (thorough 2^24) of u64, +-8 around every 2^k, 3*2^k, 5*2^k; \
         judged by u128 arithmetic; non-trivial = n >= 6 (f >= 1); distinct by construction (disjoint ranges)",
        true,
        3,
        |shard, shards| rs.clone().into_iter().skip(shard).step_by(shards),
        check_range,
    );
    parts.push(p);
    parts.push(run_proptest(
        env,
        "random",
        "uniformly random u64 total weights; non-trivial = n >= 6; distinct = n",
        PartOpts { cases: env.tier.pick(1_000_000, 100_000_000), max_shrink_iters: 256, samples: 3 },
        || any::<u64>().prop_filter("n>=1", |n| *n >= 1).prop_map(|n| One { n }),
        check_one,
    ));
    parts.push(run_proptest(
        env,
        "overflow",
        "2-5 weights whose sum lies within +-3 of 2^64, or 2-6 huge and small weights in any order whose running sum wraps at an early or middle entry (possibly twice), or 1-7 small / medium weights; each list with all validators leader-eligible and with an arbitrary subset not eligible; Schedule::new must reject exactly the lists whose 128-bit sum exceeds u64::MAX, and for accepted lists total_weight(), weight(all signers), every member's weight and the three thresholds are those of the exact total of ALL members (eligibility is irrelevant) and satisfy the oracle; distinct = (weight vector, mask)",
        PartOpts { cases: env.tier.pick(20_000, 500_000), max_shrink_iters: 256, samples: 3 },
        overflow_strategy,
        check_overflow,
    ));
    env.finish(
        "exploration",
        "two exhaustive ranges + boundary windows + random sample; the functions are piecewise linear in n mod 5",
        &["u128 arithmetic of the Rust compiler"],
        parts,
    )
}
