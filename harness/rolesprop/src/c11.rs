//! C11 Leader election is a total, deterministic, eligible-only function.
use std::collections::BTreeMap;

use common::{run_proptest, Env, Mode, PartOpts, PartReport, Stats};
use proptest::prelude::*;
use serde::{Deserialize, Serialize};
use zksync_consensus_roles::validator::{self, ViewNumber};

#[derive(Debug, Clone, Serialize, Deserialize, Hash)]
pub struct Case {
    /// (pool key id, weight, leader-eligible); key ids distinct.
    validators: Vec<(usize, u64, bool)>,
    weighted: bool,
    frequency: u64,
    /// Rotation applied to the validator list for the "listed in another order" construction.
    rotate: usize,
    reverse: bool,
    views: Vec<u64>,
}

fn schedule(c: &Case, permuted: bool) -> Result<validator::Schedule, String> {
    let mut infos: Vec<_> = c
        .validators
        .iter()
        .map(|(k, w, l)| validator::ValidatorInfo {
            key: gen::val_keys()[*k].public(),
            weight: *w,
            leader: *l,
        })
        .collect();
    if permuted {
        let r = c.rotate % infos.len();
        infos.rotate_left(r);
        if c.reverse {
            infos.reverse();
        }
    }
    validator::Schedule::new(
        infos,
        validator::LeaderSelection {
            frequency: c.frequency,
            mode: if c.weighted {
                validator::LeaderSelectionMode::Weighted
            } else {
                validator::LeaderSelectionMode::RoundRobin
            },
        },
    )
    .map_err(|e| format!("valid schedule rejected: {e:#}"))
}

fn turn_of(c: &Case, view: u64) -> u64 {
    if c.frequency == 0 {
        0
    } else {
        view / c.frequency
    }
}

fn check(c: &Case, st: &mut Stats) -> Result<(), String> {
    let s = schedule(c, false)?;
    let sp = schedule(c, true)?;
    if s != sp {
        return Err("schedules built from permuted validator lists differ".into());
    }
    let sd: validator::Schedule = zksync_protobuf::decode(&zksync_protobuf::encode(&s))
        .map_err(|e| format!("schedule does not decode: {e:#}"))?;
    let eligible: BTreeMap<validator::PublicKey, u64> = c
        .validators
        .iter()
        .filter(|v| v.2)
        .map(|v| (gen::val_keys()[v.0].public(), v.1))
        .collect();
    let n_elig = eligible.len();
    let n_inelig = c.validators.len() - n_elig;
    let leader_weight: u128 = eligible.values().map(|w| *w as u128).sum();
    st.class(if c.weighted { "weighted" } else { "round_robin" });
    if c.frequency == 0 {
        st.class("frequency_0");
    }
    if leader_weight == 1 {
        st.class("leader_weight_1");
    }
    let mut nontrivial = (n_elig >= 2 && n_inelig >= 1) || c.frequency == 0 || (c.weighted && leader_weight <= 8);
    for &view in &c.views {
        let l = s.view_leader(ViewNumber(view));
        if !s.contains(&l) {
            return Err(format!("view {view}: leader is not a member"));
        }
        if !eligible.contains_key(&l) {
            return Err(format!("view {view}: leader {l:?} is not leader-eligible"));
        }
        if sp.view_leader(ViewNumber(view)) != l {
            return Err(format!("view {view}: permuted construction elects another leader"));
        }
        if sd.view_leader(ViewNumber(view)) != l {
            return Err(format!("view {view}: decoded schedule elects another leader"));
        }
        if s.view_leader(ViewNumber(view)) != l {
            return Err(format!("view {view}: second call returns another leader"));
        }
        // Depends only on floor(view / frequency).
        if c.frequency == 0 {
            for other in [0, 1, view / 2, view.wrapping_add(1), u64::MAX] {
                if s.view_leader(ViewNumber(other)) != l {
                    return Err(format!(
                        "frequency 0 must never rotate: views {view} and {other} have different leaders"
                    ));
                }
            }
        } else {
            let start = view - view % c.frequency;
            let end = start.saturating_add(c.frequency - 1);
            for other in [start, end, start + (view - start) / 2] {
                if s.view_leader(ViewNumber(other)) != l {
                    return Err(format!(
                        "views {view} and {other} are in the same turn (frequency {}) but have different leaders",
                        c.frequency
                    ));
                }
            }
        }
    }
    // Rotation / distribution, anchored at the turn of the first view.
    let f = c.frequency.max(1);
    let t0 = turn_of(c, c.views[0]);
    let leader_at_turn = |t: u64| -> Option<validator::PublicKey> {
        if c.frequency == 0 {
            return (t == 0).then(|| s.view_leader(ViewNumber(c.views[0])));
        }
        t.checked_mul(f).map(|v| s.view_leader(ViewNumber(v)))
    };
    if !c.weighted && c.frequency != 0 {
        let len = n_elig as u64;
        // `len` consecutive turns: every eligible validator exactly once; period `len`.
        if let Some(last) = t0.checked_add(2 * len).and_then(|t| t.checked_mul(f)) {
            let _ = last;
            let mut seen = BTreeMap::new();
            for i in 0..len {
                let l = leader_at_turn(t0 + i).unwrap();
                *seen.entry(l.clone()).or_insert(0u32) += 1;
                let l2 = leader_at_turn(t0 + i + len).unwrap();
                if l != l2 {
                    return Err(format!("round robin: turns {} and {} differ (period must be {len})", t0 + i, t0 + i + len));
                }
            }
            if seen.len() != n_elig || seen.values().any(|c| *c != 1) {
                return Err(format!(
                    "round robin: over {len} consecutive turns from {t0} the eligible validators lead {:?} times",
                    seen.values().collect::<Vec<_>>()
                ));
            }
            if len >= 2 {
                st.class("rr_rotation_checked");
            }
        }
    }
    if c.weighted && c.frequency != 0 && n_elig >= 1 {
        const N: u64 = 4096;
        if t0.checked_add(N).and_then(|t| t.checked_mul(f)).is_some() {
            let mut counts: BTreeMap<validator::PublicKey, u64> = BTreeMap::new();
            for i in 0..N {
                let l = leader_at_turn(t0 + i).unwrap();
                if !eligible.contains_key(&l) {
                    return Err(format!("turn {}: leader not eligible", t0 + i));
                }
                *counts.entry(l).or_default() += 1;
            }
            for (k, w) in &eligible {
                let p = *w as f64 / leader_weight as f64;
                let exp = N as f64 * p;
                let sigma = (N as f64 * p * (1.0 - p)).sqrt();
                let got = counts.get(k).copied().unwrap_or(0) as f64;
                // 6.5 sigma + 1: two-sided tail < 1e-10 per validator; deterministic per case.
                if (got - exp).abs() > 6.5 * sigma + 1.0 {
                    return Err(format!(
                        "weighted: validator with weight {w}/{leader_weight} led {got} of {N} consecutive turns from {t0} (expected {exp:.1} +- {sigma:.1})"
                    ));
                }
            }
            st.class("weighted_distribution_checked");
            if n_elig >= 2 {
                nontrivial = true;
            }
        }
    }
    if nontrivial {
        st.nontrivial(common::fingerprint(c));
    }
    st.sample(|| serde_json::to_value(c).unwrap());
    Ok(())
}

fn weight() -> impl Strategy<Value = u64> {
    prop_oneof![
        6 => Just(1u64),
        6 => 1u64..4,
        3 => 1u64..100,
        1 => (1u64 << 40)..(1u64 << 60),
        // totals between 2^56 and 2^64: any shortcut in the 256-bit reduction shows up as a skewed share
        1 => prop_oneof![Just(1u64 << 62), Just(1u64 << 61), Just(3u64 << 60), (1u64 << 56)..(1u64 << 62)],
    ]
}

fn frequency() -> impl Strategy<Value = u64> {
    prop_oneof![
        2 => Just(0u64),
        5 => Just(1u64),
        3 => 2u64..8,
        1 => Just(u64::MAX),
        1 => Just(u64::MAX - 1),
        2 => any::<u64>(),
    ]
}

fn views(freq: u64) -> impl Strategy<Value = Vec<u64>> {
    let f = freq.max(1);
    let v = prop_oneof![
        4 => 0u64..65,
        2 => any::<u64>(),
        2 => (u64::MAX - 64)..=u64::MAX,
        2 => (0u64..1000, 0u64..3).prop_map(move |(k, d)| k.saturating_mul(f).saturating_add(d).saturating_sub(1)),
        1 => (0u64..64).prop_map(|k| 1u64 << k),
    ];
    proptest::collection::vec(v, 1..6)
}

fn strategy(nmax: usize) -> impl Strategy<Value = Case> {
    (1..=nmax)
        .prop_flat_map(|n| {
            (
                proptest::sample::subsequence((0..gen::POOL).collect::<Vec<_>>(), n),
                proptest::collection::vec((weight(), proptest::bool::weighted(0.6)), n),
                0..n,
                any::<bool>(),
                frequency(),
                0..n,
                any::<bool>(),
            )
        })
        .prop_flat_map(|(ids, wl, force, weighted, frequency, rotate, reverse)| {
            let mut validators: Vec<(usize, u64, bool)> =
                ids.into_iter().zip(wl).map(|(k, (w, l))| (k, w, l)).collect();
            validators[force].2 = true;
            // the total weight has to fit into 64 bits: halve the heaviest validator until it does
            while validators.iter().map(|v| v.1 as u128).sum::<u128>() > u64::MAX as u128 {
                let i = (0..validators.len()).max_by_key(|i| validators[*i].1).unwrap();
                validators[i].1 /= 2;
            }
            views(frequency).prop_map(move |views| Case {
                validators: validators.clone(),
                weighted,
                frequency,
                rotate,
                reverse,
                views,
            })
        })
}

pub fn main(env: &Env) -> i32 {
    if let Mode::Replay(path) = env.mode() {
        let (_, case) = Env::read_replay(&path);
        return env.finish_replay(&path, common::replay_case::<Case>(case, check));
    }
    let mut parts: Vec<PartReport> = vec![];
    parts.extend(common::run_regress::<Case>(env, "leader", check));
    let nmax = env.tier.pick(8, 20);
    parts.push(run_proptest(
        env,
        "leader",
        "schedules of 1..8 (thorough 20) validators, weights {1, 1..3, 1..99, 2^40..2^60, 2^56..2^62 with totals up to 2^64} with small totals over-represented, any non-empty eligible subset, \
         both modes, frequency {0,1,2..7,u64::MAX,random}, views {0..64, random, top 64, k*f-1..k*f+1, 2^k}; oracle: no panic, member & eligible, \
         input-order and encode/decode independence, same leader within a turn, round-robin permutation+period, weighted share within 6.5 sigma over 4096 turns; \
         non-trivial = (>=2 eligible and >=1 ineligible) or frequency 0 or weighted with leader weight <= 8 or weighted with >= 2 eligible; distinct = whole case",
        PartOpts { cases: env.tier.pick(24_000, 1_000_000), max_shrink_iters: 2000, samples: 3 },
        || strategy(nmax),
        check,
    ));
    env.finish(
        "exploration",
        "generated schedules and views against stated invariants of leader selection",
        &["keccak/BigUint reduction is uniform enough for the 6.5 sigma share bound"],
        parts,
    )
}
