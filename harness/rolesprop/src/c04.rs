//! C04 Certificates are accepted exactly when genuinely backed by a quorum.
//!
//! Oracle = construction ground truth (`gen::certs`): the harness knows which signatures it
//! aggregated and what the certificate claims; `verify()` must return Ok iff the claim is backed.
use common::{run_enum, run_proptest, Choices, Env, Mode, PartOpts, PartReport, Stats};
use gen::{
    certs::{self, Chain, CommitQcSpec, TSigOver, TimeoutMsgSpec, TimeoutQcSpec, VoteSpec},
    CommitteeSpec, POOL,
};
use proptest::prelude::*;
use serde::{Deserialize, Serialize};
use zksync_consensus_roles::validator::{self, v2};

#[derive(Debug, Clone, Serialize, Deserialize, Hash)]
pub enum Just {
    Commit(CommitQcSpec),
    Timeout(TimeoutQcSpec),
}

#[derive(Debug, Clone, Serialize, Deserialize, Hash)]
pub enum Obj {
    Commit(CommitQcSpec),
    Timeout(TimeoutQcSpec),
    Block { qc: CommitQcSpec, payload: u8 },
    Proposal { payload: Option<u8>, just: Just },
    NewView { just: Just },
    TimeoutMsg(TimeoutMsgSpec),
}

#[derive(Debug, Clone, Serialize, Deserialize, Hash)]
pub struct Case {
    committee: CommitteeSpec,
    /// Label of the corruption applied by the generator ("none" if honest).
    corruption: String,
    /// Class of the signer set relative to the quorum.
    signers_class: String,
    obj: Obj,
}

// ---------------------------------------------------------------------------------------------
// generators

pub fn gen_committee(ch: &mut Choices, nmax: usize) -> CommitteeSpec {
    let n = 1 + ch.below(nmax);
    let weights: Vec<u64> = match ch.below(6) {
        0 | 1 => vec![1; n],
        2 => {
            let mut v = vec![1; n];
            let i = ch.below(n);
            v[i] = ch.range(2, 9);
            v
        }
        3 | 4 => (0..n).map(|_| ch.range(1, 4)).collect(),
        _ => (0..n).map(|_| ch.range(1, 60)).collect(),
    };
    // leader eligibility has nothing to do with the weight of a signer set: half of the committees have members that
    // are not eligible (at least one member is)
    let mut leaders = vec![true; n];
    if ch.bool() {
        for l in leaders.iter_mut() {
            *l = ch.bool();
        }
        let keep = ch.below(n);
        leaders[keep] = true;
    }
    CommitteeSpec {
        weights,
        leaders,
        weighted: false,
        frequency: 1,
        key_offset: ch.below(POOL - n),
        first_block: 0,
    }
}

/// A key index outside the committee.
fn outsider(ch: &mut Choices, spec: &CommitteeSpec) -> usize {
    let outs: Vec<usize> = (0..POOL)
        .filter(|k| *k < spec.key_offset || *k >= spec.key_offset + spec.n())
        .collect();
    ch.pick(&outs)
}

/// Signer set around the quorum threshold.
pub fn gen_signers(ch: &mut Choices, spec: &CommitteeSpec) -> (Vec<bool>, &'static str) {
    let n = spec.n();
    let q = certs::quorum(spec);
    let perm = ch.perm(n);
    let w = |m: &[bool]| certs::weight(spec, m).unwrap();
    let minimal = |perm: &[usize]| {
        let mut m = vec![false; n];
        for &i in perm {
            if w(&m) >= q {
                break;
            }
            m[i] = true;
        }
        for &i in perm.iter().rev() {
            if m[i] {
                m[i] = false;
                if w(&m) < q {
                    m[i] = true;
                }
            }
        }
        m
    };
    match ch.weighted(&[(3, 0), (3, 1), (1, 2), (2, 3), (1, 4)]) {
        0 => (minimal(&perm), "minimal_quorum"),
        1 => {
            let mut m = minimal(&perm);
            // remove the lightest signer: the heaviest set below the quorum reachable from it
            let i = (0..n).filter(|i| m[*i]).min_by_key(|i| spec.weights[*i]).unwrap();
            m[i] = false;
            (m, "one_signer_below_quorum")
        }
        2 => (vec![true; n], "all"),
        3 => (ch.mask(n), "random"),
        _ => {
            let mut m = minimal(&perm);
            if let Some(i) = (0..n).find(|i| !m[*i]) {
                m[i] = true;
            }
            (m, "minimal_plus_one")
        }
    }
}

fn gen_vote(ch: &mut Choices, max_view: u64) -> VoteSpec {
    VoteSpec {
        view: ch.range(0, max_view),
        number: ch.range(0, 5),
        payload: ch.below(4) as u8,
        chain: Chain::Ours,
    }
}

fn alter_vote(ch: &mut Choices, v: VoteSpec) -> VoteSpec {
    let mut v = v;
    match ch.below(4) {
        0 => v.payload = v.payload.wrapping_add(1),
        1 => v.number += 1,
        2 => v.view += 1,
        _ => v.chain = Chain::Foreign,
    }
    v
}

fn set_bits(m: &[bool]) -> Vec<usize> {
    (0..m.len()).filter(|i| m[*i]).collect()
}
fn unset_bits(m: &[bool]) -> Vec<usize> {
    (0..m.len()).filter(|i| !m[*i]).collect()
}

/// Applies one corruption to an honest commit certificate; returns its label.
pub fn corrupt_commit(ch: &mut Choices, spec: &CommitteeSpec, s: &mut CommitQcSpec) -> &'static str {
    let ins = set_bits(&s.bitmap);
    let outs = unset_bits(&s.bitmap);
    let off = spec.key_offset;
    let mut k = 1 + ch.below(13);
    loop {
        match k {
            1 if !s.sigs.is_empty() => {
                let i = ch.below(s.sigs.len());
                s.sigs.remove(i);
                return "drop_signature";
            }
            2 if !outs.is_empty() => {
                s.sigs.push((off + ch.pick(&outs), s.vote));
                return "extra_signature_not_in_bitmap";
            }
            3 if !s.sigs.is_empty() => {
                let i = ch.below(s.sigs.len());
                s.sigs[i].1 = alter_vote(ch, s.vote);
                return "signature_over_other_vote";
            }
            4 if !s.sigs.is_empty() => {
                let i = ch.below(s.sigs.len());
                let d = s.sigs[i];
                s.sigs.push(d);
                return "same_signature_twice";
            }
            5 => {
                s.sigs.push((outsider(ch, spec), s.vote));
                return "non_member_signature";
            }
            6 if !outs.is_empty() => {
                s.bitmap[ch.pick(&outs)] = true;
                return "extra_bit_without_signature";
            }
            7 => {
                // shorter bitmap; keep the signatures consistent with the remaining bits
                let last = s.bitmap.len() - 1;
                if s.bitmap[last] {
                    s.sigs.retain(|x| x.0 != off + last);
                }
                s.bitmap.pop();
                return "bitmap_shorter";
            }
            8 => {
                s.bitmap.push(ch.bool());
                return "bitmap_longer";
            }
            9 => {
                s.vote.chain = Chain::Foreign;
                for x in &mut s.sigs {
                    x.1 = s.vote;
                }
                return "foreign_genesis";
            }
            10 => {
                s.vote.chain = Chain::OtherEpoch;
                for x in &mut s.sigs {
                    x.1 = s.vote;
                }
                return "other_epoch";
            }
            11 if !s.sigs.is_empty() && !outs.is_empty() => {
                let i = ch.below(s.sigs.len());
                s.sigs[i].0 = off + ch.pick(&outs);
                return "signature_by_other_member";
            }
            12 if !ins.is_empty() => {
                s.bitmap[ch.pick(&ins)] = false;
                return "cleared_bit_with_signature";
            }
            13 if !s.sigs.is_empty() => {
                let i = ch.below(s.sigs.len());
                s.sigs[i].0 = outsider(ch, spec);
                return "signature_by_non_member_instead";
            }
            _ => {}
        }
        // not applicable: fall back to one that always is
        k = if k == 5 { 8 } else { 5 };
    }
}

pub fn gen_commit(ch: &mut Choices, spec: &CommitteeSpec, corrupt: bool, max_view: u64) -> (CommitQcSpec, String, &'static str) {
    let (signers, class) = gen_signers(ch, spec);
    let vote = gen_vote(ch, max_view);
    let mut s = CommitQcSpec::honest(spec, vote, &signers);
    let label = if corrupt {
        corrupt_commit(ch, spec, &mut s).to_string()
    } else {
        "none".to_string()
    };
    (s, label, class)
}

fn gen_timeout_msg(ch: &mut Choices, spec: &CommitteeSpec, view: u64, g: usize) -> TimeoutMsgSpec {
    let high_vote = ch.chance(2, 3).then(|| VoteSpec {
        view: ch.range(0, view.saturating_sub(1)),
        number: ch.range(0, 5),
        payload: (g * 16 + ch.below(4)) as u8,
        chain: Chain::Ours,
    });
    let high_qc = ch.chance(1, 2).then(|| {
        // nested certificate: honest, signed by a minimal quorum or everybody
        let signers = if ch.bool() {
            vec![true; spec.n()]
        } else {
            let mut m = vec![false; spec.n()];
            for i in ch.perm(spec.n()) {
                if certs::weight(spec, &m).unwrap() >= certs::quorum(spec) {
                    break;
                }
                m[i] = true;
            }
            m
        };
        CommitQcSpec::honest(
            spec,
            VoteSpec {
                view: ch.range(0, view.saturating_sub(1)),
                number: ch.range(0, 5),
                payload: (200 + g) as u8,
                chain: Chain::Ours,
            },
            &signers,
        )
    });
    TimeoutMsgSpec {
        view,
        chain: Chain::Ours,
        // make group messages pairwise distinct even when both optional parts are absent
        high_vote: high_vote.or(if g > 0 {
            Some(VoteSpec { view: 0, number: 0, payload: (g * 16) as u8, chain: Chain::Ours })
        } else {
            None
        }),
        high_qc,
    }
}

pub fn corrupt_timeout(ch: &mut Choices, spec: &CommitteeSpec, s: &mut TimeoutQcSpec) -> String {
    let n = spec.n();
    let off = spec.key_offset;
    let k = s.groups.len();
    let taken: Vec<bool> = (0..n)
        .map(|i| s.groups.iter().any(|g| g.1.get(i).copied().unwrap_or(false)))
        .collect();
    let free = unset_bits(&taken);
    let mut c = 1 + ch.below(18);
    loop {
        match c {
            1 if !s.sigs.is_empty() => {
                let i = ch.below(s.sigs.len());
                s.sigs.remove(i);
                return "drop_signature".into();
            }
            2 if !free.is_empty() => {
                s.sigs.push((off + ch.pick(&free), TSigOver::Group(ch.below(k))));
                return "extra_signature_not_in_bitmap".into();
            }
            3 if !s.sigs.is_empty() => {
                let i = ch.below(s.sigs.len());
                let TSigOver::Group(g) = s.sigs[i].1.clone() else { unreachable!() };
                let mut m = s.groups[g].0.clone();
                match ch.below(3) {
                    0 => m.view += 1,
                    1 => m.high_vote = Some(VoteSpec { view: 0, number: 9, payload: 99, chain: Chain::Ours }),
                    _ => m.high_qc = None,
                }
                if m == s.groups[g].0 {
                    m.view += 1;
                }
                s.sigs[i].1 = TSigOver::Other(m);
                return "signature_over_other_message".into();
            }
            4 if !s.sigs.is_empty() => {
                let i = ch.below(s.sigs.len());
                let d = s.sigs[i].clone();
                s.sigs.push(d);
                return "same_signature_twice".into();
            }
            5 => {
                s.sigs.push((outsider(ch, spec), TSigOver::Group(ch.below(k))));
                return "non_member_signature".into();
            }
            6 if !free.is_empty() => {
                let g = ch.below(k);
                s.groups[g].1[ch.pick(&free)] = true;
                return "extra_bit_without_signature".into();
            }
            7 => {
                let g = ch.below(k);
                if ch.bool() {
                    let last = s.groups[g].1.len() - 1;
                    if s.groups[g].1[last] {
                        s.sigs.retain(|x| x.0 != off + last);
                    }
                    s.groups[g].1.pop();
                    return "group_bitmap_shorter".into();
                }
                s.groups[g].1.push(false);
                return "group_bitmap_longer".into();
            }
            8 => {
                let chain = if ch.bool() { Chain::Foreign } else { Chain::OtherEpoch };
                s.chain = chain;
                for g in &mut s.groups {
                    g.0.chain = chain;
                }
                return format!("whole_certificate_{chain:?}");
            }
            9 => {
                // signer of one group also listed in another one
                let ins: Vec<(usize, usize)> = s
                    .groups
                    .iter()
                    .enumerate()
                    .flat_map(|(g, x)| set_bits(&x.1).into_iter().map(move |i| (g, i)))
                    .collect();
                if ins.is_empty() {
                    c = 5;
                    continue;
                }
                let (g1, i) = ch.pick(&ins);
                let g2 = if k >= 2 {
                    (g1 + 1 + ch.below(k - 1)) % k
                } else {
                    let mut m = s.groups[0].0.clone();
                    m.high_vote = Some(VoteSpec { view: 0, number: 7, payload: 77, chain: Chain::Ours });
                    s.groups.push((m, vec![false; n]));
                    1
                };
                s.groups[g2].1[i] = true;
                if ch.bool() {
                    s.sigs.push((off + i, TSigOver::Group(g2)));
                    return "signer_in_two_groups_both_signatures".into();
                }
                return "signer_in_two_groups_one_signature".into();
            }
            10 => {
                let mut m = s.groups[0].0.clone();
                m.high_vote = Some(VoteSpec { view: 0, number: 8, payload: 88, chain: Chain::Ours });
                s.groups.push((m, vec![false; n]));
                return "empty_group".into();
            }
            11 => {
                let g = ch.below(k);
                s.groups[g].0.view += 1;
                return "group_with_other_view".into();
            }
            12 => {
                let g = ch.below(k);
                let (q, label, _) = gen_commit(ch, spec, true, s.view);
                s.groups[g].0.high_qc = Some(q);
                return format!("nested_high_qc_{label}");
            }
            13 => {
                // nested certificate below the quorum, honestly signed
                let g = ch.below(k);
                let mut m = vec![true; n];
                m[ch.below(n)] = false;
                while certs::weight(spec, &m).unwrap() >= certs::quorum(spec) {
                    let ins = set_bits(&m);
                    m[ch.pick(&ins)] = false;
                }
                s.groups[g].0.high_qc = Some(CommitQcSpec::honest(
                    spec,
                    VoteSpec { view: 0, number: 1, payload: 201, chain: Chain::Ours },
                    &m,
                ));
                return "nested_high_qc_under_weight".into();
            }
            14 => {
                let g = ch.below(k);
                let hv = s.groups[g].0.high_vote.get_or_insert(VoteSpec { view: 0, number: 1, payload: 5, chain: Chain::Ours });
                hv.chain = if ch.bool() { Chain::Foreign } else { Chain::OtherEpoch };
                return "high_vote_of_other_chain".into();
            }
            15 if k >= 2 => {
                // two signers of different groups sign each other's message
                let a = s.sigs.iter().position(|x| x.1 == TSigOver::Group(0));
                let b = s.sigs.iter().position(|x| x.1 == TSigOver::Group(1));
                if let (Some(a), Some(b)) = (a, b) {
                    s.sigs[a].1 = TSigOver::Group(1);
                    s.sigs[b].1 = TSigOver::Group(0);
                    return "signatures_swapped_between_groups".into();
                }
            }
            16 => {
                s.view += 1;
                return "certificate_view_differs_from_groups".into();
            }
            17 => {
                let g = ch.below(k);
                s.groups[g].0.chain = Chain::Foreign;
                return "one_group_of_other_chain".into();
            }
            18 if !s.sigs.is_empty() && !free.is_empty() => {
                let i = ch.below(s.sigs.len());
                s.sigs[i].0 = off + ch.pick(&free);
                return "signature_by_other_member".into();
            }
            _ => {}
        }
        c = if c == 5 { 10 } else { 5 };
    }
}

pub fn gen_timeout(ch: &mut Choices, spec: &CommitteeSpec, corrupt: bool) -> (TimeoutQcSpec, String, &'static str) {
    let view = ch.range(1, 30);
    let k = 1 + ch.below(3);
    let (signers, class) = gen_signers(ch, spec);
    let msgs: Vec<_> = (0..k).map(|g| gen_timeout_msg(ch, spec, view, g)).collect();
    let assign: Vec<Option<usize>> = signers.iter().map(|b| b.then(|| ch.below(k))).collect();
    let mut s = TimeoutQcSpec::honest(spec, view, msgs, &assign);
    if s.groups.is_empty() {
        // nobody signed: keep one (empty) group out of the picture, this is the empty certificate
        return (s, "none".into(), class);
    }
    let label = if corrupt { corrupt_timeout(ch, spec, &mut s) } else { "none".into() };
    (s, label, class)
}

fn gen_just(ch: &mut Choices, spec: &CommitteeSpec, corrupt: bool) -> (Just, String, &'static str) {
    if ch.bool() {
        let (q, l, c) = gen_commit(ch, spec, corrupt, 30);
        (Just::Commit(q), l, c)
    } else {
        let (q, l, c) = gen_timeout(ch, spec, corrupt);
        (Just::Timeout(q), l, c)
    }
}

pub fn gen_case(ch: &mut Choices, nmax: usize) -> Case {
    let committee = gen_committee(ch, nmax);
    let corrupt = ch.chance(3, 5);
    let kind = ch.weighted(&[(4, 0), (4, 1), (2, 2), (2, 3), (1, 4), (1, 5)]);
    let (obj, corruption, class) = match kind {
        0 => {
            let (q, l, c) = gen_commit(ch, &committee, corrupt, 30);
            (Obj::Commit(q), l, c)
        }
        1 => {
            let (q, l, c) = gen_timeout(ch, &committee, corrupt);
            (Obj::Timeout(q), l, c)
        }
        2 => {
            let cq = ch.bool();
            let (q, l, c) = gen_commit(ch, &committee, corrupt && cq, 30);
            let mismatch = corrupt && (l == "none" || ch.chance(1, 4));
            let payload = if mismatch { q.vote.payload.wrapping_add(1) } else { q.vote.payload };
            let l = if mismatch { format!("{l}+payload_mismatch") } else { l };
            (Obj::Block { qc: q, payload }, l, c)
        }
        3 => {
            let (j, l, c) = gen_just(ch, &committee, corrupt);
            (Obj::Proposal { payload: ch.bool().then(|| ch.below(4) as u8), just: j }, l, c)
        }
        4 => {
            let (j, l, c) = gen_just(ch, &committee, corrupt);
            (Obj::NewView { just: j }, l, c)
        }
        _ => {
            let view = ch.range(1, 30);
            let mut m = gen_timeout_msg(ch, &committee, view, 0);
            let mut l = "none".to_string();
            if corrupt {
                match ch.below(3) {
                    0 => {
                        let (q, ql, _) = gen_commit(ch, &committee, true, 30);
                        m.high_qc = Some(q);
                        l = format!("nested_high_qc_{ql}");
                    }
                    1 => {
                        m.high_vote = Some(VoteSpec { view: 0, number: 0, payload: 0, chain: Chain::Foreign });
                        l = "high_vote_of_other_chain".into();
                    }
                    _ => {
                        m.chain = Chain::OtherEpoch;
                        l = "other_epoch".into();
                    }
                }
            }
            (Obj::TimeoutMsg(m), l, "n/a")
        }
    };
    Case { committee, corruption, signers_class: class.to_string(), obj }
}

// ---------------------------------------------------------------------------------------------
// oracle

fn build_just(j: &Just, spec: &CommitteeSpec, c: &gen::Committee) -> Option<(v2::ProposalJustification, bool)> {
    Some(match j {
        Just::Commit(q) => (v2::ProposalJustification::Commit(q.build(c)), q.valid(spec)),
        Just::Timeout(q) => (v2::ProposalJustification::Timeout(q.build(c)?), q.valid(spec, c)),
    })
}

pub fn check(case: &Case, st: &mut Stats) -> Result<(), String> {
    let spec = &case.committee;
    let c = spec.build();
    let (gh, ep, sch) = (c.gh(), c.epoch, &c.schedule);
    type VerifyIn<'a> = Box<dyn 'a + Fn(validator::GenesisHash, validator::EpochNumber, &validator::Schedule) -> Result<(), String>>;
    let (kind, expect, verify_in): (&str, bool, VerifyIn) = match &case.obj {
        Obj::Commit(q) => {
            let real = q.build(&c);
            ("commit_qc", q.valid(spec), Box::new(move |g, e, s| real.verify(g, e, s).map_err(|e| format!("{e:#}"))))
        }
        Obj::Timeout(q) => {
            let Some(real) = q.build(&c) else {
                st.class("discarded_colliding_groups");
                return Ok(());
            };
            ("timeout_qc", q.valid(spec, &c), Box::new(move |g, e, s| real.verify(g, e, s).map_err(|e| format!("{e:#}"))))
        }
        Obj::Block { qc, payload } => {
            let b = v2::FinalBlock { payload: certs::payload(*payload), justification: qc.build(&c) };
            ("final_block", qc.valid(spec) && *payload == qc.vote.payload, Box::new(move |g, e, s| b.verify(g, e, s).map_err(|e| format!("{e:#}"))))
        }
        Obj::Proposal { payload, just } => {
            let Some((j, v)) = build_just(just, spec, &c) else {
                st.class("discarded_colliding_groups");
                return Ok(());
            };
            let p = v2::LeaderProposal { proposal_payload: payload.map(certs::payload), justification: j };
            ("leader_proposal", v, Box::new(move |g, e, s| p.verify(g, e, s).map_err(|e| format!("{e:#}"))))
        }
        Obj::NewView { just } => {
            let Some((j, v)) = build_just(just, spec, &c) else {
                st.class("discarded_colliding_groups");
                return Ok(());
            };
            let p = v2::ReplicaNewView { justification: j };
            ("replica_new_view", v, Box::new(move |g, e, s| p.verify(g, e, s).map_err(|e| format!("{e:#}"))))
        }
        Obj::TimeoutMsg(m) => {
            let real = m.build(&c);
            ("replica_timeout", m.valid(spec), Box::new(move |g, e, s| real.verify(g, e, s).map_err(|e| format!("{e:#}"))))
        }
    };
    let got = verify_in(gh, ep, sch);
    // the verdict belongs to the context: the very object that has just been accepted for this chain, epoch and
    // committee must be refused for another chain, for another epoch, and by a committee with other keys; and it is
    // accepted again when asked again in its own context
    if expect && got.is_ok() {
        let other_committee = {
            let mut o = spec.clone();
            o.key_offset = if o.key_offset + o.n() < gen::POOL { o.key_offset + 1 } else { o.key_offset - 1 };
            o.build()
        };
        let foreign = c.foreign_genesis().hash();
        for (what, r) in [
            ("another chain (genesis hash)", verify_in(foreign, ep, sch)),
            ("the next epoch", verify_in(gh, validator::EpochNumber(ep.0 + 1), sch)),
            ("a committee with other keys", verify_in(gh, ep, &other_committee.schedule)),
        ] {
            // a timeout vote without a nested certificate carries no signature of its own (that is in the envelope)
            if r.is_ok() && !(kind == "replica_timeout" && what.starts_with("a committee")) {
                return Err(format!("{kind}: accepted in its own context and then, unchanged, also for {what}"));
            }
        }
        if let Err(e) = verify_in(gh, ep, sch) {
            return Err(format!("{kind}: accepted, then refused when verified again in the same context ({e})"));
        }
        st.class("verified_in_four_contexts");
    }
    st.class(&format!("kind={kind}"));
    st.class(&format!("corruption={}", case.corruption));
    st.class(&format!("signers={}", case.signers_class));
    st.class(if expect { "expected_accept" } else { "expected_reject" });
    if case.corruption != "none" || matches!(case.signers_class.as_str(), "minimal_quorum" | "one_signer_below_quorum") {
        st.nontrivial(common::fingerprint(case));
    }
    st.sample(|| serde_json::json!({"case": case, "expected_valid": expect, "verify": format!("{got:?}")}));
    match (expect, got) {
        (true, Ok(())) | (false, Err(_)) => Ok(()),
        (true, Err(e)) => Err(format!("{kind}: genuinely backed certificate rejected ({e}); corruption={} signers={}", case.corruption, case.signers_class)),
        (false, Ok(())) => Err(format!("{kind}: certificate that is NOT genuinely backed was accepted; corruption={} signers={}", case.corruption, case.signers_class)),
    }
}

// ---------------------------------------------------------------------------------------------
// incremental assembly

#[derive(Debug, Clone, Serialize, Deserialize, Hash)]
pub struct AddOp {
    /// Pool key index named in the `Signed` envelope.
    key: usize,
    /// Who actually signs.
    sig_by: usize,
    /// Whether the signature is over the enclosed message (else over an altered one).
    sig_over_msg: bool,
    /// Commit: the vote. Timeout: the message.
    vote: Option<VoteSpec>,
    tmsg: Option<TimeoutMsgSpec>,
    label: String,
}

#[derive(Debug, Clone, Serialize, Deserialize, Hash)]
pub struct AddCase {
    committee: CommitteeSpec,
    /// Commit certificate under assembly (None => timeout certificate).
    base_vote: Option<VoteSpec>,
    view: u64,
    chain: Chain,
    ops: Vec<AddOp>,
}

pub fn gen_add_case(ch: &mut Choices, nmax: usize) -> AddCase {
    let committee = gen_committee(ch, nmax);
    let n = committee.n();
    let off = committee.key_offset;
    let commit = ch.bool();
    let chain = ch.weighted(&[(8, Chain::Ours), (1, Chain::Foreign), (1, Chain::OtherEpoch)]);
    let view = ch.range(1, 20);
    let base_vote = commit.then(|| VoteSpec { view, number: ch.range(0, 5), payload: ch.below(3) as u8, chain });
    let nops = 1 + ch.below(2 * n + 4);
    let order = ch.perm(n);
    let mut next = 0usize;
    let mut ops = vec![];
    for _ in 0..nops {
        let kind = ch.weighted(&[(8, 0), (2, 1), (1, 2), (2, 3), (2, 4), (1, 5), (1, 6)]);
        // members mostly arrive in a fresh order, so quorum is reached in most sequences
        let fresh = off + order[next % n];
        let any = off + ch.below(n);
        let tm = |ch: &mut Choices, view: u64, chain: Chain| {
            let g = ch.below(3);
            let mut m = gen_timeout_msg(ch, &committee, view, g);
            m.chain = chain;
            m
        };
        let mut op = AddOp {
            key: fresh,
            sig_by: fresh,
            sig_over_msg: true,
            vote: base_vote,
            tmsg: (!commit).then(|| tm(ch, view, chain)),
            label: "valid_vote".into(),
        };
        match kind {
            0 => next += 1,
            1 => {
                op.key = any;
                op.sig_by = any;
                op.label = "possibly_repeated_signer".into();
            }
            2 => {
                let o = outsider(ch, &committee);
                op.key = o;
                op.sig_by = o;
                op.label = "non_member".into();
            }
            3 => {
                if commit {
                    op.vote = Some(alter_vote(ch, base_vote.unwrap()));
                } else {
                    let m = op.tmsg.as_mut().unwrap();
                    match ch.below(3) {
                        0 => m.view += 1,
                        1 => m.chain = Chain::Foreign,
                        _ => m.chain = Chain::OtherEpoch,
                    }
                }
                op.label = "different_vote_or_view".into();
            }
            4 => {
                op.sig_by = if ch.bool() { off + order[(next + 1) % n] } else { outsider(ch, &committee) };
                if op.sig_by == op.key {
                    op.sig_over_msg = false;
                }
                op.label = "signature_by_another_key".into();
            }
            5 => {
                op.sig_over_msg = false;
                op.label = "signature_over_another_message".into();
            }
            _ => {
                if !commit {
                    let m = op.tmsg.as_mut().unwrap();
                    if ch.bool() {
                        let (q, _, _) = gen_commit(ch, &committee, true, view);
                        m.high_qc = Some(q);
                        op.label = "timeout_with_corrupt_high_qc".into();
                    } else {
                        m.high_vote = Some(VoteSpec { view: 0, number: 0, payload: 1, chain: Chain::Foreign });
                        op.label = "timeout_with_foreign_high_vote".into();
                    }
                } else {
                    next += 1;
                }
            }
        }
        ops.push(op);
    }
    AddCase { committee, base_vote, view, chain, ops }
}

pub fn check_add(case: &AddCase, st: &mut Stats) -> Result<(), String> {
    let spec = &case.committee;
    let c = spec.build();
    let (gh, ep, sch) = (c.gh(), c.epoch, &c.schedule);
    let n = spec.n();
    let off = spec.key_offset;
    let member = |k: usize| (k >= off && k < off + n).then(|| k - off);
    let mut present = vec![false; n];
    let q = certs::quorum(spec);
    let mut reached = false;
    let mut refused = 0;
    let keys = gen::val_keys();
    if let Some(base) = case.base_vote {
        let mut qc = v2::CommitQC::new(base.build(&c), sch);
        for (i, op) in case.ops.iter().enumerate() {
            let vote = op.vote.unwrap();
            let msg = vote.build(&c);
            let signed_over = if op.sig_over_msg { msg.clone() } else { VoteSpec { payload: vote.payload.wrapping_add(7), ..vote }.build(&c) };
            let signed = validator::Signed {
                msg: msg.clone(),
                key: keys[op.key].public(),
                sig: certs::sign(op.sig_by, &signed_over),
            };
            let good_sig = op.sig_by == op.key && op.sig_over_msg;
            let idx = member(op.key);
            let expect = idx.is_some_and(|i| !present[i]) && good_sig && vote == base && base.chain == Chain::Ours;
            let before = qc.clone();
            let got = qc.add(&signed, gh, ep, sch);
            st.class(&format!("op={}", op.label));
            match (expect, &got) {
                (true, Ok(())) => {
                    present[idx.unwrap()] = true;
                    if !qc.signers.0[idx.unwrap()] {
                        return Err(format!("op {i}: add() returned Ok but the signer bit is not set"));
                    }
                }
                (false, Err(_)) => {
                    refused += 1;
                    if qc != before {
                        return Err(format!("op {i} ({}): add() refused the vote but changed the certificate", op.label));
                    }
                }
                (true, Err(e)) => return Err(format!("op {i} ({}): individually valid vote refused: {e:#}", op.label)),
                (false, Ok(())) => return Err(format!("op {i} ({}): add() accepted a vote it must refuse", op.label)),
            }
            let w = certs::weight(spec, &present).unwrap();
            let v = qc.verify(gh, ep, sch);
            let expect_v = base.chain == Chain::Ours && w >= q;
            if v.is_ok() != expect_v {
                return Err(format!("after op {i}: accumulated weight {w} (quorum {q}) but verify() = {v:?}"));
            }
            reached |= expect_v;
        }
    } else {
        let mut qc = v2::TimeoutQC::new(certs::view(&c, case.chain, case.view));
        for (i, op) in case.ops.iter().enumerate() {
            let m = op.tmsg.as_ref().unwrap();
            let msg = m.build(&c);
            let signed_over = if op.sig_over_msg {
                msg.clone()
            } else {
                let mut m2 = m.clone();
                m2.high_vote = Some(VoteSpec { view: 0, number: 3, payload: 250, chain: Chain::Ours });
                m2.build(&c)
            };
            let signed = validator::Signed {
                msg: msg.clone(),
                key: keys[op.key].public(),
                sig: certs::sign(op.sig_by, &signed_over),
            };
            let good_sig = op.sig_by == op.key && op.sig_over_msg;
            let idx = member(op.key);
            let expect = idx.is_some_and(|i| !present[i])
                && good_sig
                && m.view == case.view
                && m.chain == case.chain
                && m.valid(spec);
            let before = qc.clone();
            let got = qc.add(&signed, gh, ep, sch);
            st.class(&format!("op={}", op.label));
            match (expect, &got) {
                (true, Ok(())) => present[idx.unwrap()] = true,
                (false, Err(_)) => {
                    refused += 1;
                    if qc != before {
                        return Err(format!("op {i} ({}): add() refused the vote but changed the certificate", op.label));
                    }
                }
                (true, Err(e)) => return Err(format!("op {i} ({}): individually valid timeout vote refused: {e:#}", op.label)),
                (false, Ok(())) => return Err(format!("op {i} ({}): add() accepted a timeout vote it must refuse", op.label)),
            }
            let w = certs::weight(spec, &present).unwrap();
            let v = qc.verify(gh, ep, sch);
            let expect_v = case.chain == Chain::Ours && w >= q;
            if v.is_ok() != expect_v {
                return Err(format!("after op {i}: accumulated weight {w} (quorum {q}) but verify() = {v:?}"));
            }
            if qc.weight(sch) as u128 != w {
                return Err(format!("after op {i}: TimeoutQC::weight() = {} but {w} was accumulated", qc.weight(sch)));
            }
            reached |= expect_v;
        }
    }
    st.class(if reached { "quorum_reached" } else { "quorum_not_reached" });
    if reached && refused > 0 {
        st.nontrivial(common::fingerprint(case));
    }
    st.sample(|| serde_json::to_value(case).unwrap());
    Ok(())
}

// ---------------------------------------------------------------------------------------------
// exhaustive signer subsets

#[derive(Debug, Clone, Serialize, Deserialize, Hash)]
pub struct SubsetCase {
    weights: Vec<u64>,
    /// Per validator: 0 = does not sign, g = signs in group g (commit certificate: only 0/1).
    assign: Vec<u8>,
    timeout: bool,
}

const WEIGHT_VECTORS: &[&[u64]] = &[
    &[1], &[1, 1], &[1, 1, 1, 1, 1], &[1, 1, 1, 1, 1, 1], &[1, 1, 1, 1, 1, 1, 1, 1],
    &[2, 1, 1, 1, 1], &[3, 2, 2, 1, 1, 1, 1], &[5, 1, 1, 1, 1, 1, 1], &[4, 4, 3, 3, 2, 2, 1, 1],
    &[10, 9, 8, 7, 6, 5, 4, 2], &[1, 2, 3, 4, 5, 6], &[7, 7, 7, 1, 1, 1, 1, 1],
];

fn subset_cases(thorough: bool) -> Vec<SubsetCase> {
    let mut out = vec![];
    for w in WEIGHT_VECTORS {
        let n = w.len();
        for m in 0..(1u32 << n) {
            out.push(SubsetCase {
                weights: w.to_vec(),
                assign: (0..n).map(|i| ((m >> i) & 1) as u8).collect(),
                timeout: false,
            });
        }
        // timeout certificates: every assignment of validators to {absent, group 1, group 2}
        if n <= if thorough { 8 } else { 6 } {
            let total = 3u32.pow(n as u32);
            for mut m in 0..total {
                let assign = (0..n)
                    .map(|_| {
                        let d = (m % 3) as u8;
                        m /= 3;
                        d
                    })
                    .collect();
                out.push(SubsetCase { weights: w.to_vec(), assign, timeout: true });
            }
        }
    }
    out
}

fn check_subset(sc: &SubsetCase, st: &mut Stats) -> Result<(), String> {
    let mut spec = CommitteeSpec::uniform(sc.weights.len());
    spec.weights = sc.weights.clone();
    let c = spec.build();
    let (gh, ep, sch) = (c.gh(), c.epoch, &c.schedule);
    let present: Vec<bool> = sc.assign.iter().map(|a| *a != 0).collect();
    let w = certs::weight(&spec, &present).unwrap();
    let q = certs::quorum(&spec);
    let expect = w >= q;
    let got = if sc.timeout {
        let msgs = (0..2)
            .map(|g| TimeoutMsgSpec {
                view: 3,
                chain: Chain::Ours,
                high_vote: Some(VoteSpec { view: 2, number: 1, payload: g as u8, chain: Chain::Ours }),
                high_qc: None,
            })
            .collect();
        let assign: Vec<Option<usize>> = sc.assign.iter().map(|a| (*a != 0).then(|| *a as usize - 1)).collect();
        let qs = TimeoutQcSpec::honest(&spec, 3, msgs, &assign);
        if qs.valid(&spec, &c) != expect {
            return Err("harness: ground truth disagrees with weight rule".into());
        }
        qs.build(&c).unwrap().verify(gh, ep, sch).map_err(|e| format!("{e:#}"))
    } else {
        let qs = CommitQcSpec::honest(&spec, VoteSpec { view: 3, number: 1, payload: 0, chain: Chain::Ours }, &present);
        qs.build(&c).verify(gh, ep, sch).map_err(|e| format!("{e:#}"))
    };
    st.class(if expect { "at_or_above_quorum" } else { "below_quorum" });
    if w == q || w + (*sc.weights.iter().min().unwrap() as u128) >= q && w < q {
        st.class("boundary");
        st.nontrivial_counted += 1;
    }
    st.sample(|| serde_json::json!({"case": sc, "weight": w as u64, "quorum": q as u64, "verify_ok": got.is_ok()}));
    if got.is_ok() != expect {
        return Err(format!(
            "honest {} certificate with signer weight {w} (quorum {q}): verify() = {got:?}",
            if sc.timeout { "timeout" } else { "commit" }
        ));
    }
    Ok(())
}

pub fn main(env: &Env) -> i32 {
    if let Mode::Replay(path) = env.mode() {
        let (part, case) = Env::read_replay(&path);
        let r = match part.as_str() {
            "verify" => common::replay_case::<Case>(case, check),
            "add" => common::replay_case::<AddCase>(case, check_add),
            "subsets" => common::replay_case::<SubsetCase>(case, check_subset),
            p => Err(format!("unknown part {p}")),
        };
        return env.finish_replay(&path, r);
    }
    let mut parts: Vec<PartReport> = vec![];
    parts.extend(common::run_regress::<Case>(env, "verify", check));
    parts.extend(common::run_regress::<AddCase>(env, "add", check_add));
    let nmax = env.tier.pick(10, 20);
    parts.push(run_proptest(
        env,
        "verify",
        "committee 1..10 (thorough 20) with weights {all 1, one heavy, 1..4, 1..60}; object in {CommitQC, TimeoutQC (1-3 groups, nested high QC), FinalBlock, LeaderProposal, \
         ReplicaNewView, ReplicaTimeout}; signer set {minimal quorum, minimal minus lightest signer, all, random, minimal+1}; zero or one corruption from 13 commit-level and 18 timeout-level kinds; \
         oracle: verify() is Ok iff the construction ground truth says genuinely backed; non-trivial = exactly one corruption or signer weight at / one signer below the quorum; distinct = whole case",
        PartOpts { cases: env.tier.pick(12_000, 300_000), max_shrink_iters: 3000, samples: 3 },
        || Choices::strategy(160).prop_map(move |mut ch| gen_case(&mut ch, nmax)),
        check,
    ));
    parts.push(run_proptest(
        env,
        "add",
        "incremental CommitQC::add / TimeoutQC::add sequences (1..2n+4 ops) mixing valid votes with repeated signers, non-members, other votes/views/chains, signatures by another key or over another message, \
         timeout votes with corrupt nested certificates; oracle: add() Ok iff member, not yet present, same vote/view, good signature, valid message; refused add leaves the certificate unchanged; \
         after every op verify() Ok iff accumulated weight >= quorum; non-trivial = quorum reached and at least one op refused",
        PartOpts { cases: env.tier.pick(4_000, 100_000), max_shrink_iters: 3000, samples: 2 },
        || Choices::strategy(260).prop_map(move |mut ch| gen_add_case(&mut ch, nmax.min(12))),
        check_add,
    ));
    let subsets = subset_cases(env.tier == common::Tier::Thorough);
    parts.push(run_enum(
        env,
        "subsets",
        "for 12 weight vectors (n <= 8): every signer subset of an honest CommitQC, and for n <= 6 (thorough 8) every assignment of validators to {absent, group 1, group 2} of an honest TimeoutQC; \
         verify() Ok iff weight >= n-f; non-trivial = weight equals the quorum or is within one lightest validator below it (counted, distinct by enumeration)",
        true,
        2,
        |shard, shards| subsets.clone().into_iter().skip(shard).step_by(shards),
        check_subset,
    ));
    env.finish(
        "exploration",
        "generated certificates judged by construction ground truth; signer subsets exhaustive for 12 weight vectors with n <= 8",
        &["BLS aggregate equality: a different multiset of (signer, message) signatures yields a different aggregate except with negligible probability",
          "the harness' own u128 quorum arithmetic (the library's is judged by C07)"],
        parts,
    )
}
