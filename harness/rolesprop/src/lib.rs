//! Checks over pure functions of the roles / protobuf crates: C02 (decision function), C04, C07,
//! C09, C11.
pub mod c02;
pub mod c04;
pub mod c07;
pub mod c09;
pub mod c11;

/// Entry point of the engine binary.
pub fn engine_main() -> ! {
    common::set_fuzz_registry(fuzz_registry());
    let env = common::Env::from_args();
    let code = match env.property.as_str() {
        "C02" => c02::main(&env),
        "C04" => c04::main(&env),
        "C07" => c07::main(&env),
        "C09" => c09::main(&env),
        "C11" => c11::main(&env),
        p => {
            eprintln!("rolesprop: unknown property {p}");
            2
        }
    };
    std::process::exit(code);
}

/// Parts that the libFuzzer bridge (`/verif/fuzz`) can drive.
pub fn fuzz_registry() -> Vec<common::FuzzEntry> {
    use common::fuzz_entry;
    vec![
        fuzz_entry!("C02", "decision", 120, |ch: &mut common::Choices| c02::gen_case(ch, 12), c02::check),
        fuzz_entry!("C02", "rules", 60, c02::gen_rule_case, c02::check_rules),
        fuzz_entry!("C04", "verify", 160, |ch: &mut common::Choices| c04::gen_case(ch, 12), c04::check),
        fuzz_entry!("C04", "add", 260, |ch: &mut common::Choices| c04::gen_add_case(ch, 10), c04::check_add),
        fuzz_entry!("C09", "types", 201, c09::fuzz_gen, c09::check),
        fuzz_entry!("C09", "packed_scalars", 400, c09::fuzz_gen_pack, c09::check_pack),
    ]
}
