//! C02 (a) Certificate uniqueness at the level of the decision function
//! `ProposalJustification::get_implied_block`.
//!
//! Domain: abstract timeout certificates that can be assembled from a committee in which at most f
//! weight is Byzantine, after a quorum Q has voted to commit block (N,h) in view v (optionally the
//! certificate for (N,h) exists, optionally a set A of correct replicas has gone on to vote for
//! (N+1,x) without reaching a quorum). Signatures are dummies: the decision function never verifies.
//!
//! Oracle (statement of C02, independent of the implementation): the implied block (num, hash) of
//! every such certificate satisfies num >= N; num == N => hash == Some(h); num <= N+1; and
//! num == N+1 only if some signer reported the certificate for (N,h).
//! A second part compares the function against the stand-alone rules of the statement on arbitrary
//! (unconstrained) certificates.
use std::collections::BTreeMap;

use bit_vec::BitVec;
use common::{run_enum, run_proptest, Choices, Env, Mode, PartOpts, PartReport, Stats, Tier};
use gen::{certs, CommitteeSpec};
use proptest::prelude::*;
use serde::{Deserialize, Serialize};
use zksync_consensus_roles::validator::{
    self,
    v2::{BlockHeader, CommitQC, ProposalJustification, ReplicaCommit, ReplicaTimeout, Signers, TimeoutQC},
    BlockNumber,
};

/// What one signer of the timeout certificate reports.
#[derive(Debug, Clone, Copy, Serialize, Deserialize, Hash, PartialEq, Eq, PartialOrd, Ord)]
pub struct Report {
    /// High vote: (view, block number relative to N as offset+2 i.e. 0 => N-2 ... 4 => N+2, payload id).
    hv: Option<(u64, u8, u8)>,
    /// High certificate: index into the existing certificates (0 => N-2, 1 => N-1, 2 => N).
    qc: Option<u8>,
}

#[derive(Debug, Clone, Serialize, Deserialize, Hash)]
pub struct Case {
    weights: Vec<u64>,
    /// Byzantine validators (weight <= f).
    byz: Vec<bool>,
    /// Validators that voted to commit (N,h) in view V (weight >= n-f).
    q: Vec<bool>,
    /// Correct validators that then voted for (N+1,x) in view V+1 (with byz: weight < n-f).
    a: Vec<bool>,
    /// First block of the fork.
    first: u64,
    /// N = first + d.
    d: u64,
    /// Whether the certificate for (N,h) exists (required when `a` is non-empty).
    qcn: bool,
    /// Report of each validator; None = not a signer of the timeout certificate.
    reports: Vec<Option<Report>>,
}

const V: u64 = 10; // view in which the quorum voted for (N,h)
const H: u8 = 0; // payload id of h
const X: u8 = 3; // payload id of x (block N+1)
const G: u8 = 4; // payload id of block N-1

fn spec_of(weights: &[u64]) -> CommitteeSpec {
    let mut s = CommitteeSpec::uniform(weights.len());
    s.weights = weights.to_vec();
    s
}

/// The (never verified) aggregate signature of the abstract certificates; decoding the point at
/// infinity includes a subgroup check, so it is done once.
fn dummy_sig() -> validator::AggregateSignature {
    static S: std::sync::OnceLock<validator::AggregateSignature> = std::sync::OnceLock::new();
    S.get_or_init(validator::AggregateSignature::default).clone()
}

thread_local! {
    static COMMITTEES: std::cell::RefCell<std::collections::HashMap<Vec<u64>, std::rc::Rc<gen::Committee>>> = Default::default();
}

/// Committees are cached per thread: building one derives every public key from its secret key.
fn committee(weights: &[u64]) -> std::rc::Rc<gen::Committee> {
    COMMITTEES.with(|m| {
        let mut m = m.borrow_mut();
        if m.len() > 4096 {
            m.clear();
        }
        m.entry(weights.to_vec())
            .or_insert_with(|| std::rc::Rc::new(spec_of(weights).build()))
            .clone()
    })
}

struct World {
    c: std::rc::Rc<gen::Committee>,
    n_block: u64,
    first: u64,
}

impl World {
    fn header(&self, off: u8, payload: u8) -> Option<BlockHeader> {
        let num = (self.n_block + off as u64).checked_sub(2)?;
        Some(BlockHeader {
            number: BlockNumber(num),
            payload: certs::payload(payload).hash(),
        })
    }
    /// Existing certificate `i` (0 => N-2 @ view V-4, 1 => N-1 @ V-2, 2 => (N,h) @ V).
    fn qc(&self, i: u8) -> Option<CommitQC> {
        let (off, payload, view) = match i {
            0 => (0u8, 5u8, V - 4),
            1 => (1, G, V - 2),
            _ => (2, H, V),
        };
        let header = self.header(off, payload)?;
        if header.number.0 < self.first {
            return None;
        }
        Some(CommitQC {
            message: ReplicaCommit {
                view: self.c.view(view),
                proposal: header,
            },
            signers: Signers(BitVec::from_elem(self.c.schedule.len(), true)),
            signature: dummy_sig(),
        })
    }
    fn timeout_msg(&self, tview: u64, r: &Report) -> Option<ReplicaTimeout> {
        Some(ReplicaTimeout {
            view: self.c.view(tview),
            high_vote: match r.hv {
                None => None,
                Some((view, off, payload)) => Some(ReplicaCommit {
                    view: self.c.view(view),
                    proposal: self.header(off, payload)?,
                }),
            },
            high_qc: match r.qc {
                None => None,
                Some(i) => Some(self.qc(i)?),
            },
        })
    }
}

fn build(case: &Case) -> Result<(World, TimeoutQC), String> {
    let w = World {
        c: committee(&case.weights),
        n_block: case.first + case.d,
        first: case.first,
    };
    let n = case.weights.len();
    let tview = if case.a.iter().any(|b| *b) { V + 1 } else { V };
    let mut map: BTreeMap<ReplicaTimeout, Signers> = BTreeMap::new();
    for (i, r) in case.reports.iter().enumerate() {
        let Some(r) = r else { continue };
        let m = w
            .timeout_msg(tview, r)
            .ok_or_else(|| format!("ill-formed case: report {r:?} refers to a block/certificate that cannot exist"))?;
        map.entry(m)
            .or_insert_with(|| Signers(BitVec::from_elem(n, false)))
            .0
            .set(i, true);
    }
    let qc = TimeoutQC {
        view: w.c.view(tview),
        map,
        signature: dummy_sig(),
    };
    Ok((w, qc))
}

fn wsum(weights: &[u64], mask: impl Iterator<Item = bool>) -> u128 {
    weights.iter().zip(mask).filter(|(_, b)| *b).map(|(w, _)| *w as u128).sum()
}

pub fn check(case: &Case, st: &mut Stats) -> Result<(), String> {
    check_inner(case, st, false)
}

fn check_inner(case: &Case, st: &mut Stats, distinct_by_construction: bool) -> Result<(), String> {
    let (w, qc) = build(case)?;
    let spec = spec_of(&case.weights);
    let total: u128 = case.weights.iter().map(|x| *x as u128).sum();
    let f = (total - 1) / 5;
    let quorum = certs::quorum(&spec);
    let sub = certs::subquorum(&spec);
    // assumptions of the property (by construction for generated cases)
    let in_s: Vec<bool> = case.reports.iter().map(|r| r.is_some()).collect();
    if wsum(&case.weights, case.byz.iter().copied()) > f
        || wsum(&case.weights, case.q.iter().copied()) < quorum
        || wsum(&case.weights, in_s.iter().copied()) < quorum
    {
        return Err("ill-formed case: assumptions on B, Q or S violated".into());
    }
    let n_block = w.n_block;
    let h = certs::payload(H).hash();
    let (num, hash) = ProposalJustification::Timeout(qc.clone()).get_implied_block(&w.c.schedule, BlockNumber(w.first));
    let qcn_reported = case.reports.iter().flatten().any(|r| r.qc == Some(2));
    // classification
    let correct_qs: u128 = (0..case.weights.len())
        .filter(|i| in_s[*i] && case.q[*i] && !case.byz[*i] && !case.a[*i])
        .map(|i| case.weights[i] as u128)
        .sum();
    let others: u128 = (0..case.weights.len())
        .filter(|i| in_s[*i] && (case.byz[*i] || !case.q[*i]))
        .map(|i| case.weights[i] as u128)
        .sum();
    let mut hashes_for_n = std::collections::BTreeSet::new();
    for r in case.reports.iter().flatten() {
        if let Some((_, 2, p)) = r.hv {
            hashes_for_n.insert(p);
        }
    }
    let mut nontrivial = false;
    if f > 0 && others == 2 * f {
        st.class("others_weigh_exactly_2f");
        nontrivial = true;
    }
    if correct_qs == sub {
        st.class("committed_block_exactly_at_subquorum");
        nontrivial = true;
    }
    if hashes_for_n.len() >= 2 {
        st.class("conflicting_reports_for_N");
        nontrivial = true;
    }
    if case.a.iter().any(|b| *b) {
        st.class("scenario_next_block_voted");
    } else if case.qcn {
        st.class("scenario_certificate_exists");
    } else {
        st.class("scenario_votes_only");
    }
    if qcn_reported {
        st.class("certificate_for_N_reported");
    }
    st.class(match (num.0 as i128 - n_block as i128, hash.is_some()) {
        (0, true) => "result_reproposal_of_N",
        (1, false) => "result_new_block_N+1",
        (1, true) => "result_reproposal_of_N+1",
        _ => "result_other",
    });
    if nontrivial {
        if distinct_by_construction {
            st.nontrivial_counted += 1;
        } else {
            st.nontrivial(common::fingerprint(case));
        }
    }
    st.sample(|| serde_json::json!({"case": case, "N": n_block, "implied": format!("{num:?} {hash:?}")}));
    let fail = |what: &str| {
        Err(format!(
            "a quorum voted to commit block {n_block} with payload id {H}, yet the timeout certificate implies ({}, {hash:?}): {what}",
            num.0
        ))
    };
    if num.0 < n_block {
        return fail("a lower block number (an already certified block would be replaced)");
    }
    if num.0 == n_block && hash != Some(h) {
        return fail("block N would be proposed with a different / fresh payload");
    }
    if num.0 > n_block + 1 {
        return fail("the chain would skip a block");
    }
    if num.0 == n_block + 1 && !qcn_reported {
        return fail("N+1 is implied although no signer reported the certificate for N");
    }
    Ok(())
}

// ---------------------------------------------------------------------------------------------
// allowed reports per role

fn existing(case_first: u64, d: u64, qcn: bool) -> Vec<Option<u8>> {
    let mut v = vec![None];
    if d >= 2 {
        v.push(Some(0));
    }
    if d >= 1 {
        v.push(Some(1));
    }
    if qcn {
        v.push(Some(2));
    }
    let _ = case_first;
    v
}

/// Reports a validator of the given role may send. `full` = larger option set (random tier).
fn options(role: Role, d: u64, qcn: bool, full: bool) -> Vec<Report> {
    let ex = existing(0, d, qcn);
    let newest_known: Vec<Option<u8>> = {
        // a correct member of Q knows at least the certificate for N-1 (if that block exists)
        let mut v = vec![];
        if d >= 1 {
            v.push(Some(1));
        } else {
            v.push(None);
        }
        if qcn {
            v.push(Some(2));
        }
        v
    };
    let mut out = vec![];
    match role {
        Role::VotedNext => out.push(Report { hv: Some((V + 1, 3, X)), qc: Some(2) }),
        Role::CorrectQ => {
            for qc in newest_known {
                out.push(Report { hv: Some((V, 2, H)), qc });
            }
        }
        Role::CorrectOther => {
            let mut hvs = vec![None, Some((V - 1, 2, 1))];
            if d >= 1 {
                hvs.push(Some((V - 3, 1, G)));
            }
            if full {
                hvs.push(Some((V - 1, 2, H)));
                hvs.push(Some((V - 1, 2, 2)));
            }
            let qcs: Vec<Option<u8>> = if full { ex.clone() } else { vec![*ex.iter().filter(|q| **q != Some(2)).last().unwrap()] };
            for hv in &hvs {
                for qc in &qcs {
                    out.push(Report { hv: *hv, qc: *qc });
                }
            }
        }
        Role::Byzantine => {
            let mut hvs = vec![None, Some((V, 2, H)), Some((V, 2, 1)), Some((V + 5, 2, 2)), Some((V + 5, 3, X))];
            if full {
                hvs.push(Some((V + 5, 4, 6)));
                hvs.push(Some((V + 5, 3, 7)));
                if d >= 1 {
                    hvs.push(Some((V + 5, 1, 8)));
                }
            }
            let qcs: Vec<Option<u8>> = if full {
                ex.clone()
            } else {
                // oldest and newest existing
                let mut v = vec![ex[0]];
                if ex.len() > 1 {
                    v.push(*ex.last().unwrap());
                }
                v
            };
            for hv in &hvs {
                for qc in &qcs {
                    out.push(Report { hv: *hv, qc: *qc });
                }
            }
        }
    }
    out
}

#[derive(Clone, Copy, PartialEq, Eq, Debug)]
enum Role {
    VotedNext,
    CorrectQ,
    CorrectOther,
    Byzantine,
}

fn role(case: &Case, i: usize) -> Role {
    if case.byz[i] {
        Role::Byzantine
    } else if case.a[i] {
        Role::VotedNext
    } else if case.q[i] {
        Role::CorrectQ
    } else {
        Role::CorrectOther
    }
}

// ---------------------------------------------------------------------------------------------
// exhaustive small scope

/// One unit of the exhaustive enumeration: everything but the reports.
#[derive(Debug, Clone, Serialize, Deserialize)]
pub struct Frame {
    weights: Vec<u64>,
    byz: Vec<bool>,
    q: Vec<bool>,
    a: Vec<bool>,
    s: Vec<bool>,
    first: u64,
    d: u64,
    qcn: bool,
}

fn subsets(n: usize) -> impl Iterator<Item = Vec<bool>> {
    (0..(1u32 << n)).map(move |m| (0..n).map(|i| (m >> i) & 1 == 1).collect())
}

fn weight_vectors(nmax: usize, wmax: u64) -> Vec<Vec<u64>> {
    // non-increasing sequences (validators are interchangeable up to weight)
    fn rec(n: usize, maxw: u64, cur: &mut Vec<u64>, out: &mut Vec<Vec<u64>>) {
        if cur.len() == n {
            out.push(cur.clone());
            return;
        }
        for w in (1..=maxw).rev() {
            cur.push(w);
            rec(n, w, cur, out);
            cur.pop();
        }
    }
    let mut out = vec![];
    for n in 1..=nmax {
        rec(n, wmax, &mut vec![], &mut out);
    }
    out
}

fn frames(tier: Tier) -> Vec<Frame> {
    let mut out = vec![];
    let (nmax, wmax, amax) = tier.pick((5, 3, 4), (6, 3, 5));
    for weights in weight_vectors(nmax, wmax) {
        let n = weights.len();
        let spec = spec_of(&weights);
        let total: u128 = weights.iter().map(|x| *x as u128).sum();
        let f = (total - 1) / 5;
        let quorum = certs::quorum(&spec);
        for byz in subsets(n).filter(|b| wsum(&weights, b.iter().copied()) <= f) {
            for q in subsets(n).filter(|q| wsum(&weights, q.iter().copied()) >= quorum) {
                for s in subsets(n).filter(|s| wsum(&weights, s.iter().copied()) >= quorum) {
                    for (first, d) in [(0u64, 0u64), (0, 1), (7, 2)] {
                        for qcn in [false, true] {
                            out.push(Frame { weights: weights.clone(), byz: byz.clone(), q: q.clone(), a: vec![false; n], s: s.clone(), first, d, qcn });
                        }
                    }
                    if n <= amax {
                        // correct validators that moved on and voted for (N+1,x), not reaching a quorum even with the Byzantine ones
                        for a in subsets(n) {
                            if !a.iter().any(|x| *x) || (0..n).any(|i| a[i] && byz[i]) {
                                continue;
                            }
                            let wab = wsum(&weights, (0..n).map(|i| a[i] || byz[i]));
                            if wab >= quorum {
                                continue;
                            }
                            out.push(Frame { weights: weights.clone(), byz: byz.clone(), q: q.clone(), a, s: s.clone(), first: 0, d: 1, qcn: true });
                        }
                    }
                }
            }
        }
    }
    out
}

fn check_frame(fr: &Frame, st: &mut Stats) -> Result<(), String> {
    let n = fr.weights.len();
    let mut case = Case {
        weights: fr.weights.clone(),
        byz: fr.byz.clone(),
        q: fr.q.clone(),
        a: fr.a.clone(),
        first: fr.first,
        d: fr.d,
        qcn: fr.qcn,
        reports: vec![None; n],
    };
    let opts: Vec<Vec<Report>> = (0..n)
        .map(|i| if fr.s[i] { options(role(&case, i), fr.d, fr.qcn, false) } else { vec![] })
        .collect();
    let members: Vec<usize> = (0..n).filter(|i| fr.s[*i]).collect();
    let mut idx = vec![0usize; members.len()];
    let mut count = 0u64;
    loop {
        for (k, &i) in members.iter().enumerate() {
            case.reports[i] = Some(opts[i][idx[k]]);
        }
        check_inner(&case, st, true)?;
        count += 1;
        // odometer
        let mut k = 0;
        loop {
            if k == members.len() {
                st.evaluations += count - 1;
                return Ok(());
            }
            idx[k] += 1;
            if idx[k] < opts[members[k]].len() {
                break;
            }
            idx[k] = 0;
            k += 1;
        }
    }
}

// ---------------------------------------------------------------------------------------------
// random tier

fn pick_subset_at_least(ch: &mut Choices, weights: &[u64], min: u128, exact_bias: bool) -> Vec<bool> {
    let n = weights.len();
    let mut m = vec![false; n];
    for i in ch.perm(n) {
        if wsum(weights, m.iter().copied()) >= min && (exact_bias || ch.bool()) {
            break;
        }
        m[i] = true;
    }
    if wsum(weights, m.iter().copied()) < min {
        return vec![true; n];
    }
    m
}

fn pick_subset_at_most(ch: &mut Choices, weights: &[u64], max: u128, avoid: &[bool]) -> Vec<bool> {
    let n = weights.len();
    let mut m = vec![false; n];
    // greedy towards the maximum allowed weight (the adversary's best case), sometimes fewer
    for i in ch.perm(n) {
        if avoid[i] {
            continue;
        }
        if wsum(weights, m.iter().copied()) + weights[i] as u128 <= max && !ch.chance(1, 6) {
            m[i] = true;
        }
    }
    m
}

pub fn gen_case(ch: &mut Choices, nmax: usize) -> Case {
    let n = 1 + ch.below(nmax);
    let weights: Vec<u64> = match ch.below(5) {
        0 | 1 => vec![1; n],
        2 => (0..n).map(|_| ch.range(1, 3)).collect(),
        3 => (0..n).map(|_| ch.range(1, 10)).collect(),
        _ => {
            let mut v = vec![1; n];
            let i = ch.below(n);
            v[i] = ch.range(2, 6);
            v
        }
    };
    let spec = spec_of(&weights);
    let total: u128 = weights.iter().map(|x| *x as u128).sum();
    let f = (total - 1) / 5;
    let quorum = certs::quorum(&spec);
    let none = vec![false; n];
    let byz = pick_subset_at_most(ch, &weights, f, &none);
    let (bq, bs) = (ch.chance(3, 4), ch.chance(3, 4));
    let q = pick_subset_at_least(ch, &weights, quorum, bq);
    let s = pick_subset_at_least(ch, &weights, quorum, bs);
    let (first, d) = ch.pick(&[(0u64, 0u64), (0, 1), (7, 2), (3, 1)]);
    let next = d >= 1 && ch.chance(1, 3);
    let qcn = next || ch.bool();
    let a = if next {
        let bw = wsum(&weights, byz.iter().copied());
        let mut a = pick_subset_at_most(ch, &weights, quorum - 1 - bw, &byz);
        if !a.iter().any(|x| *x) {
            if let Some(i) = (0..n).find(|i| !byz[*i] && (weights[*i] as u128) + bw < quorum) {
                a[i] = true;
            }
        }
        a
    } else {
        none.clone()
    };
    let qcn = qcn && (d >= 1 || true);
    let mut case = Case { weights, byz, q, a, first, d, qcn, reports: vec![None; n] };
    if !case.a.iter().any(|x| *x) && next {
        // could not place a voter for N+1
    }
    // adversarial coordination: all "other" reporters push the same conflicting hash with probability 1/2
    let coordinate = ch.bool();
    for i in 0..n {
        if !s[i] {
            continue;
        }
        let r = role(&case, i);
        let opts = options(r, d, case.qcn, true);
        let mut rep = ch.pick(&opts);
        if coordinate && matches!(r, Role::Byzantine | Role::CorrectOther) {
            rep.hv = Some((V - 1, 2, 1));
        }
        case.reports[i] = Some(rep);
    }
    case
}

// ---------------------------------------------------------------------------------------------
// stand-alone rules on arbitrary certificates

#[derive(Debug, Clone, Serialize, Deserialize, Hash)]
pub struct RuleCase {
    weights: Vec<u64>,
    first: u64,
    /// Per validator: None = not a signer; Some((hv, qc)): hv = Some((number, payload id)), qc = Some((view, number)).
    reports: Vec<Option<(Option<(u64, u8)>, Option<(u64, u64)>)>>,
}

pub fn gen_rule_case(ch: &mut Choices) -> RuleCase {
    let n = 1 + ch.below(8);
    let weights: Vec<u64> = (0..n).map(|_| if ch.bool() { 1 } else { ch.range(1, 5) }).collect();
    let first = ch.range(0, 3);
    // a small pool of certificates with distinct views (view order != number order on purpose)
    let qcs = [(3u64, first + 1), (5, first), (8, first + 2), (9, first + 1)];
    let hvs_all = [(first + 1, 0u8), (first + 1, 1), (first + 2, 0), (first + 2, 2), (first, 3)];
    // mostly two or three competing high votes, so that one or two sub-quorums form
    let k = ch.weighted(&[(3, 2usize), (2, 3), (1, 5), (1, 1)]);
    let start = ch.below(5);
    let hvs: Vec<(u64, u8)> = (0..k).map(|i| hvs_all[(start + i) % 5]).collect();
    let reports = (0..n)
        .map(|_| {
            ch.chance(7, 8).then(|| {
                (
                    ch.chance(9, 10).then(|| ch.pick(&hvs)),
                    ch.chance(2, 3).then(|| ch.pick(&qcs)),
                )
            })
        })
        .collect();
    RuleCase { weights, first, reports }
}

pub fn check_rules(case: &RuleCase, st: &mut Stats) -> Result<(), String> {
    let spec = spec_of(&case.weights);
    let c = committee(&case.weights);
    let n = case.weights.len();
    let sub = certs::subquorum(&spec);
    let mut map: BTreeMap<ReplicaTimeout, Signers> = BTreeMap::new();
    let mut tally: BTreeMap<(u64, u8), u128> = BTreeMap::new();
    let mut best_qc: Option<(u64, u64)> = None;
    for (i, r) in case.reports.iter().enumerate() {
        let Some((hv, qc)) = r else { continue };
        let m = ReplicaTimeout {
            view: c.view(20),
            high_vote: hv.map(|(num, p)| ReplicaCommit {
                // the view of the vote is deliberately varied: the tally is per block, not per view
                view: c.view(10 + (i as u64 % 3)),
                proposal: BlockHeader { number: BlockNumber(num), payload: certs::payload(p).hash() },
            }),
            high_qc: qc.map(|(view, num)| CommitQC {
                message: ReplicaCommit {
                    view: c.view(view),
                    proposal: BlockHeader { number: BlockNumber(num), payload: certs::payload(100 + num as u8).hash() },
                },
                signers: Signers(BitVec::from_elem(n, true)),
                signature: dummy_sig(),
            }),
        };
        map.entry(m).or_insert_with(|| Signers(BitVec::from_elem(n, false))).0.set(i, true);
        if let Some(hv) = hv {
            *tally.entry(*hv).or_default() += case.weights[i] as u128;
        }
        if let Some(qc) = qc {
            if best_qc.map_or(true, |b| qc.0 > b.0) {
                best_qc = Some(*qc);
            }
        }
    }
    let qc = TimeoutQC { view: c.view(20), map, signature: dummy_sig() };
    let subs: Vec<_> = tally.iter().filter(|(_, w)| **w >= sub).map(|(k, _)| *k).collect();
    let expected = match (subs.as_slice(), best_qc) {
        ([hv], None) => (hv.0, Some(certs::payload(hv.1).hash())),
        ([hv], Some((_, qn))) if hv.0 > qn => (hv.0, Some(certs::payload(hv.1).hash())),
        (_, Some((_, qn))) => (qn + 1, None),
        (_, None) => (case.first, None),
    };
    let got = ProposalJustification::Timeout(qc.clone()).get_implied_block(&c.schedule, BlockNumber(case.first));
    st.class(&format!("subquorums={}", subs.len().min(2)));
    st.class(if expected.1.is_some() { "forced_reproposal" } else { "fresh_proposal" });
    if tally.values().any(|w| *w == sub) {
        st.class("a_tally_exactly_at_subquorum");
    }
    if subs.len() != 1 || tally.values().any(|w| *w == sub || *w + 1 == sub) {
        st.nontrivial(common::fingerprint(case));
    }
    st.sample(|| serde_json::json!({"case": case, "expected": format!("{expected:?}"), "got": format!("{got:?}")}));
    // also the two accessors named in the statement
    let hv_expected = (subs.len() == 1).then(|| subs[0]);
    let hv_got = qc.high_vote(&c.schedule).map(|h| h.number.0);
    if hv_got != hv_expected.map(|h| h.0) {
        return Err(format!("high_vote(): expected {hv_expected:?}, got block {hv_got:?} (sub-quorum {sub}, tally {tally:?})"));
    }
    if qc.high_qc().map(|q| (q.view().number.0, q.header().number.0)) != best_qc {
        return Err(format!("high_qc(): expected (view, number) {best_qc:?}, got {:?}", qc.high_qc().map(|q| (q.view().number.0, q.header().number.0))));
    }
    if (got.0 .0, got.1) != expected {
        return Err(format!("implied block {got:?} but the stated rules give {expected:?} (sub-quorums {subs:?}, highest certificate {best_qc:?})"));
    }
    // a commit certificate always implies the next block, fresh
    if let Some((view, num)) = best_qc {
        let cq = CommitQC {
            message: ReplicaCommit { view: c.view(view), proposal: BlockHeader { number: BlockNumber(num), payload: certs::payload(1).hash() } },
            signers: Signers(BitVec::from_elem(n, true)),
            signature: dummy_sig(),
        };
        let g = ProposalJustification::Commit(cq).get_implied_block(&c.schedule, BlockNumber(case.first));
        if g != (BlockNumber(num + 1), None) {
            return Err(format!("commit certificate for block {num} implies {g:?}"));
        }
    }
    Ok(())
}

pub fn main(env: &Env) -> i32 {
    if let Mode::Replay(path) = env.mode() {
        let (part, case) = Env::read_replay(&path);
        let r = match part.as_str() {
            "decision" => common::replay_case::<Case>(case, check),
            "small_scope" => common::replay_case::<Frame>(case, check_frame),
            "rules" => common::replay_case::<RuleCase>(case, check_rules),
            p => Err(format!("unknown part {p}")),
        };
        return env.finish_replay(&path, r);
    }
    let mut parts: Vec<PartReport> = vec![];
    parts.extend(common::run_regress::<Case>(env, "decision", check));
    parts.extend(common::run_regress::<RuleCase>(env, "rules", check_rules));
    let fr = frames(env.tier);
    parts.push(run_enum(
        env,
        "small_scope",
        "EXHAUSTIVE for committees of 1..5 validators (thorough 6) with weights in {1,2,3} (non-increasing vectors): every Byzantine set of weight <= f, every commit quorum Q, every timeout signer set S, \
         three chain positions (first block, second block, later), certificate for (N,h) existing or not, (n <= 4, thorough 5) every set A of correct replicas that moved on to vote (N+1,x) without a quorum, \
         and every combination of the reports allowed to each role (correct in Q: vote (N,h) + newest known certificate; other correct: none / conflicting older vote / vote for N-1; Byzantine: 5 high votes x oldest/newest certificate). \
         Oracle: implied block never below N, equals (N,Some(h)) when it is N, never skips, N+1 only with the certificate for N reported. Non-trivial = conflicting reports weigh exactly 2f, or (N,h) sits exactly on n-3f, or two hashes for N coexist",
        true,
        2,
        |shard, shards| fr.clone().into_iter().skip(shard).step_by(shards),
        check_frame,
    ));
    let nmax = env.tier.pick(10, 16);
    parts.push(run_proptest(
        env,
        "decision",
        "random tier of the same scenario space: 1..10 validators (thorough 16), weights {1, 1..3, 1..10, one heavy}, B greedy up to f, Q and S biased to minimal quorums, full report option sets (8 Byzantine high votes x all existing certificates), \
         adversarial coordination (all non-Q and Byzantine signers report the same conflicting hash) in half of the cases; same oracle and non-trivial rule; distinct = whole case",
        PartOpts { cases: env.tier.pick(400_000, 6_000_000), max_shrink_iters: 4000, samples: 2 },
        || Choices::strategy(120).prop_map(move |mut ch| gen_case(&mut ch, nmax)),
        check,
    ));
    parts.push(run_proptest(
        env,
        "rules",
        "arbitrary (unconstrained) timeout certificates over 1..8 validators: each signer reports one of 5 high votes and one of 4 certificates whose view order differs from their number order; \
         oracle = the stand-alone rules of the statement (0 or >= 2 sub-quorums => fresh proposal after the highest-view certificate; exactly one sub-quorum above it => forced re-proposal), also high_vote() and high_qc(); \
         non-trivial = number of sub-quorums != 1 or a tally within 1 of n-3f",
        PartOpts { cases: env.tier.pick(200_000, 3_000_000), max_shrink_iters: 4000, samples: 2 },
        || Choices::strategy(60).prop_map(|mut ch| gen_rule_case(&mut ch)),
        check_rules,
    ));
    env.finish(
        "exploration",
        "decision function: exhaustive small scope + random tier; the history-level half of C02 is checked by the simulator",
        &["what correct replicas can report (votes only for justified proposals, certificates only if they exist) follows the protocol; the simulator monitors these assumptions on real replicas",
          "induction hypothesis: before view V no conflicting certificate for a block <= N exists"],
        parts,
    )
}
