//! For checks whose code under test can kill the process (unsafe code misbehaving after a broken
//! invariant): each worker thread keeps the JSON of the case it is executing in a static slot; a
//! SIGSEGV / SIGABRT / SIGBUS handler writes the slots to `replays/.crash-<property>-<slot>.json`
//! (async-signal-safe: open/write/close only) and exits with 128+signal. The driver turns that into
//! a VIOLATION pointing at the dumped case.
use std::sync::atomic::{AtomicUsize, Ordering};

const SLOTS: usize = 64;
const CAP: usize = 1 << 16;

static mut BUF: [[u8; CAP]; SLOTS] = [[0; CAP]; SLOTS];
static LEN: [AtomicUsize; SLOTS] = [const { AtomicUsize::new(0) }; SLOTS];
static NEXT: AtomicUsize = AtomicUsize::new(0);
static ARMED: std::sync::atomic::AtomicBool = std::sync::atomic::AtomicBool::new(false);

/// Whether [`arm`] has been called (the campaign drivers then record every case before executing it).
pub fn armed() -> bool {
    ARMED.load(Ordering::Relaxed)
}
static mut PATH_PREFIX: [u8; 512] = [0; 512];
static PATH_LEN: AtomicUsize = AtomicUsize::new(0);

thread_local! {
    static SLOT: usize = NEXT.fetch_add(1, Ordering::SeqCst) % SLOTS;
}

/// Records the case the current thread is about to execute (already in replay-file format).
pub fn set_current(json: &[u8]) {
    SLOT.with(|s| {
        let n = json.len().min(CAP);
        LEN[*s].store(0, Ordering::SeqCst);
        unsafe {
            let dst = std::ptr::addr_of_mut!(BUF[*s]) as *mut u8;
            std::ptr::copy_nonoverlapping(json.as_ptr(), dst, n);
        }
        LEN[*s].store(n, Ordering::SeqCst);
    });
}

/// Clears the slot of the current thread (the case finished).
pub fn clear_current() {
    SLOT.with(|s| LEN[*s].store(0, Ordering::SeqCst));
}

extern "C" fn handler(sig: libc::c_int) {
    unsafe {
        let plen = PATH_LEN.load(Ordering::SeqCst);
        for slot in 0..SLOTS {
            let n = LEN[slot].load(Ordering::SeqCst);
            if n == 0 {
                continue;
            }
            // path = prefix + two digits + ".json\0"
            let mut path = [0u8; 600];
            let prefix = std::ptr::addr_of!(PATH_PREFIX) as *const u8;
            std::ptr::copy_nonoverlapping(prefix, path.as_mut_ptr(), plen);
            path[plen] = b'0' + (slot / 10) as u8;
            path[plen + 1] = b'0' + (slot % 10) as u8;
            let ext = b".json\0";
            std::ptr::copy_nonoverlapping(ext.as_ptr(), path.as_mut_ptr().add(plen + 2), ext.len());
            let fd = libc::open(path.as_ptr() as *const libc::c_char, libc::O_WRONLY | libc::O_CREAT | libc::O_TRUNC, 0o644);
            if fd >= 0 {
                let src = std::ptr::addr_of!(BUF[slot]) as *const u8;
                let _ = libc::write(fd, src as *const libc::c_void, n);
                libc::close(fd);
            }
        }
        libc::_exit(128 + sig);
    }
}

/// Installs the handlers. `property` names the dump files.
pub fn arm(property: &str) {
    ARMED.store(true, Ordering::Relaxed);
    let dir = crate::verif_root().join("replays");
    let _ = std::fs::create_dir_all(&dir);
    // stale dumps of earlier runs would be misattributed
    if let Ok(rd) = std::fs::read_dir(&dir) {
        for e in rd.flatten() {
            if e.file_name().to_string_lossy().starts_with(&format!(".crash-{property}-")) {
                let _ = std::fs::remove_file(e.path());
            }
        }
    }
    let prefix = dir.join(format!(".crash-{property}-")).to_string_lossy().into_owned();
    let bytes = prefix.as_bytes();
    unsafe {
        let dst = std::ptr::addr_of_mut!(PATH_PREFIX) as *mut u8;
        std::ptr::copy_nonoverlapping(bytes.as_ptr(), dst, bytes.len().min(500));
    }
    PATH_LEN.store(bytes.len().min(500), Ordering::SeqCst);
    unsafe {
        for sig in [libc::SIGSEGV, libc::SIGABRT, libc::SIGBUS, libc::SIGILL] {
            libc::signal(sig, handler as usize);
        }
    }
}

/// No core file for a process that is expected to abort (child processes of checks whose correct outcome is an abort).
pub fn no_core_dumps() {
    let lim = libc::rlimit { rlim_cur: 0, rlim_max: 0 };
    unsafe {
        libc::setrlimit(libc::RLIMIT_CORE, &lim);
    }
}
