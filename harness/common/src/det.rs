//! Deterministic concurrency substrate (DESIGN.md §3.2): a tokio current-thread runtime with paused
//! time. The code under test sleeps only on a `ManualClock`, so tokio's timer wheel holds nothing
//! but the harness' own barrier sleep; tokio auto-advances virtual time only when no task is
//! runnable, hence `barrier()` returns exactly when every other task is blocked.
use std::future::Future;

/// Runs `f` on a fresh single-threaded runtime with paused (virtual) time.
pub fn run<F: Future>(f: impl FnOnce() -> F) -> F::Output {
    let rt = tokio::runtime::Builder::new_current_thread()
        .enable_all()
        .start_paused(true)
        // `select!` picks its first branch pseudo-randomly; pin the sequence so that a case is a pure
        // function of its input
        .rng_seed(tokio::runtime::RngSeed::from_bytes(b"verif deterministic runtime"))
        .build()
        .unwrap();
    let out = rt.block_on(f());
    // Drop outstanding tasks now (not in a background thread).
    rt.shutdown_timeout(std::time::Duration::from_millis(0));
    out
}

/// Quiescence barrier: returns when every other task of the runtime is blocked.
pub async fn barrier() {
    tokio::time::sleep(std::time::Duration::from_millis(1)).await;
}

/// Yields to the scheduler `n` times.
pub async fn yields(n: usize) {
    for _ in 0..n {
        tokio::task::yield_now().await;
    }
}

/// Polls `fut` until it completes or the system is quiescent. `None` = still pending at the barrier.
pub async fn until_quiescent<F: Future + Unpin>(fut: &mut F) -> Option<F::Output> {
    tokio::select! {
        biased;
        out = fut => Some(out),
        _ = barrier() => None,
    }
}

/// Lifetime of the code under test within one case.
///
/// `scope::run!` aborts the process when an unfinished scope is dropped, so tasks that run scopes
/// (Mux::run, rpc services, replicas, ...) must never be aborted or leaked into the runtime's drop.
/// They are given `life.ctx`, a context with a far deadline on a manual clock; `end()` moves the
/// clock past the deadline, which cancels the context, and joins the tasks.
pub struct Life {
    /// Manual clock of the case.
    pub clock: zksync_concurrency::ctx::ManualClock,
    /// Root context (never cancelled).
    pub root: zksync_concurrency::ctx::Ctx,
    /// Context for the code under test; cancelled by `end()`.
    pub ctx: zksync_concurrency::ctx::Ctx,
}

const LIFE: zksync_concurrency::time::Duration = zksync_concurrency::time::Duration::days(365 * 1000);

impl Life {
    /// New lifetime. Must be called inside the runtime.
    #[allow(clippy::new_without_default)]
    pub fn new() -> Self {
        let clock = zksync_concurrency::ctx::ManualClock::new();
        let root = zksync_concurrency::ctx::test_root(&clock);
        let ctx = root.with_deadline((clock.now() + LIFE).into());
        Self { clock, root, ctx }
    }
    /// A child context for a spawned task (contexts are not `Clone`).
    pub fn child(&self) -> zksync_concurrency::ctx::Ctx {
        self.ctx.with_deadline(zksync_concurrency::time::Deadline::Infinite)
    }
    /// Cancels `ctx` and waits for the given tasks to finish.
    /// A task that is still pending when the system is quiescent after cancellation can never finish;
    /// unfinished scopes cannot be dropped (they abort the process), so the process exits with code 3
    /// (reported as inconclusive by the driver).
    pub async fn end<T>(self, tasks: Vec<tokio::task::JoinHandle<T>>) -> Vec<Result<T, tokio::task::JoinError>> {
        self.clock.advance(LIFE + LIFE);
        let mut out = vec![];
        for mut t in tasks {
            match until_quiescent(&mut t).await {
                Some(r) => out.push(r),
                None => {
                    println!("INCONCLUSIVE: a task of the code under test did not terminate after its context was cancelled");
                    std::process::exit(3);
                }
            }
        }
        out
    }
    /// Result of a finished task as text: Ok(debug of value) / Err(first panic text).
    pub fn task_outcome<T: std::fmt::Debug>(r: Result<T, tokio::task::JoinError>) -> Result<T, String> {
        match r {
            Ok(v) => Ok(v),
            Err(e) if e.is_panic() => Err(crate::take_last_panic().unwrap_or_else(|| "panic in a task".into())),
            Err(e) => Err(format!("task failed: {e}")),
        }
    }
}
