//! Deterministic concurrency substrate (DESIGN.md §3.2): a tokio current-thread runtime with paused
//! time. The code under test sleeps only on a `ManualClock`, so tokio's timer wheel holds nothing
//! but the harness' own barrier sleep; tokio auto-advances virtual time only when no task is
//! runnable, hence `barrier()` returns exactly when every other task is blocked.
use std::future::Future;

/// Runs `f` on a fresh single-threaded runtime with paused (virtual) time.
pub fn run<F: Future>(f: impl FnOnce() -> F) -> F::Output {
    let rt = tokio::runtime::Builder::new_current_thread()
        .enable_all()
        .start_paused(true)
        .build()
        .unwrap();
    let out = rt.block_on(f());
    // Drop outstanding tasks now (not in a background thread).
    rt.shutdown_timeout(std::time::Duration::from_millis(0));
    out
}

/// Quiescence barrier: returns when every other task of the runtime is blocked.
pub async fn barrier() {
    tokio::time::sleep(std::time::Duration::from_millis(1)).await;
}

/// Yields to the scheduler `n` times.
pub async fn yields(n: usize) {
    for _ in 0..n {
        tokio::task::yield_now().await;
    }
}

/// Polls `fut` until it completes or the system is quiescent. `None` = still pending at the barrier.
pub async fn until_quiescent<F: Future + Unpin>(fut: &mut F) -> Option<F::Output> {
    tokio::select! {
        biased;
        out = fut => Some(out),
        _ = barrier() => None,
    }
}
