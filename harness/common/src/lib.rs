//! Shared plumbing of the verification harness: seeds and sharding, per-case panic capture,
//! statistics (evaluations, distinct non-trivial cases, class histogram, samples), replay files,
//! known findings, evidence files and exit codes.
//!
//! Contract (see /verif/DESIGN.md §3.1): a check binary calls [`Env::from_args`], runs one or more
//! *parts* through [`run_proptest`] / [`run_enum`], and ends with [`Env::finish`], which writes
//! `evidence/<id>.json`, prints `KNOWN-FINDING:` / `VIOLATION` lines and returns the exit code
//! (0 held, 1 violation, 2 inconclusive).
use std::{
    cell::RefCell,
    collections::{BTreeMap, BTreeSet, HashSet},
    fmt::Debug,
    hash::{Hash, Hasher},
    panic::{catch_unwind, AssertUnwindSafe},
    path::{Path, PathBuf},
    sync::{
        atomic::{AtomicBool, Ordering},
        Mutex,
    },
    time::Instant,
};

use proptest::{
    strategy::Strategy,
    test_runner::{Config, RngSeed, TestCaseError, TestError, TestRunner},
};
use serde::{de::DeserializeOwned, Serialize};
pub use serde_json::{json, Value};

pub mod crashdump;
pub mod det;

/// Root of the verification directory (`/verif`).
pub fn verif_root() -> PathBuf {
    if let Ok(p) = std::env::var("VERIF_ROOT") {
        return PathBuf::from(p);
    }
    Path::new(env!("CARGO_MANIFEST_DIR"))
        .parent()
        .unwrap()
        .parent()
        .unwrap()
        .to_path_buf()
}

/// Tier of a run.
#[derive(Clone, Copy, Debug, PartialEq, Eq)]
pub enum Tier {
    /// Fixed-work check run on every change.
    Quick,
    /// Deep exploration.
    Thorough,
}

impl Tier {
    /// Picks the value for this tier.
    pub fn pick<T>(self, quick: T, thorough: T) -> T {
        match self {
            Tier::Quick => quick,
            Tier::Thorough => thorough,
        }
    }
    fn name(self) -> &'static str {
        self.pick("quick", "thorough")
    }
}

/// Stable 64-bit fingerprint (SipHash with fixed keys; independent of process and map order).
pub fn fingerprint<T: Hash + ?Sized>(t: &T) -> u64 {
    #[allow(deprecated)]
    let mut h = std::hash::SipHasher::new_with_keys(0x5eed, 0xc0ffee);
    t.hash(&mut h);
    h.finish()
}

/// Mixes integers into a seed.
pub fn mix(parts: &[u64]) -> u64 {
    let mut x: u64 = 0x9e3779b97f4a7c15;
    for p in parts {
        x ^= p.wrapping_add(0x9e3779b97f4a7c15).wrapping_add(x << 6).wrapping_add(x >> 2);
        x = x.wrapping_mul(0xbf58476d1ce4e5b9);
        x ^= x >> 29;
    }
    x
}

/// Monotone mapping of a u16 selector onto `0..len` (keeps proptest shrinking convergent).
pub fn pick_index(sel: u16, len: usize) -> usize {
    assert!(len > 0);
    ((sel as usize) * len) >> 16
}

/// Statistics of one shard / part.
#[derive(Default, Debug)]
pub struct Stats {
    /// Cases evaluated.
    pub evaluations: u64,
    /// Fingerprints of the distinct non-trivial cases.
    pub nontrivial: HashSet<u64>,
    /// Class histogram.
    pub classes: BTreeMap<String, u64>,
    /// Sample cases.
    pub samples: Vec<Value>,
    /// Cases whose failure matched a known finding and were therefore excluded.
    pub excluded_known: u64,
    /// Extra numeric counters.
    pub counters: BTreeMap<String, u64>,
    /// Non-trivial cases that are distinct by construction (enumerations over disjoint ranges),
    /// counted instead of hashed.
    pub nontrivial_counted: u64,
    sample_cap: usize,
}

impl Stats {
    /// New, keeping at most `sample_cap` samples.
    pub fn new(sample_cap: usize) -> Self {
        Self {
            sample_cap,
            ..Default::default()
        }
    }
    /// Counts the case under a class label.
    pub fn class(&mut self, name: &str) {
        *self.classes.entry(name.to_string()).or_default() += 1;
    }
    /// Adds to a counter.
    pub fn count(&mut self, name: &str, n: u64) {
        *self.counters.entry(name.to_string()).or_default() += n;
    }
    /// Keeps the maximum of a counter.
    pub fn max(&mut self, name: &str, n: u64) {
        let e = self.counters.entry(name.to_string()).or_default();
        *e = (*e).max(n);
    }
    /// Marks the current case non-trivial, identified by `fp`.
    pub fn nontrivial(&mut self, fp: u64) {
        self.nontrivial.insert(fp);
    }
    /// Offers a sample (kept while below the cap).
    pub fn sample(&mut self, v: impl FnOnce() -> Value) {
        if self.samples.len() < self.sample_cap {
            self.samples.push(v());
        }
    }
    /// Number of distinct non-trivial cases.
    pub fn distinct_nontrivial(&self) -> u64 {
        self.nontrivial.len() as u64 + self.nontrivial_counted
    }
    /// Summary used by the libFuzzer bridge.
    pub fn summary(&self) -> Value {
        json!({
            "evaluations": self.evaluations,
            "distinct_nontrivial": self.distinct_nontrivial(),
            "classes": self.classes,
            "counters": self.counters,
            "excluded_known": self.excluded_known,
            "samples": self.samples,
        })
    }
    /// Adds the statistics of `o`.
    pub fn merge(&mut self, o: Stats) {
        self.evaluations += o.evaluations;
        self.nontrivial.extend(o.nontrivial);
        for (k, v) in o.classes {
            *self.classes.entry(k).or_default() += v;
        }
        for (k, v) in o.counters {
            let e = self.counters.entry(k.clone()).or_default();
            if k.starts_with("max_") {
                *e = (*e).max(v);
            } else {
                *e += v;
            }
        }
        self.excluded_known += o.excluded_known;
        self.nontrivial_counted += o.nontrivial_counted;
        for s in o.samples {
            if self.samples.len() < self.sample_cap.max(4) {
                self.samples.push(s);
            }
        }
    }
}

thread_local! {
    static LAST_PANIC: RefCell<Option<String>> = const { RefCell::new(None) };
    static QUIET: RefCell<bool> = const { RefCell::new(false) };
}

/// Installs the panic hook that records location and message per thread.
pub fn install_panic_hook() {
    let default = std::panic::take_hook();
    std::panic::set_hook(Box::new(move |info| {
        let msg = if let Some(s) = info.payload().downcast_ref::<&str>() {
            s.to_string()
        } else if let Some(s) = info.payload().downcast_ref::<String>() {
            s.clone()
        } else {
            "<non-string panic>".to_string()
        };
        let loc = info
            .location()
            .map(|l| format!("{}:{}", strip_path(l.file()), l.line()))
            .unwrap_or_default();
        // keep the FIRST panic of a case (later ones are usually propagation: "one of the tasks panicked")
        LAST_PANIC.with(|p| {
            let mut p = p.borrow_mut();
            if p.is_none() {
                *p = Some(format!("panic at {loc}: {msg}"));
            }
        });
        // scripted panics of generated programs (on whatever thread they run) and their propagation are not news
        let scripted = msg.starts_with("scripted panic") || msg.starts_with("one of the tasks panicked");
        if !scripted && !QUIET.with(|q| *q.borrow()) {
            default(info);
        } else if !scripted && std::env::var("VERIF_LOUD_PANICS").is_ok() {
            // diagnostics: one line per guarded panic
            eprintln!("guarded panic at {loc}: {msg}");
        }
    }));
}

fn strip_path(p: &str) -> &str {
    p.strip_prefix("/repo/").unwrap_or(p)
}

/// Takes the last panic message recorded on this thread.
pub fn take_last_panic() -> Option<String> {
    LAST_PANIC.with(|p| p.borrow_mut().take())
}

/// Runs `f`, turning a panic into `Err("panic at file:line: msg")`.
pub fn guard<T>(f: impl FnOnce() -> Result<T, String>) -> Result<T, String> {
    QUIET.with(|q| *q.borrow_mut() = true);
    let _ = take_last_panic();
    let r = catch_unwind(AssertUnwindSafe(f));
    QUIET.with(|q| *q.borrow_mut() = false);
    match r {
        Ok(r) => r,
        Err(_) => Err(take_last_panic().unwrap_or_else(|| "panic (no message)".into())),
    }
}

/// Like [`guard`] for a plain value; `Err` carries the panic text.
pub fn guard_val<T>(f: impl FnOnce() -> T) -> Result<T, String> {
    guard(|| Ok(f()))
}

/// One entry of `known_findings.json`.
#[derive(Clone, Debug, serde::Deserialize)]
pub struct KnownFinding {
    /// "known" or "fixed".
    pub status: String,
    /// Property id.
    pub property: String,
    /// Substring that the failure reason must contain (exact signature).
    pub signature: String,
    /// Human description.
    pub description: String,
    /// Fix commit (for "fixed").
    #[serde(default)]
    pub commit: Option<String>,
}

/// A failure found by a part.
#[derive(Clone, Debug)]
pub struct Failure {
    /// Part name.
    pub part: String,
    /// Reason.
    pub reason: String,
    /// Minimal case.
    pub case: Value,
}

/// Report of one part.
#[derive(Debug)]
pub struct PartReport {
    /// Name.
    pub name: String,
    /// How cases are generated and what is non-trivial.
    pub rule: String,
    /// Merged statistics.
    pub stats: Stats,
    /// First failure (shrunk).
    pub failure: Option<Failure>,
    /// Whether the part enumerated its space completely.
    pub exhaustive: bool,
    /// Inconclusive reason (watchdog etc.).
    pub inconclusive: Option<String>,
}

/// Environment of a check run.
pub struct Env {
    /// Property id.
    pub property: String,
    /// Tier.
    pub tier: Tier,
    /// Seed (VERIF_SEED).
    pub seed: u64,
    /// Number of shards / threads.
    pub shards: usize,
    /// Known findings for this property with status "known".
    pub known: Vec<KnownFinding>,
    /// Replay file given on the command line.
    pub replay: Option<PathBuf>,
    known_hits: Mutex<BTreeSet<String>>,
    start: Instant,
    abort: AtomicBool,
}

/// What the command line asked for.
pub enum Mode {
    /// Run the campaign.
    Run,
    /// Replay one file.
    Replay(PathBuf),
}

impl Env {
    /// Parses `<prop> quick|thorough` or `<prop> --replay <file>`.
    pub fn from_args() -> Self {
        install_panic_hook();
        let args: Vec<String> = std::env::args().collect();
        if args.len() < 3 {
            eprintln!("usage: {} <Cxx> quick|thorough | <Cxx> --replay <file>", args[0]);
            std::process::exit(2);
        }
        let property = args[1].clone();
        let (tier, replay) = match args[2].as_str() {
            "quick" => (Tier::Quick, None),
            "thorough" => (Tier::Thorough, None),
            "--replay" => (Tier::Quick, Some(PathBuf::from(&args[3]))),
            x => {
                eprintln!("bad tier {x}");
                std::process::exit(2);
            }
        };
        let seed = std::env::var("VERIF_SEED")
            .ok()
            .and_then(|s| s.trim().parse::<i128>().ok())
            .map(|x| x as u64)
            .unwrap_or(1);
        let shards = std::env::var("VERIF_SHARDS")
            .ok()
            .and_then(|s| s.parse().ok())
            .unwrap_or(16);
        let known = load_known()
            .into_iter()
            .filter(|k| k.property == property && k.status == "known")
            .collect();
        Self {
            property,
            tier,
            seed,
            shards,
            known,
            replay,
            known_hits: Mutex::default(),
            start: Instant::now(),
            abort: AtomicBool::new(false),
        }
    }

    /// Environment of the libFuzzer bridge (no command line; replay files get a `fuzz` seed tag).
    pub fn for_fuzz(property: &str) -> Self {
        let known = load_known()
            .into_iter()
            .filter(|k| k.property == property && k.status == "known")
            .collect();
        Self {
            property: property.to_string(),
            tier: Tier::Thorough,
            seed: std::env::var("VERIF_SEED").ok().and_then(|s| s.trim().parse::<i128>().ok()).map(|x| x as u64).unwrap_or(1),
            shards: 1,
            known,
            replay: None,
            known_hits: Mutex::default(),
            start: Instant::now(),
            abort: AtomicBool::new(false),
        }
    }

    /// A copy of the environment for a part that needs other settings (struct-update syntax).
    pub fn clone_for_part(&self) -> Self {
        Self {
            property: self.property.clone(),
            tier: self.tier,
            seed: self.seed,
            shards: self.shards,
            known: self.known.clone(),
            replay: self.replay.clone(),
            known_hits: Mutex::default(),
            start: self.start,
            abort: AtomicBool::new(false),
        }
    }

    /// Mode.
    pub fn mode(&self) -> Mode {
        match &self.replay {
            Some(p) => Mode::Replay(p.clone()),
            None => Mode::Run,
        }
    }

    /// If `reason` matches a known finding, records the hit and returns true.
    pub fn is_known(&self, reason: &str) -> bool {
        for k in &self.known {
            if reason.contains(&k.signature) {
                self.known_hits
                    .lock()
                    .unwrap()
                    .insert(format!("{} [{}]", k.description, k.signature));
                return true;
            }
        }
        false
    }

    /// True once some shard has failed (others stop early).
    pub fn aborted(&self) -> bool {
        self.abort.load(Ordering::Relaxed)
    }

    /// Loads the regression cases of this property: (path, part, case).
    pub fn regress_cases(&self) -> Vec<(PathBuf, String, Value)> {
        let dir = verif_root().join("regress").join(&self.property);
        let mut out = vec![];
        let Ok(rd) = std::fs::read_dir(&dir) else {
            return out;
        };
        let mut paths: Vec<_> = rd.filter_map(|e| e.ok()).map(|e| e.path()).collect();
        paths.sort();
        for p in paths {
            if p.extension().and_then(|e| e.to_str()) != Some("json") {
                continue;
            }
            let v: Value = serde_json::from_str(&std::fs::read_to_string(&p).unwrap())
                .unwrap_or_else(|e| panic!("{}: {e}", p.display()));
            out.push((
                p,
                v["part"].as_str().unwrap_or_default().to_string(),
                v["case"].clone(),
            ));
        }
        out
    }

    /// Reads a replay file: (part, case).
    pub fn read_replay(path: &Path) -> (String, Value) {
        let v: Value = serde_json::from_str(&std::fs::read_to_string(path).expect("replay file"))
            .expect("replay json");
        (v["part"].as_str().unwrap_or_default().to_string(), v["case"].clone())
    }

    /// Writes a replay file and returns its path.
    pub fn write_replay(&self, f: &Failure) -> PathBuf {
        let dir = verif_root().join("replays");
        std::fs::create_dir_all(&dir).unwrap();
        let path = dir.join(format!("{}-{}-seed{}.json", self.property, f.part, self.seed));
        let v = json!({
            "property": self.property,
            "part": f.part,
            "seed": self.seed,
            "reason": f.reason,
            "case": f.case,
        });
        std::fs::write(&path, serde_json::to_string_pretty(&v).unwrap()).unwrap();
        path
    }

    /// Final step of a replay: prints the outcome and returns the exit code.
    pub fn finish_replay(&self, path: &Path, r: Result<(), String>) -> i32 {
        match r {
            Ok(()) => {
                println!("replay {}: property held", path.display());
                0
            }
            Err(reason) if reason.contains("INFRA:") => {
                println!("replay {}: inconclusive: {reason}", path.display());
                2
            }
            Err(reason) => {
                println!("replay {}: {reason}", path.display());
                println!("VIOLATION property={} replay={}", self.property, path.display());
                1
            }
        }
    }

    /// Writes evidence, prints KNOWN-FINDING / VIOLATION lines, returns the exit code.
    pub fn finish(
        &self,
        level: &str,
        level_detail: &str,
        assumptions: &[&str],
        parts: Vec<PartReport>,
    ) -> i32 {
        let mut parts = parts;
        parts.extend(run_corpus(self));
        let wall = self.start.elapsed().as_secs_f64();
        let mut evaluations = 0;
        let mut distinct = 0;
        let mut rules = vec![];
        let mut samples = vec![];
        let mut part_json = serde_json::Map::new();
        let mut violations = 0;
        let mut inconclusive = vec![];
        let mut all_exhaustive = !parts.is_empty();
        let mut excluded = 0;
        for p in &parts {
            evaluations += p.stats.evaluations;
            distinct += p.stats.distinct_nontrivial();
            excluded += p.stats.excluded_known;
            rules.push(format!("[{}] {}", p.name, p.rule));
            for s in p.stats.samples.iter().take(3) {
                samples.push(json!({"part": p.name, "case": s}));
            }
            all_exhaustive &= p.exhaustive;
            part_json.insert(
                p.name.clone(),
                json!({
                    "evaluations": p.stats.evaluations,
                    "distinct_nontrivial": p.stats.distinct_nontrivial(),
                    "classes": p.stats.classes,
                    "counters": p.stats.counters,
                    "excluded_known": p.stats.excluded_known,
                    "exhaustive": p.exhaustive,
                    "failed": p.failure.as_ref().map(|f| f.reason.clone()),
                    "inconclusive": p.inconclusive,
                }),
            );
            if let Some(f) = &p.failure {
                violations += 1;
                let path = self.write_replay(f);
                println!("failure in part {}: {}", f.part, f.reason);
                println!("VIOLATION property={} replay={}", self.property, path.display());
            }
            if let Some(r) = &p.inconclusive {
                inconclusive.push(format!("{}: {r}", p.name));
            }
        }
        let hits = self.known_hits.lock().unwrap().clone();
        for h in &hits {
            println!("KNOWN-FINDING: property={} {}", self.property, h);
        }
        let ev = json!({
            "property_id": self.property,
            "tier": self.tier.name(),
            "seed": self.seed as i64,
            "level": level,
            "coverage": {
                "evaluations": evaluations,
                "distinct_nontrivial": distinct,
                "rule": rules.join(" || "),
                "samples": samples,
                "exhaustive": all_exhaustive,
                "level_detail": level_detail,
                "excluded_known": excluded,
                "known_findings_hit": hits.iter().collect::<Vec<_>>(),
                "parts": part_json,
                "inconclusive": inconclusive,
            },
            "assumptions": assumptions,
            "wall_s": wall,
            "violations": violations,
        });
        let dir = verif_root().join("evidence");
        std::fs::create_dir_all(&dir).unwrap();
        let mut ev = ev;
        if std::env::var("VERIF_EVIDENCE_MERGE").is_ok() {
            // a property served by two engines: the second run folds the first run's evidence in
            if let Ok(old) = std::fs::read_to_string(dir.join(format!("{}.json", self.property))) {
                if let Ok(old) = serde_json::from_str::<Value>(&old) {
                    let add = |a: &Value, b: &Value| json!(a.as_f64().unwrap_or(0.0) + b.as_f64().unwrap_or(0.0));
                    let (oc, nc) = (old["coverage"].clone(), ev["coverage"].clone());
                    ev["coverage"]["evaluations"] = json!(oc["evaluations"].as_u64().unwrap_or(0) + nc["evaluations"].as_u64().unwrap_or(0));
                    ev["coverage"]["distinct_nontrivial"] = json!(oc["distinct_nontrivial"].as_u64().unwrap_or(0) + nc["distinct_nontrivial"].as_u64().unwrap_or(0));
                    ev["coverage"]["rule"] = json!(format!("{} || {}", oc["rule"].as_str().unwrap_or(""), nc["rule"].as_str().unwrap_or("")));
                    let mut samples = oc["samples"].as_array().cloned().unwrap_or_default();
                    samples.extend(nc["samples"].as_array().cloned().unwrap_or_default());
                    ev["coverage"]["samples"] = json!(samples);
                    ev["coverage"]["exhaustive"] = json!(false);
                    let mut parts = oc["parts"].as_object().cloned().unwrap_or_default();
                    parts.extend(nc["parts"].as_object().cloned().unwrap_or_default());
                    ev["coverage"]["parts"] = Value::Object(parts);
                    ev["wall_s"] = add(&old["wall_s"], &ev["wall_s"]);
                    ev["violations"] = json!(old["violations"].as_i64().unwrap_or(0) + ev["violations"].as_i64().unwrap_or(0));
                }
            }
        }
        std::fs::write(
            dir.join(format!("{}.json", self.property)),
            serde_json::to_string_pretty(&ev).unwrap(),
        )
        .unwrap();
        println!(
            "{} {}: evaluations={} distinct_nontrivial={} excluded_known={} violations={} wall={:.1}s",
            self.property,
            self.tier.name(),
            evaluations,
            distinct,
            excluded,
            violations,
            wall
        );
        if violations > 0 {
            1
        } else if !inconclusive.is_empty() {
            println!("INCONCLUSIVE: {}", inconclusive.join("; "));
            2
        } else {
            0
        }
    }
}

fn load_known() -> Vec<KnownFinding> {
    let p = verif_root().join("known_findings.json");
    match std::fs::read_to_string(&p) {
        Ok(s) => serde_json::from_str(&s).expect("known_findings.json"),
        Err(_) => vec![],
    }
}

/// Options of a proptest part.
pub struct PartOpts {
    /// Total number of cases (split over the shards).
    pub cases: u64,
    /// Maximal number of shrink iterations.
    pub max_shrink_iters: u32,
    /// Samples kept.
    pub samples: usize,
}

impl Default for PartOpts {
    fn default() -> Self {
        Self {
            cases: 1000,
            max_shrink_iters: 4096,
            samples: 3,
        }
    }
}

/// Runs a proptest campaign on `env.shards` threads. `strategy` is built inside each thread.
/// `check` judges one case; panics inside it are caught and reported as failures.
/// Known findings are tolerated (counted in `excluded_known`).
pub fn run_proptest<T, S>(
    env: &Env,
    name: &str,
    rule: &str,
    opts: PartOpts,
    strategy: impl Fn() -> S + Sync,
    check: impl Fn(&T, &mut Stats) -> Result<(), String> + Sync,
) -> PartReport
where
    S: Strategy<Value = T>,
    T: Debug + Serialize,
{
    let mut report = PartReport {
        name: name.to_string(),
        rule: rule.to_string(),
        stats: Stats::new(opts.samples),
        failure: None,
        exhaustive: false,
        inconclusive: None,
    };
    // development aid: VERIF_ONLY_PART=<name> skips every other generated part (never set by the registered commands)
    if std::env::var("VERIF_ONLY_PART").is_ok_and(|p| p != name) {
        return report;
    }
    let shards = env.shards.max(1);
    let total_cases = std::env::var("VERIF_DEV_CASES").ok().and_then(|c| c.parse::<u64>().ok()).unwrap_or(opts.cases);
    let per_shard = total_cases.div_ceil(shards as u64).max(1);
    let results: Vec<(Stats, Option<Failure>)> = std::thread::scope(|s| {
        let handles: Vec<_> = (0..shards)
            .map(|shard| {
                let strategy = &strategy;
                let check = &check;
                let opts = &opts;
                s.spawn(move || {
                    install_thread();
                    let mut stats = Stats::new(opts.samples);
                    let mut runner = TestRunner::new(Config {
                        cases: per_shard as u32,
                        rng_seed: RngSeed::Fixed(mix(&[
                            env.seed,
                            fingerprint(name),
                            fingerprint(&env.property),
                            shard as u64,
                        ])),
                        failure_persistence: None,
                        max_shrink_iters: opts.max_shrink_iters,
                        max_global_rejects: 1 << 20,
                        max_local_rejects: 1 << 20,
                        ..Config::default()
                    });
                    let shrinking = std::cell::Cell::new(false);
                    let stats_cell = RefCell::new(&mut stats);
                    let res = runner.run(&strategy(), |case| {
                        if !shrinking.get() && env.aborted() {
                            return Ok(());
                        }
                        let mut scratch = Stats::new(0);
                        let mut guard_stats = stats_cell.borrow_mut();
                        let st: &mut Stats = if shrinking.get() {
                            &mut scratch
                        } else {
                            &mut guard_stats
                        };
                        if !shrinking.get() {
                            st.evaluations += 1;
                        }
                        if crashdump::armed() {
                            crashdump::set_current(&serde_json::to_vec(&json!({"property": env.property, "part": name, "reason": "the process died (abort / segfault) while executing this case", "case": serde_json::to_value(&case).unwrap_or(Value::Null)})).unwrap_or_default());
                        }
                        let verdict = guard(|| check(&case, st));
                        if crashdump::armed() {
                            crashdump::clear_current();
                        }
                        match verdict {
                            Ok(()) => Ok(()),
                            Err(reason) => {
                                if env.is_known(&reason) {
                                    if !shrinking.get() {
                                        st.excluded_known += 1;
                                    }
                                    return Ok(());
                                }
                                shrinking.set(true);
                                env.abort.store(true, Ordering::Relaxed);
                                Err(TestCaseError::fail(reason))
                            }
                        }
                    });
                    drop(stats_cell);
                    let failure = match res {
                        Ok(()) => None,
                        Err(TestError::Fail(reason, case)) => Some(Failure {
                            part: name.to_string(),
                            reason: reason.message().to_string(),
                            case: serde_json::to_value(&case).unwrap(),
                        }),
                        Err(TestError::Abort(reason)) => Some(Failure {
                            part: name.to_string(),
                            reason: format!("harness abort: {}", reason.message()),
                            case: Value::Null,
                        }),
                    };
                    (stats, failure)
                })
            })
            .collect();
        handles.into_iter().map(|h| h.join().unwrap()).collect()
    });
    for (st, f) in results {
        report.stats.merge(st);
        if report.failure.is_none() {
            report.failure = f;
        }
    }
    if let Some(f) = &report.failure {
        // `INFRA:` = the environment (sockets, ports, threads) failed, not the code under test
        if f.reason.starts_with("harness abort") || f.reason.contains("INFRA:") {
            report.inconclusive = Some(f.reason.clone());
            report.failure = None;
        }
    }
    // The stop flag is raised by the first failing shard. After a real violation it stays raised: the remaining
    // parts are skipped and the violation is reported at once (a later part could otherwise take the process down
    // before the verdict is printed). An environment problem must not silence the parts that follow.
    if report.failure.is_none() {
        env.abort.store(false, Ordering::Relaxed);
    }
    report
}

/// Runs a hand-written enumeration. `items(shard, shards)` yields this shard's cases.
pub fn run_enum<T, I>(
    env: &Env,
    name: &str,
    rule: &str,
    exhaustive: bool,
    samples: usize,
    items: impl Fn(usize, usize) -> I + Sync,
    check: impl Fn(&T, &mut Stats) -> Result<(), String> + Sync,
) -> PartReport
where
    I: Iterator<Item = T>,
    T: Debug + Serialize,
{
    let mut report = PartReport {
        name: name.to_string(),
        rule: rule.to_string(),
        stats: Stats::new(samples),
        failure: None,
        exhaustive,
        inconclusive: None,
    };
    let shards = env.shards.max(1);
    let results: Vec<(Stats, Option<Failure>)> = std::thread::scope(|s| {
        let handles: Vec<_> = (0..shards)
            .map(|shard| {
                let items = &items;
                let check = &check;
                s.spawn(move || {
                    install_thread();
                    let mut stats = Stats::new(samples);
                    for case in items(shard, shards) {
                        if env.aborted() {
                            break;
                        }
                        stats.evaluations += 1;
                        if let Err(reason) = guard(|| check(&case, &mut stats)) {
                            if env.is_known(&reason) {
                                stats.excluded_known += 1;
                                continue;
                            }
                            env.abort.store(true, Ordering::Relaxed);
                            return (
                                stats,
                                Some(Failure {
                                    part: name.to_string(),
                                    reason,
                                    case: serde_json::to_value(&case).unwrap(),
                                }),
                            );
                        }
                    }
                    (stats, None)
                })
            })
            .collect();
        handles.into_iter().map(|h| h.join().unwrap()).collect()
    });
    for (st, f) in results {
        report.stats.merge(st);
        if report.failure.is_none() {
            report.failure = f;
        }
    }
    if report.failure.is_some() {
        report.exhaustive = false;
    }
    report
}

fn install_thread() {}

/// Runs the regression files of one part through `check` (strict: known findings not tolerated
/// unless listed). Returns the first failure as a report entry.
pub fn run_regress<T: DeserializeOwned + Debug + Serialize>(
    env: &Env,
    part: &str,
    check: impl Fn(&T, &mut Stats) -> Result<(), String>,
) -> Option<PartReport> {
    let cases: Vec<_> = env
        .regress_cases()
        .into_iter()
        .filter(|(_, p, _)| p == part)
        .collect();
    if cases.is_empty() {
        return None;
    }
    let mut report = PartReport {
        name: format!("{part}.regress"),
        rule: "saved regression inputs replayed before the campaign".into(),
        stats: Stats::new(1),
        failure: None,
        exhaustive: false,
        inconclusive: None,
    };
    for (path, _, case) in cases {
        let case: T = match serde_json::from_value(case) {
            Ok(c) => c,
            Err(e) => {
                report.inconclusive = Some(format!("{}: {e}", path.display()));
                continue;
            }
        };
        report.stats.evaluations += 1;
        if let Err(reason) = guard(|| check(&case, &mut report.stats)) {
            if env.is_known(&reason) {
                report.stats.excluded_known += 1;
                continue;
            }
            report.failure = Some(Failure {
                part: part.to_string(),
                reason: format!("regression {}: {reason}", path.display()),
                case: serde_json::to_value(&case).unwrap(),
            });
            break;
        }
    }
    Some(report)
}

/// Replays one case value through `check`.
pub fn replay_case<T: DeserializeOwned>(
    case: Value,
    check: impl FnOnce(&T, &mut Stats) -> Result<(), String>,
) -> Result<(), String> {
    if crashdump::armed() {
        crashdump::set_current(&serde_json::to_vec(&json!({"reason": "the process died (abort / segfault) while replaying this case", "case": case})).unwrap_or_default());
    }
    let case: T = serde_json::from_value(case).map_err(|e| format!("bad replay case: {e}"))?;
    let mut st = Stats::new(0);
    let r = guard(|| check(&case, &mut st));
    if crashdump::armed() {
        crashdump::clear_current();
    }
    r
}

/// A finite stream of generator-provided choices, interpreted procedurally (so that dependent
/// generation stays simple while proptest still owns every random decision and can shrink it:
/// fewer / smaller choices mean a simpler case; an exhausted stream yields 0 = the simplest choice).
#[derive(Clone, Debug)]
pub struct Choices {
    data: Vec<u16>,
    pos: usize,
}

impl Choices {
    /// Wraps raw choices.
    pub fn new(data: Vec<u16>) -> Self {
        Self { data, pos: 0 }
    }
    /// Strategy for a stream of up to `max` choices.
    pub fn strategy(max: usize) -> impl Strategy<Value = Choices> {
        proptest::collection::vec(proptest::num::u16::ANY, 0..=max).prop_map(Choices::new)
    }
    /// Next raw choice.
    pub fn raw(&mut self) -> u16 {
        let v = self.data.get(self.pos).copied().unwrap_or(0);
        self.pos += 1;
        v
    }
    /// Uniform in `0..n` (monotone in the raw choice).
    pub fn below(&mut self, n: usize) -> usize {
        if n <= 1 {
            self.raw();
            return 0;
        }
        pick_index(self.raw(), n)
    }
    /// Uniform in `lo..=hi`.
    pub fn range(&mut self, lo: u64, hi: u64) -> u64 {
        lo + self.below((hi - lo + 1) as usize) as u64
    }
    /// True with probability `num/den`; false is the simple choice.
    pub fn chance(&mut self, num: usize, den: usize) -> bool {
        let r = self.below(den);
        r >= den - num
    }
    /// Fair coin.
    pub fn bool(&mut self) -> bool {
        self.chance(1, 2)
    }
    /// Picks by weight; the first alternative is the simplest.
    pub fn weighted<T: Clone>(&mut self, alts: &[(usize, T)]) -> T {
        let total: usize = alts.iter().map(|a| a.0).sum();
        let mut r = self.below(total);
        for (w, t) in alts {
            if r < *w {
                return t.clone();
            }
            r -= w;
        }
        alts.last().unwrap().1.clone()
    }
    /// Picks one element.
    pub fn pick<T: Clone>(&mut self, alts: &[T]) -> T {
        alts[self.below(alts.len())].clone()
    }
    /// A full u64 from four raw choices.
    pub fn u64(&mut self) -> u64 {
        (0..4).fold(0u64, |a, _| (a << 16) | self.raw() as u64)
    }
    /// Random subset of `0..n` as a boolean mask.
    pub fn mask(&mut self, n: usize) -> Vec<bool> {
        (0..n).map(|_| self.bool()).collect()
    }
    /// A permutation of `0..n`.
    pub fn perm(&mut self, n: usize) -> Vec<usize> {
        let mut v: Vec<usize> = (0..n).collect();
        for i in 0..n {
            let j = i + self.below(n - i);
            v.swap(i, j);
        }
        v
    }
}

static EMERGENCY: std::sync::OnceLock<(String, u64)> = std::sync::OnceLock::new();

impl Env {
    /// Registers property and seed for [`emergency_violation`].
    pub fn arm_emergency(&self) {
        let _ = EMERGENCY.set((self.property.clone(), self.seed));
    }
}

/// For violations after which the process cannot continue (an unfinished scope cannot be dropped:
/// it aborts the process by design): writes the replay file, prints the VIOLATION line and exits 1.
/// The case is not shrunk.
pub fn emergency_violation(part: &str, case: Value, reason: &str) -> ! {
    let (property, seed) = EMERGENCY.get().cloned().unwrap_or(("C00".into(), 0));
    let dir = verif_root().join("replays");
    let _ = std::fs::create_dir_all(&dir);
    let path = dir.join(format!("{property}-{part}-seed{seed}-stuck.json"));
    let v = json!({"property": property, "part": part, "seed": seed, "reason": reason, "case": case});
    let _ = std::fs::write(&path, serde_json::to_string_pretty(&v).unwrap());
    println!("failure in part {part}: {reason}");
    println!("VIOLATION property={property} replay={}", path.display());
    use std::io::Write;
    let _ = std::io::stdout().flush();
    std::process::exit(1);
}

// ------------------------------------------------------------------------------------------------
// libFuzzer bridge: the same generators and oracles driven by a coverage-guided byte stream.

/// Runs one case built from a raw choice stream; `Err((reason, case))` is a violation candidate.
pub type FuzzFn = fn(Vec<u16>, &mut Stats) -> Result<(), (String, Value)>;

/// One (property, part) pair that the libFuzzer bridge can drive.
pub struct FuzzEntry {
    /// Property id.
    pub property: &'static str,
    /// Part name (same as in the proptest campaign, so replay files are interchangeable).
    pub part: &'static str,
    /// Maximal number of choices the generator of this part consumes.
    pub max_choices: usize,
    /// Runs one case.
    pub run: FuzzFn,
}

/// Builds a [`FuzzEntry`] from a generator `fn(&mut Choices) -> Case` and a check
/// `fn(&Case, &mut Stats) -> Result<(), String>`.
#[macro_export]
macro_rules! fuzz_entry {
    ($prop:expr, $part:expr, $max:expr, $gen:expr, $check:expr) => {
        $crate::FuzzEntry {
            property: $prop,
            part: $part,
            max_choices: $max,
            run: |raw, st| {
                let mut ch = $crate::Choices::new(raw);
                let case = ($gen)(&mut ch);
                $crate::guard(|| ($check)(&case, st)).map_err(|r| (r, $crate::to_json(&case)))
            },
        }
    };
}

/// Serialises a case (helper of [`fuzz_entry`]).
pub fn to_json<T: Serialize>(t: &T) -> Value {
    serde_json::to_value(t).unwrap_or(Value::Null)
}

static FUZZ_REGISTRY: std::sync::OnceLock<Vec<FuzzEntry>> = std::sync::OnceLock::new();

/// Registers the engine's fuzzable parts so that [`Env::finish`] can replay the committed libFuzzer
/// corpora (`fuzz/corpus/<Cxx>-<part>/`) natively.
pub fn set_fuzz_registry(v: Vec<FuzzEntry>) {
    let _ = FUZZ_REGISTRY.set(v);
}

/// Choice stream of a corpus file (little-endian u16s).
pub fn corpus_choices(data: &[u8], max: usize) -> Vec<u16> {
    data.chunks(2).take(max).map(|c| u16::from_le_bytes([c[0], *c.get(1).unwrap_or(&0)])).collect()
}

/// Replays the committed libFuzzer corpus of every registered part of this property (sequentially
/// sharded over threads): the coverage-interesting inputs found by earlier campaigns are the
/// seconds-long regression tier of those campaigns.
fn run_corpus(env: &Env) -> Vec<PartReport> {
    let Some(reg) = FUZZ_REGISTRY.get() else { return vec![] };
    let mut out = vec![];
    for e in reg.iter().filter(|e| e.property == env.property) {
        let dir = verif_root().join("fuzz").join("corpus").join(format!("{}-{}", e.property, e.part));
        let mut files: Vec<PathBuf> = match std::fs::read_dir(&dir) {
            Ok(rd) => rd.filter_map(|x| x.ok()).map(|x| x.path()).filter(|p| p.is_file()).collect(),
            Err(_) => continue,
        };
        if files.is_empty() {
            continue;
        }
        files.sort();
        let shards = env.shards.max(1);
        let results: Vec<(Stats, Option<Failure>)> = std::thread::scope(|s| {
            let handles: Vec<_> = (0..shards)
                .map(|shard| {
                    let files = &files;
                    s.spawn(move || {
                        install_thread();
                        let mut stats = Stats::new(1);
                        let mut failure = None;
                        for f in files.iter().skip(shard).step_by(shards) {
                            let Ok(data) = std::fs::read(f) else { continue };
                            stats.evaluations += 1;
                            if let Err((reason, case)) = (e.run)(corpus_choices(&data, e.max_choices), &mut stats) {
                                if env.is_known(&reason) {
                                    stats.excluded_known += 1;
                                } else if failure.is_none() {
                                    failure = Some(Failure { part: e.part.to_string(), reason: format!("(corpus file {}) {reason}", f.display()), case });
                                }
                            }
                        }
                        (stats, failure)
                    })
                })
                .collect();
            handles.into_iter().map(|h| h.join().unwrap()).collect()
        });
        let mut report = PartReport {
            name: format!("{}@corpus", e.part),
            rule: format!("replay of the committed libFuzzer corpus of part {} (choice streams that reached new coverage in earlier coverage-guided campaigns), same generator, oracle and non-triviality rule as the part", e.part),
            stats: Stats::new(1),
            failure: None,
            exhaustive: false,
            inconclusive: None,
        };
        for (st, f) in results {
            report.stats.merge(st);
            if report.failure.is_none() {
                report.failure = f;
            }
        }
        if let Some(f) = &report.failure {
            if f.reason.contains("INFRA:") {
                report.inconclusive = Some(f.reason.clone());
                report.failure = None;
            }
        }
        out.push(report);
    }
    out
}

/// Greedy minimisation of a failing choice stream (used by the libFuzzer bridge, whose own inputs are
/// not shrunk): drop chunks, zero and halve values while the case keeps failing with a reason that is
/// not a known finding. Bounded by `budget` executions.
pub fn shrink_choices(env: &Env, e: &FuzzEntry, raw: Vec<u16>, budget: usize) -> (Vec<u16>, String, Value) {
    let fails = |r: &[u16]| -> Option<(String, Value)> {
        let mut st = Stats::new(0);
        match (e.run)(r.to_vec(), &mut st) {
            Err((reason, case)) if !env.is_known(&reason) && !reason.contains("INFRA:") => Some((reason, case)),
            _ => None,
        }
    };
    let mut best = raw;
    while best.last() == Some(&0) {
        best.pop();
    }
    let Some(mut verdict) = fails(&best) else {
        let mut st = Stats::new(0);
        let r = (e.run)(best.clone(), &mut st).err().unwrap_or_default();
        return (best, r.0, r.1);
    };
    let mut used = 0;
    let mut progress = true;
    while progress && used < budget {
        progress = false;
        let mut chunk = best.len().max(1) / 2;
        while chunk >= 1 && used < budget {
            let mut i = 0;
            while i + chunk <= best.len() && used < budget {
                let mut cand = best.clone();
                cand.drain(i..i + chunk);
                used += 1;
                if let Some(v) = fails(&cand) {
                    best = cand;
                    verdict = v;
                    progress = true;
                } else {
                    i += chunk;
                }
            }
            chunk /= 2;
        }
        for i in 0..best.len() {
            if used >= budget {
                break;
            }
            for repl in [0u16, best[i] / 2, best[i].saturating_sub(1)] {
                if repl >= best[i] {
                    continue;
                }
                let mut cand = best.clone();
                cand[i] = repl;
                used += 1;
                if let Some(v) = fails(&cand) {
                    best = cand;
                    verdict = v;
                    progress = true;
                    break;
                }
            }
        }
    }
    (best, verdict.0, verdict.1)
}
