#!/bin/bash
# Runs every registered check (default tier quick) on the current tree, validates the evidence files and prints a summary.
# usage: tools_run_all.sh [tier] [seed]
cd "$(dirname "$0")"
tier="${1:-quick}"; export VERIF_SEED="${2:-1}"
fail=0
for p in $(python3 -c "import json; print(' '.join(c['property_id'] for c in json.load(open('MANIFEST.json'))['checks']))"); do
  start=$SECONDS
  out=$(./check $p $tier 2>&1); code=$?
  echo "$p exit=$code in $((SECONDS-start))s :: $(echo "$out" | grep -E "^$p $tier:" | tail -1) $(echo "$out" | grep -E '^(VIOLATION|KNOWN-FINDING|INCONCLUSIVE)' | cut -c1-160 | tr '\n' ' ')"
  [ $code -ne 0 ] && fail=1
done
python3-vt - <<'PY'
import json,jsonschema,glob
sch=json.load(open('/root/.vp/EVIDENCE.schema.json'))
for f in sorted(glob.glob('/verif/evidence/C*.json')):
    try: jsonschema.validate(json.load(open(f)),sch)
    except Exception as e: print('INVALID',f,str(e)[:200])
print('evidence files validated')
PY
exit $fail
